import PysnarkModel.Core
import Mathlib.Tactic.Ring
import Mathlib.Tactic.Linarith
import Mathlib.Data.Int.ModEq

/-! Spike: completeness/coherence invariant for unguarded primitives -/

def St.assign (s : St) (k : Int) : Int :=
  if k = 0 then 1 else if k > 0 then s.pub.getD (k.toNat - 1) 0 else s.priv.getD ((-k).toNat - 1) 0

def Sat (p : Int) (w : Int → Int) (c : LC × LC × LC) : Prop :=
  (LC.eval w c.1 * LC.eval w c.2.1 - LC.eval w c.2.2) % p = 0

/-- every key of the lc is allocated in `s` -/
def LC.Scoped (s : St) (a : LC) : Prop :=
  ∀ kv ∈ a, (kv.1 = 0) ∨ (0 < kv.1 ∧ kv.1 ≤ s.pub.length) ∨ (kv.1 < 0 ∧ -kv.1 ≤ s.priv.length)

def Coh (p : Int) (s : St) (x : LinComb) : Prop :=
  x.lc.Scoped s ∧ (x.value - LC.eval s.assign x.lc) % p = 0

/-- state extension: same publics, privates extended -/
def St.Ext (s t : St) : Prop := t.pub = s.pub ∧ ∃ more, t.priv = s.priv ++ more

theorem assign_ext {s t : St} (h : s.Ext t) {k : Int}
    (hk : (k = 0) ∨ (0 < k ∧ k ≤ s.pub.length) ∨ (k < 0 ∧ -k ≤ s.priv.length)) :
    t.assign k = s.assign k := by
  obtain ⟨hp, more, hq⟩ := h
  unfold St.assign
  rcases hk with rfl | ⟨h1, h2⟩ | ⟨h1, h2⟩
  · simp
  · have : ¬ k = 0 := by omega
    simp [this, h1, hp]
  · have h0 : ¬ k = 0 := by omega
    have h3 : ¬ k > 0 := by omega
    simp only [h0, h3, if_false, hq]
    have : (-k).toNat - 1 < s.priv.length := by omega
    simp [List.getD_eq_getElem?_getD, List.getElem?_append_left this]

theorem eval_ext {s t : St} (h : s.Ext t) {a : LC} (ha : a.Scoped s) :
    LC.eval t.assign a = LC.eval s.assign a := by
  unfold LC.eval
  congr 1
  apply List.map_congr_left
  intro kv hkv
  rw [assign_ext h (ha kv hkv)]

theorem Coh.ext {p : Int} {s t : St} (h : s.Ext t) {x : LinComb} (hx : Coh p s x) : Coh p t x := by
  obtain ⟨hs, hv⟩ := hx
  obtain ⟨hp, more, hq⟩ := h
  refine ⟨?_, ?_⟩
  · intro kv hkv
    rcases hs kv hkv with h | ⟨h1, h2⟩ | ⟨h1, h2⟩
    · exact Or.inl h
    · exact Or.inr (Or.inl ⟨h1, by rw [hp]; exact h2⟩)
    · refine Or.inr (Or.inr ⟨h1, ?_⟩); rw [hq, List.length_append]; omega
  · rw [eval_ext ⟨hp, more, hq⟩ hs]; exact hv

theorem privVal_coh (p : Int) (v : Int) (s t : St) (x : LinComb) (h : privVal v s = .ok (x, t)) :
    s.Ext t ∧ Coh p t x ∧ t.cons = s.cons ∧ x.value = v := by
  simp [privVal] at h
  obtain ⟨rfl, rfl⟩ := h
  refine ⟨⟨rfl, [v], rfl⟩, ⟨?_, ?_⟩, rfl, rfl⟩
  · intro kv hkv; simp at hkv; subst hkv
    right; right; simp; omega
  · simp [LC.eval, St.assign]
    have h1 : ¬ (-(s.priv.length : Int) + -1 = 0) := by omega
    have h2 : ¬ (-(s.priv.length : Int) + -1 > 0) := by omega
    have h3 : ¬ ((s.priv.length : Int) + 1 = 0) := by omega
    have h4 : ¬ (0 < -(s.priv.length : Int) + -1) := by omega
    simp [h1, h2, h3, h4]
    have : (-(-(s.priv.length : Int) + -1)).toNat - 1 = s.priv.length := by omega
    simp [this]
