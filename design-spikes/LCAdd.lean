import Mathlib.Tactic.Ring
import Mathlib.Tactic.Linarith
import Mathlib.Data.List.Nodup

/-! dict-merge addition of linear combinations (snarkjs / zkinterface LC class) -/
variable {K : Type} [DecidableEq K]

abbrev LC (K : Type) := List (K × Int)

def LC.get? (l : LC K) (k : K) : Option Int := (l.find? (·.1 = k)).map (·.2)
def LC.add (a b : LC K) : LC K :=
  a.map (fun kv => match LC.get? b kv.1 with | some w => (kv.1, kv.2 + w) | none => kv)
  ++ b.filter (fun kv => (LC.get? a kv.1).isNone)
def LC.scale (a : LC K) (c : Int) : LC K := a.map (fun kv => (kv.1, kv.2 * c))
def LC.eval (w : K → Int) (a : LC K) : Int := (a.map (fun kv => kv.2 * w kv.1)).sum
def LC.WF (a : LC K) : Prop := (a.map (·.1)).Nodup

/-- coefficient of `k` (0 if absent) -/
def LC.coef (a : LC K) (k : K) : Int := (LC.get? a k).getD 0

theorem LC.eval_scale (w : K → Int) (a : LC K) (c : Int) : LC.eval w (a.scale c) = c * LC.eval w a := by
  unfold LC.eval LC.scale
  induction a with
  | nil => simp
  | cons x xs ih => simp [List.map_cons, List.sum_cons] at ih ⊢; rw [ih]; ring

theorem LC.get?_cons (x : K × Int) (xs : LC K) (k : K) :
    LC.get? (x :: xs) k = if x.1 = k then some x.2 else LC.get? xs k := by
  unfold LC.get?; simp [List.find?_cons]; split <;> simp_all

theorem LC.get?_none_of_not_mem (a : LC K) (k : K) (h : k ∉ a.map (·.1)) : LC.get? a k = none := by
  induction a with
  | nil => simp [LC.get?]
  | cons x xs ih =>
    rw [LC.get?_cons]
    simp at h
    have h1 : ¬ x.1 = k := fun e => h.1 e.symm
    simp only [h1, if_false]
    exact ih (by simpa using h.2)


/-- sum over the entries of `b` selected by a key predicate -/
def LC.evalOn (w : K → Int) (P : K → Bool) (b : LC K) : Int :=
  ((b.filter (fun kv => P kv.1)).map (fun kv => kv.2 * w kv.1)).sum

theorem LC.evalOn_split (w : K → Int) (P : K → Bool) (b : LC K) :
    LC.eval w b = LC.evalOn w P b + LC.evalOn w (fun k => !P k) b := by
  unfold LC.eval LC.evalOn
  induction b with
  | nil => simp
  | cons x xs ih =>
    simp only [List.filter_cons]
    by_cases h : P x.1
    · simp [h]; simp at ih; rw [ih]; ring
    · simp [h]; simp at ih; rw [ih]; ring

/-- for a well-formed `b`, the entries with key `k` sum to `coef b k * w k` -/
theorem LC.evalOn_eq (w : K → Int) (k : K) : ∀ b : LC K, b.WF →
    LC.evalOn w (fun k' => decide (k' = k)) b = LC.coef b k * w k := by
  intro b
  induction b with
  | nil => intro _; simp [LC.evalOn, LC.coef, LC.get?]
  | cons x xs ih =>
    intro hb
    have hxs : LC.WF xs := by unfold LC.WF at hb ⊢; simp at hb; exact hb.2
    have hx : x.1 ∉ xs.map (·.1) := by unfold LC.WF at hb; simp at hb; simpa using hb.1
    by_cases h : x.1 = k
    · subst h
      have h0 : LC.evalOn w (fun k' => decide (k' = x.1)) xs = 0 := by
        rw [ih hxs]; simp [LC.coef, LC.get?_none_of_not_mem xs x.1 hx]
      unfold LC.evalOn at h0 ⊢
      simp [List.filter_cons, LC.coef, LC.get?_cons] at h0 ⊢
      rw [h0]
    · have := ih hxs
      unfold LC.evalOn at this ⊢
      simp [List.filter_cons, h, LC.coef, LC.get?_cons] at this ⊢
      exact this

theorem LC.isNone_get?_iff (a : LC K) (k : K) : (LC.get? a k).isNone = !decide (k ∈ a.map (·.1)) := by
  induction a with
  | nil => simp [LC.get?]
  | cons x xs ih =>
    rw [LC.get?_cons]
    by_cases h : x.1 = k
    · simp [h]
    · have h' : ¬ k = x.1 := fun e => h e.symm
      simp [h, h', ih]

theorem LC.evalOn_or (w : K → Int) (P Q : K → Bool) (hd : ∀ k, ¬ (P k = true ∧ Q k = true)) (b : LC K) :
    LC.evalOn w (fun k => P k || Q k) b = LC.evalOn w P b + LC.evalOn w Q b := by
  unfold LC.evalOn
  induction b with
  | nil => simp
  | cons y ys ih =>
    simp only [List.filter_cons]
    cases hp : P y.1 <;> cases hq : Q y.1
    · simp [ih]
    · simp [ih]; ring
    · simp [ih]; ring
    · exact absurd ⟨hp, hq⟩ (hd y.1)

theorem LC.evalOn_congr (w : K → Int) (P Q : K → Bool) (h : ∀ k, P k = Q k) (b : LC K) :
    LC.evalOn w P b = LC.evalOn w Q b := by
  have : P = Q := funext h
  rw [this]

/-- Σ_{kv ∈ a} coef b kv.1 * w kv.1 = Σ over entries of b whose key occurs in a -/
theorem LC.cross (w : K → Int) (b : LC K) (hb : b.WF) : ∀ a : LC K, a.WF →
    (a.map (fun kv => LC.coef b kv.1 * w kv.1)).sum
      = LC.evalOn w (fun k => decide (k ∈ a.map (·.1))) b := by
  intro a
  induction a with
  | nil => intro _; simp [LC.evalOn]
  | cons x xs ih =>
    intro ha
    have hxs : LC.WF xs := by unfold LC.WF at ha ⊢; simp at ha; exact ha.2
    have hx : x.1 ∉ xs.map (·.1) := by unfold LC.WF at ha; simp at ha; simpa using ha.1
    simp only [List.map_cons, List.sum_cons]
    rw [ih hxs, ← LC.evalOn_eq w x.1 b hb]
    rw [LC.evalOn_congr w (fun k => decide (k ∈ x.1 :: xs.map (·.1)))
          (fun k => decide (k = x.1) || decide (k ∈ xs.map (·.1))) (by intro k; by_cases h : k = x.1 <;> simp [h]) b]
    rw [LC.evalOn_or]
    intro k ⟨h1, h2⟩
    simp at h1 h2
    subst h1
    exact hx (by simpa using h2)

theorem LC.eval_add (w : K → Int) (a b : LC K) (ha : a.WF) (hb : b.WF) :
    LC.eval w (LC.add a b) = LC.eval w a + LC.eval w b := by
  have h1 : LC.eval w (LC.add a b)
      = (a.map (fun kv => (kv.2 + LC.coef b kv.1) * w kv.1)).sum
        + LC.evalOn w (fun k => !decide (k ∈ a.map (·.1))) b := by
    unfold LC.add LC.eval LC.evalOn
    rw [List.map_append, List.sum_append, List.map_map]
    congr 1
    · congr 1
      apply List.map_congr_left
      intro kv _
      simp only [Function.comp, LC.coef]
      cases h : LC.get? b kv.1 <;> simp
    · congr 2
      apply List.filter_congr
      intro kv _
      rw [LC.isNone_get?_iff]
  have h2 : ∀ a' : LC K, (a'.map (fun kv => (kv.2 + LC.coef b kv.1) * w kv.1)).sum
      = LC.eval w a' + (a'.map (fun kv => LC.coef b kv.1 * w kv.1)).sum := by
    intro a'
    unfold LC.eval
    induction a' with
    | nil => simp
    | cons x xs ih =>
      simp only [List.map_cons, List.sum_cons]
      rw [ih]; ring
  rw [h1, h2 a, LC.cross w b hb a ha, LC.evalOn_split w (fun k => decide (k ∈ a.map (·.1))) b]
  ring

#print axioms LC.eval_add
