import PysnarkModel.Core
import Mathlib.Tactic.Ring
import Mathlib.Tactic.Linarith

/-! shape = everything but values -/
structure Shape where
  npub : Nat
  npriv : Nat
  cons : List (LC × LC × LC)
  guard : Option LC
  one : LC
  bitlength : Nat
deriving DecidableEq

def St.shape (s : St) : Shape :=
  ⟨s.pub.length, s.priv.length, s.cons, s.guard.map (·.lc), s.one.lc, s.bitlength⟩

/-- relational spec: two runs from shape-equal states with lc-equal args, both succeeding,
    end in shape-equal states with lc-equal results -/
def Obl {α} (ra : α → α → Prop) (m1 m2 : M α) : Prop :=
  ∀ s1 s2 a1 a2 t1 t2, s1.shape = s2.shape → m1 s1 = .ok (a1, t1) → m2 s2 = .ok (a2, t2) →
    ra a1 a2 ∧ t1.shape = t2.shape

def lcEq (a b : LinComb) : Prop := a.lc = b.lc

theorem Obl.bind {α β} {ra : α → α → Prop} {rb : β → β → Prop} {m1 m2 : M α} {f1 f2 : α → M β}
    (hm : Obl ra m1 m2) (hf : ∀ a1 a2, ra a1 a2 → Obl rb (f1 a1) (f2 a2)) :
    Obl rb (m1 >>= f1) (m2 >>= f2) := by
  intro s1 s2 b1 b2 t1 t2 hs h1 h2
  change M.bind m1 f1 s1 = _ at h1
  change M.bind m2 f2 s2 = _ at h2
  unfold M.bind at h1 h2
  cases e1 : m1 s1 with
  | error e => simp [e1] at h1
  | ok r1 =>
    cases e2 : m2 s2 with
    | error e => simp [e2] at h2
    | ok r2 =>
      obtain ⟨a1, u1⟩ := r1; obtain ⟨a2, u2⟩ := r2
      simp [e1] at h1; simp [e2] at h2
      obtain ⟨hra, hu⟩ := hm s1 s2 a1 a2 u1 u2 hs e1 e2
      exact hf a1 a2 hra u1 u2 b1 b2 t1 t2 hu h1 h2

theorem privVal_obl (v1 v2 : Int) : Obl lcEq (privVal v1) (privVal v2) := by
  intro s1 s2 a1 a2 t1 t2 hs h1 h2
  simp [privVal] at h1 h2
  obtain ⟨rfl, rfl⟩ := h1; obtain ⟨rfl, rfl⟩ := h2
  simp [St.shape, lcEq] at *
  obtain ⟨h1, h2, h3, h4, h5, h6⟩ := hs
  simp [*]

theorem addConstraintUnsafe_obl (a1 b1 c1 a2 b2 c2 : LinComb) (ha : lcEq a1 a2) (hb : lcEq b1 b2) (hc : lcEq c1 c2) :
    Obl (fun _ _ => True) (addConstraintUnsafe a1 b1 c1) (addConstraintUnsafe a2 b2 c2) := by
  intro s1 s2 x1 x2 t1 t2 hs h1 h2
  simp [addConstraintUnsafe] at h1 h2
  subst h1 h2
  simp [St.shape, lcEq] at *
  obtain ⟨h1, h2, h3, h4, h5, h6⟩ := hs
  simp [*]
#print axioms Obl.bind
