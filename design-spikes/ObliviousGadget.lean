import PysnarkModel.Core
import PysnarkModel.P1

/-! Spike: obliviousness of a gadget with value-dependent branches -/

theorem Obl.pure {α} {ra : α → α → Prop} {a1 a2 : α} (h : ra a1 a2) : Obl ra (M.pure a1) (M.pure a2) := by
  intro s1 s2 x1 x2 t1 t2 hs h1 h2
  simp [M.pure] at h1 h2
  obtain ⟨rfl, rfl⟩ := h1; obtain ⟨rfl, rfl⟩ := h2
  exact ⟨h, hs⟩

theorem Obl.raise_left {α} {ra : α → α → Prop} (e : Err) (m : M α) : Obl ra (raise e) m := by
  intro s1 s2 x1 x2 t1 t2 _ h1 _; simp [raise] at h1
theorem Obl.raise_right {α} {ra : α → α → Prop} (e : Err) (m : M α) : Obl ra m (raise e) := by
  intro s1 s2 x1 x2 t1 t2 _ _ h2; simp [raise] at h2

def shapeEq (s1 s2 : St) : Prop := s1.shape = s2.shape

theorem getSt_obl : Obl shapeEq getSt getSt := by
  intro s1 s2 x1 x2 t1 t2 hs h1 h2
  simp [getSt] at h1 h2
  obtain ⟨rfl, rfl⟩ := h1; obtain ⟨rfl, rfl⟩ := h2
  exact ⟨hs, hs⟩

theorem lcEq_add {a1 a2 b1 b2 : LinComb} (ha : lcEq a1 a2) (hb : lcEq b1 b2) : lcEq (a1.add b1) (a2.add b2) := by
  simp [lcEq, LinComb.add] at *; rw [ha, hb]
theorem lcEq_scale {a1 a2 : LinComb} (c : Int) (ha : lcEq a1 a2) : lcEq (a1.scale c) (a2.scale c) := by
  simp [lcEq, LinComb.scale] at *; rw [ha]
theorem lcEq_sub {a1 a2 b1 b2 : LinComb} (ha : lcEq a1 a2) (hb : lcEq b1 b2) : lcEq (a1.sub b1) (a2.sub b2) := by
  unfold LinComb.sub LinComb.neg; exact lcEq_add ha (lcEq_scale _ hb)
theorem lcEq_refl (a : LinComb) : lcEq a a := rfl

theorem addConstraint_obl (v1 w1 y1 v2 w2 y2 : LinComb) (c1 c2 : Bool)
    (hv : lcEq v1 v2) (hw : lcEq w1 w2) (hy : lcEq y1 y2) :
    Obl (fun _ _ => True) (addConstraint v1 w1 y1 c1) (addConstraint v2 w2 y2 c2) := by
  unfold addConstraint
  apply Obl.bind getSt_obl
  intro s1 s2 hs
  have hg : s1.guard.map (·.lc) = s2.guard.map (·.lc) := by
    have := congrArg Shape.guard hs; simpa [St.shape] using this
  cases h1 : s1.guard with
  | none =>
    cases h2 : s2.guard with
    | none =>
      simp only
      split <;> split
      · exact Obl.raise_left _ _
      · exact Obl.raise_left _ _
      · exact Obl.raise_right _ _
      · exact addConstraintUnsafe_obl _ _ _ _ _ _ hv hw hy
    | some g2 => simp [h1, h2] at hg
  | some g1 =>
    cases h2 : s2.guard with
    | none => simp [h1, h2] at hg
    | some g2 =>
      simp only
      have hgg : lcEq g1 g2 := by simpa [h1, h2, lcEq] using hg
      apply Obl.bind (privVal_obl _ _)
      intro d1 d2 hd
      apply Obl.bind (addConstraintUnsafe_obl _ _ _ _ _ _ hv hw (lcEq_add hy hd))
      intro _ _ _
      exact addConstraintUnsafe_obl _ _ _ _ _ _ hgg hd (lcEq_refl _)

theorem privValBool_obl (v1 v2 : Int) : Obl lcEq (privValBool v1) (privValBool v2) := by
  unfold privValBool
  split <;> split
  · exact Obl.raise_left _ _
  · exact Obl.raise_left _ _
  · exact Obl.raise_right _ _
  · apply Obl.bind (privVal_obl _ _)
    intro x1 x2 hx
    apply Obl.bind (addConstraint_obl _ _ _ _ _ _ _ _ hx (lcEq_sub (lcEq_refl _) hx) (lcEq_refl _))
    intro _ _ _
    exact Obl.pure hx

def listLcEq (a b : List LinComb) : Prop := List.Forall₂ lcEq a b

theorem privBools_obl : ∀ (v1 v2 : List Int), v1.length = v2.length →
    Obl listLcEq (privBools v1) (privBools v2)
  | [], [], _ => by unfold privBools; exact Obl.pure List.Forall₂.nil
  | a :: as, b :: bs, h => by
    unfold privBools
    apply Obl.bind (privValBool_obl a b)
    intro x1 x2 hx
    apply Obl.bind (privBools_obl as bs (by simpa using h))
    intro l1 l2 hl
    exact Obl.pure (List.Forall₂.cons hx hl)
  | [], _ :: _, h => by simp at h
  | _ :: _, [], h => by simp at h

theorem fromBits_lcEq : ∀ (l1 l2 : List LinComb) (i : Nat), listLcEq l1 l2 → lcEq (fromBits l1 i) (fromBits l2 i)
  | [], [], _, _ => rfl
  | a :: as, b :: bs, i, h => by
    cases h with
    | cons hab hrest =>
      unfold fromBits
      exact lcEq_add (lcEq_scale _ hab) (fromBits_lcEq as bs (i+1) hrest)

#print axioms privBools_obl

theorem bitsOf_length (a : Int) (n : Nat) : (bitsOf a n).length = n := by simp [bitsOf]

/-- model style: the value-dependent part is a pure function returning `Except` -/
def cpHint (s : St) (x : LinComb) (n : Nat) : Except Err (Int × List Int) :=
  if isGuard s && bitLength x.value ≤ n then
    .ok ((if x.value ≥ 0 then 1 else 0), bitsOf (if x.value ≥ 0 then x.value else -x.value - 1) n)
  else if s.ignoreErrors then .ok (0, List.replicate n 0)
  else .error .value

def checkPositive' (x : LinComb) (bits? : Option Nat := none) : M LinComb := do
  let s ← getSt
  let n := bits?.getD s.bitlength
  let h ← liftE (cpHint s x n)
  let ret ← privValBool h.1
  let bs ← privBools h.2
  addConstraint (ret.scale 2) x ((x.add (fromBits bs 0)).add ((LinComb.const 1).sub ret))
  pure ret

theorem cpHint_len {s x n h} (e : cpHint s x n = .ok h) : h.2.length = n := by
  unfold cpHint at e
  split at e
  · cases e; simp [bitsOf_length]
  · split at e
    · cases e; simp
    · cases e

def hintRel (n : Nat) (h1 h2 : Int × List Int) : Prop := h1.2.length = n ∧ h2.2.length = n

theorem liftE_hint_obl (s1 s2 : St) (x1 x2 : LinComb) (n : Nat) :
    Obl (hintRel n) (liftE (cpHint s1 x1 n)) (liftE (cpHint s2 x2 n)) := by
  intro u1 u2 a1 a2 t1 t2 hs h1 h2
  unfold liftE at h1 h2
  cases e1 : cpHint s1 x1 n with
  | error e => simp [e1] at h1
  | ok r1 =>
    cases e2 : cpHint s2 x2 n with
    | error e => simp [e2] at h2
    | ok r2 =>
      simp [e1] at h1; simp [e2] at h2
      obtain ⟨rfl, rfl⟩ := h1; obtain ⟨rfl, rfl⟩ := h2
      exact ⟨⟨cpHint_len e1, cpHint_len e2⟩, hs⟩

theorem checkPositive_obl (x1 x2 : LinComb) (b : Option Nat) (hx : lcEq x1 x2) :
    Obl lcEq (checkPositive' x1 b) (checkPositive' x2 b) := by
  unfold checkPositive'
  apply Obl.bind getSt_obl
  intro s1 s2 hs
  have hbl : s1.bitlength = s2.bitlength := by
    have := congrArg Shape.bitlength hs; simpa [St.shape] using this
  simp only [hbl]
  apply Obl.bind (liftE_hint_obl s1 s2 x1 x2 _)
  intro h1 h2 hh
  obtain ⟨hl1, hl2⟩ := hh
  apply Obl.bind (privValBool_obl _ _)
  intro ret1 ret2 hret
  apply Obl.bind (privBools_obl _ _ (by omega))
  intro bs1 bs2 hbs
  apply Obl.bind (addConstraint_obl _ _ _ _ _ _ _ _ (lcEq_scale _ hret) hx
    (lcEq_add (lcEq_add hx (fromBits_lcEq _ _ _ hbs)) (lcEq_sub (lcEq_refl _) hret)))
  intro _ _ _
  exact Obl.pure hret

#print axioms checkPositive_obl
