import PysnarkModel.Core

def canonLC (l : LC) : String :=
  let m := l.foldl (fun (acc : List (Int × Int)) kv =>
    match acc.find? (·.1 == kv.1) with
    | some _ => acc.map (fun x => if x.1 == kv.1 then (x.1, (x.2 + kv.2) % pmod) else x)
    | none => acc ++ [(kv.1, kv.2 % pmod)]) []
  let m := m.filter (·.2 != 0)
  let arr := m.toArray.qsort (fun a b => a.1 < b.1)
  "[" ++ ",".intercalate (arr.toList.map fun kv => s!"{kv.1}:{kv.2}") ++ "]"

def dump (r : Except Err (LinComb × St)) : String :=
  match r with
  | .error e => s!"err {repr e}"
  | .ok (x, s) =>
    let cs := s.cons.map fun c => canonLC c.1 ++ "*" ++ canonLC c.2.1 ++ "=" ++ canonLC c.2.2
    s!"ok {x.value} {canonLC x.lc} W {s.priv} S {cs}"

partial def loop (h : IO.FS.Stream) : IO Unit := do
  let line ← h.getLine
  if line.isEmpty then return ()
  match line.trimAscii.toString.splitOn " " with
  | [op, bl, a, b] =>
    match bl.toNat?, a.toInt?, b.toInt? with
    | some bl, some a, some b =>
      let s0 : St := { bitlength := bl }
      let prog : M LinComb := do
        let x ← privVal a
        let y ← privVal b
        match op with
        | "mul" => x.mul y
        | "lt" => lt x y
        | "eq" => eq x y
        | _ => raise .type
      IO.println (dump (prog s0))
    | _, _, _ => IO.println "bad"
  | _ => IO.println "bad"
  loop h
def main : IO Unit := do loop (← IO.getStdin)
