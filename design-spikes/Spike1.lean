import Mathlib.Data.ZMod.Basic
import Mathlib.Tactic.Ring
import Mathlib.Tactic.LinearCombination
import Mathlib.FieldTheory.Finite.Basic

variable {p : ℕ} [Fact p.Prime]

-- check_zero: x*w = 1 - r, x*r = 0  ⇒ r = if x = 0 then 1 else 0
theorem check_zero_sound (x w r : ZMod p) (h1 : x * w = 1 - r) (h2 : x * r = 0) :
    r = if x = 0 then 1 else 0 := by
  by_cases hx : x = 0
  · subst hx; simp at h1 ⊢; linear_combination h1
  · simp [hx]; exact (mul_eq_zero.mp h2).resolve_left hx

-- Fermat inverse
theorem inv_fermat (x : ZMod p) (hx : x ≠ 0) : x * x ^ (p - 2) = 1 := by
  have hp : 2 ≤ p := (Fact.out : p.Prime).two_le
  have : x ^ (p - 1) = 1 := ZMod.pow_card_sub_one_eq_one hx
  calc x * x ^ (p - 2) = x ^ (p - 2 + 1) := by ring
    _ = x ^ (p - 1) := by congr 1; omega
    _ = 1 := this
#print axioms check_zero_sound
#print axioms inv_fermat
