import Mathlib.Data.ZMod.Basic
import Mathlib.Algebra.Field.ZMod
import Mathlib.Tactic.Ring
import Mathlib.Tactic.LinearCombination
import Mathlib.Tactic.Linarith

variable {p : ℕ} [Fact p.Prime]

/-- recomposition: Σ b_i 2^i, little-endian -/
def fromBits : List (ZMod p) → ZMod p
  | [] => 0
  | b :: bs => b + 2 * fromBits bs

theorem fromBits_nat (bs : List (ZMod p)) (hb : ∀ b ∈ bs, b * (1 - b) = 0) :
    ∃ S : ℕ, S < 2 ^ bs.length ∧ fromBits bs = (S : ZMod p) := by
  induction bs with
  | nil => exact ⟨0, by simp, by simp [fromBits]⟩
  | cons b bs ih =>
    obtain ⟨S, hS, hSe⟩ := ih (fun x hx => hb x (List.mem_cons_of_mem _ hx))
    have hb0 : b = 0 ∨ b = 1 := by
      have := hb b List.mem_cons_self
      rcases mul_eq_zero.mp this with h | h
      · exact Or.inl h
      · right; exact (sub_eq_zero.mp h).symm
    rcases hb0 with h | h
    · exact ⟨2 * S, by simp [pow_succ]; omega, by simp [fromBits, h, hSe]⟩
    · exact ⟨1 + 2 * S, by simp [pow_succ]; omega, by simp [fromBits, h, hSe]⟩

/-- check_positive: 2*r*x = x + Σ + (1 - r), r boolean, bits boolean, 2^(n+1) ≤ p.
    Then r is determined by x: r = 1 ↔ x is the cast of a natural < 2^n. -/
theorem check_positive_sound (n : ℕ) (hp : 2 ^ (n + 1) ≤ p) (x r : ZMod p) (bs : List (ZMod p))
    (hlen : bs.length = n) (hr : r * (1 - r) = 0) (hb : ∀ b ∈ bs, b * (1 - b) = 0)
    (hc : 2 * r * x = x + fromBits bs + (1 - r)) :
    (r = 1 ∧ ∃ S : ℕ, S < 2 ^ n ∧ x = S) ∨ (r = 0 ∧ ∃ S : ℕ, S < 2 ^ n ∧ x = -(S + 1 : ℕ)) := by
  obtain ⟨S, hS, hSe⟩ := fromBits_nat bs hb
  rw [hlen] at hS
  rcases mul_eq_zero.mp hr with h | h
  · right; refine ⟨h, S, hS, ?_⟩
    rw [h, hSe] at hc; push_cast; linear_combination -hc
  · left; have h1 : r = 1 := (sub_eq_zero.mp h).symm
    refine ⟨h1, S, hS, ?_⟩
    rw [h1, hSe] at hc; linear_combination hc

/-- the two cases are exclusive, so r is a function of x -/
theorem check_positive_unique (n : ℕ) (hp : 2 ^ (n + 1) ≤ p) (x : ZMod p) (S T : ℕ)
    (hS : S < 2 ^ n) (hT : T < 2 ^ n) (h1 : x = S) (h2 : x = -(T + 1 : ℕ)) : False := by
  have : ((S + T + 1 : ℕ) : ZMod p) = 0 := by
    push_cast; rw [← h1]; rw [h2]; push_cast; ring
  rw [ZMod.natCast_eq_zero_iff] at this
  have hlt : S + T + 1 < p := by
    have : 2 ^ (n+1) = 2 * 2 ^ n := by ring
    omega
  exact absurd (Nat.le_of_dvd (by omega) this) (by omega)
#print axioms check_positive_sound
#print axioms check_positive_unique
