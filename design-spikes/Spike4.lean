import Mathlib.Tactic.Ring
import Mathlib.Tactic.Linarith

/-- little-endian bits as the model computes them: (v &&& (1<<<i)) >>> i, here v / 2^i % 2 -/
def bitsOf (v n : Nat) : List Nat := (List.range n).map fun i => v / 2 ^ i % 2
def fromBits : List Nat → Nat
  | [] => 0
  | b :: bs => b + 2 * fromBits bs

theorem bitsOf_succ (v n : Nat) : bitsOf v (n+1) = (v % 2) :: bitsOf (v / 2) n := by
  unfold bitsOf
  rw [List.range_succ_eq_map]
  simp [List.map_map, Function.comp_def, pow_succ, Nat.div_div_eq_div_mul, Nat.mul_comm]

theorem fromBits_bitsOf (n : Nat) : ∀ v, v < 2 ^ n → fromBits (bitsOf v n) = v := by
  induction n with
  | zero => intro v h; simp at h; subst h; simp [bitsOf, fromBits]
  | succ n ih =>
    intro v h
    rw [bitsOf_succ, fromBits, ih (v / 2) (by rw [pow_succ] at h; omega)]
    omega

theorem and_bits (n : Nat) : ∀ a b, a < 2 ^ n → b < 2 ^ n →
    fromBits (List.zipWith (· * ·) (bitsOf a n) (bitsOf b n)) = a &&& b := by
  induction n with
  | zero => intro a b ha hb; simp at ha hb; subst ha hb; simp [bitsOf, fromBits]
  | succ n ih =>
    intro a b ha hb
    rw [bitsOf_succ, bitsOf_succ, List.zipWith_cons_cons, fromBits,
        ih (a/2) (b/2) (by rw [pow_succ] at ha; omega) (by rw [pow_succ] at hb; omega)]
    have h1 : (a &&& b) % 2 = (a % 2) * (b % 2) := by
      rw [Nat.and_mod_two_pow (n := 1)] <;> simp
      rcases Nat.mod_two_eq_zero_or_one a with h | h <;> rcases Nat.mod_two_eq_zero_or_one b with h' | h' <;> simp [h, h']
    have h2 : (a &&& b) / 2 = (a / 2) &&& (b / 2) := Nat.and_div_two
    omega

#print axioms and_bits
