/-! Spike 2: tracer core with guard, import-free -/
abbrev LC := List (Int × Int)

def LC.get? (l : LC) (k : Int) : Option Int := (l.find? (·.1 == k)).map (·.2)
def LC.add (a b : LC) : LC :=
  a.map (fun kv => match LC.get? b kv.1 with | some w => (kv.1, kv.2 + w) | none => kv)
  ++ b.filter (fun kv => (LC.get? a kv.1).isNone)
def LC.scale (a : LC) (c : Int) : LC := a.map (fun kv => (kv.1, kv.2 * c))
def LC.eval (w : Int → Int) (a : LC) : Int := (a.map (fun kv => kv.2 * w kv.1)).sum

structure LinComb where
  value : Int
  lc : LC
deriving Repr, BEq

namespace LinComb
def add (a b : LinComb) : LinComb := ⟨a.value + b.value, a.lc.add b.lc⟩
def scale (a : LinComb) (c : Int) : LinComb := ⟨a.value * c, a.lc.scale c⟩
def neg (a : LinComb) : LinComb := a.scale (-1)
def sub (a b : LinComb) : LinComb := a.add b.neg
def const (c : Int) : LinComb := ⟨c, [(0, c)]⟩     -- ConstVal: backend.one()*c
def zero : LinComb := ⟨0, []⟩
end LinComb

inductive Err | assertion | value | zerodiv | type | runtime deriving Repr, DecidableEq

structure St where
  pub : List Int := []
  priv : List Int := []
  cons : List (LC × LC × LC) := []
  guard : Option LinComb := none
  ignoreErrors : Bool := false
  one : LinComb := LinComb.const 1
  bitlength : Nat := 16
deriving Repr

abbrev M (α : Type) := St → Except Err (α × St)
@[inline] def M.pure (a : α) : M α := fun s => .ok (a, s)
@[inline] def M.bind (m : M α) (f : α → M β) : M β := fun s =>
  match m s with | .ok (a, s') => f a s' | .error e => .error e
instance : Monad M where pure := M.pure; bind := M.bind
def raise (e : Err) : M α := fun _ => .error e
def getSt : M St := fun s => .ok (s, s)

def privVal (v : Int) : M LinComb := fun s =>
  .ok (⟨v, [(-(s.priv.length + 1 : Int), 1)]⟩, { s with priv := s.priv ++ [v] })

def addConstraintUnsafe (a b c : LinComb) : M Unit := fun s =>
  .ok ((), { s with cons := s.cons ++ [(a.lc, b.lc, c.lc)] })

def isGuard (s : St) : Bool := match s.guard with | none => true | some g => g.value == 1

def addConstraint (v w y : LinComb) (check : Bool := true) : M Unit := do
  let s ← getSt
  match s.guard with
  | some g =>
    let dummy ← privVal (v.value * w.value - y.value)
    addConstraintUnsafe v w (y.add dummy)
    addConstraintUnsafe g dummy LinComb.zero
  | none =>
    if v.value * w.value != y.value && check && !s.ignoreErrors then raise .assertion
    else addConstraintUnsafe v w y

def privValBool (v : Int) : M LinComb := do
  if v != 0 && v != 1 then raise .value else
  let x ← privVal v
  addConstraint x ((LinComb.const 1).sub x) LinComb.zero   -- 1 - lc  (approx of dispatch)
  pure x

def privBools : List Int → M (List LinComb)
  | [] => pure []
  | v :: vs => do let b ← privValBool v; let bs ← privBools vs; pure (b :: bs)

def fromBits : List LinComb → Nat → LinComb
  | [], _ => LinComb.zero
  | b :: bs, i => (b.scale (2 ^ i)).add (fromBits bs (i+1))   -- approx of sum([...])

def bitLength (v : Int) : Nat := if v = 0 then 0 else v.natAbs.log2 + 1
def bitsOf (a : Int) (n : Nat) : List Int := (List.range n).map fun i => (a >>> i) % 2

def checkPositive (x : LinComb) (bits? : Option Nat := none) : M LinComb := do
  let s ← getSt
  let n := bits?.getD s.bitlength
  let (retv, bitvs) ←
    if isGuard s && bitLength x.value ≤ n then
      pure (f := M) ((if x.value ≥ 0 then 1 else 0 : Int), bitsOf (if x.value ≥ 0 then x.value else -x.value - 1) n)
    else if s.ignoreErrors then pure ((0 : Int), List.replicate n (0 : Int))
    else raise .value
  let ret ← privValBool retv
  let bs ← privBools bitvs
  addConstraint (ret.scale 2) x ((x.add (fromBits bs 0)).add ((LinComb.const 1).sub ret))
  pure ret

-- vertical-slice additions
def invMod (x p : Int) : Except Err Int :=
  -- gmpy fallback: pow(x, p-2, p), ZeroDivisionError if result is 0
  let rec go (fuel : Nat) (b e acc : Int) : Int :=
    match fuel with
    | 0 => acc
    | f+1 => if e == 0 then acc else go f (b * b % p) (e / 2) (if e % 2 == 1 then acc * b % p else acc)
  let y := go 300 (x % p) (p - 2) 1
  if y == 0 then .error .zerodiv else .ok y

def liftE (e : Except Err α) : M α := fun s => match e with | .ok a => .ok (a, s) | .error x => .error x

def pmod : Int := 21888242871839275222246405745257275088548364400416034343698204186575808495617

def LinComb.mul (a b : LinComb) : M LinComb := do
  let r ← privVal (a.value * b.value)
  addConstraintUnsafe a b r
  pure r

def checkZero (x : LinComb) : M LinComb := do
  let ret ← privVal (if x.value == 0 then 1 else 0)
  let w ← liftE (invMod (x.value + (if x.value == 0 then 1 else 0)) pmod)
  let wit ← privVal w
  addConstraintUnsafe x wit ((LinComb.const 1).sub ret)   -- ONE_SAFE - ret
  addConstraintUnsafe x ret LinComb.zero
  pure ret

-- other - self - 1 : self + (-other) ... follow the code: (other-self-1) = (other + (-self)) + (-(ConstVal 1))
def LinComb.subc (a : LinComb) (c : Int) : LinComb := a.add (LinComb.const c).neg
def lt (a b : LinComb) : M LinComb := checkPositive ((b.sub a).subc 1)
def eq (a b : LinComb) : M LinComb := checkZero (a.sub b)
