"""C09-boolean-demoted (replay; REPAIRED by a fix: commit in if_then_else — on the repaired tree this script prints LinCombBool twice
and `second block ran, y = 6`).  Before the repair a tracked LinCombBool that lived through ANY block came out of the merge at the
block exit as a plain LinComb (BranchingValues.backup() deep-copies it into a NEW LinCombBool, so `if_then_else` does not take its
identity shortcut and returned `copy + cond*(b - copy)`); using it as a block condition afterwards raised RuntimeError.
Native twin: `b = (x == 1); if c: y += 1; if b: y += 1` runs.   Run from a scratch directory:  /venv/bin/python c09_boolean_demoted.py"""
import os
os.environ.setdefault("PYSNARK_BACKEND", "nobackend")
from pysnark.runtime import PrivVal
from pysnark.branching import BranchingValues, _if, _endif

_ = BranchingValues()
_.b = (PrivVal(1) == 1)
_.y = PrivVal(5)
print("before the block:", type(_.b).__name__)
if _if(PrivVal(0) == 1, ctx=_):
    _.y = _.y + 1
_endif(ctx=_)
print("after a block that does not touch b:", type(_.b).__name__, "value", _.b.val())
try:
    if _if(_.b, ctx=_):
        _.y = _.y + 1
    _endif(ctx=_)
    print("second block ran, y =", _.y.value, "(native: 6)")
except Exception as e:
    print("second block:", type(e).__name__, e, " (native twin: y == 6)")
    _.stack.clear()
