"""C09-list-length-truncated (replay).  `if_then_else` merges lists with zip(): when a block rebinds a tracked list to a list of
another length, the merge silently keeps min(len) elements, whichever way the condition goes.  Native twin: `if c: l = [7, 8, 9]`
gives [7, 8, 9] for c == 1.  (The model stops with UNMODELLED on such a merge; the generators keep list lengths fixed.)"""
import os
os.environ.setdefault("PYSNARK_BACKEND", "nobackend")
from pysnark.runtime import PrivVal
from pysnark.branching import BranchingValues, _if, _endif

for c in (1, 0):
    _ = BranchingValues()
    _.l = [PrivVal(1), PrivVal(2)]
    if _if(PrivVal(c) == 1, ctx=_):
        _.l = [PrivVal(7), PrivVal(8), PrivVal(9)]
    _endif(ctx=_)
    print(f"c={c}: oblivious", [x.value for x in _.l], " native", [7, 8, 9] if c else [1, 2])
