"""C09-list-length-truncated (replay; REPAIRED).  `if_then_else` merged lists with zip(): when a block rebinds a tracked list to a
list of another length, the merge silently kept min(len) elements, whichever way the condition goes.  Native twin:
`if c: l = [7, 8, 9]` gives [7, 8, 9] for c == 1.  After the repair `if_then_else` compares the two lengths first and raises
ValueError (a refusal: rebinding to another length can not be expressed by an element-wise selection); the model raises
`Err.value` at the same point (C09_length_mismatch_refused, C09_length_mismatch_regression).
Exit status 0: refused both ways (repaired tree); 1: a run completed (the pinned tree: truncation)."""
import os, sys
os.environ.setdefault("PYSNARK_BACKEND", "nobackend")
import pysnark.runtime as R
from pysnark.runtime import PrivVal
from pysnark.branching import BranchingValues, _if, _endif

completed = 0
for c in (1, 0):
    _ = BranchingValues()
    _.l = [PrivVal(1), PrivVal(2)]
    try:
        if _if(PrivVal(c) == 1, ctx=_):
            _.l = [PrivVal(7), PrivVal(8), PrivVal(9)]
        _endif(ctx=_)
        completed += 1
        print(f"c={c}: oblivious", [x.value for x in _.l], " native", [7, 8, 9] if c else [1, 2], " <- merged, not refused")
    except ValueError as e:
        print(f"c={c}: refused with ValueError({e})  native", [7, 8, 9] if c else [1, 2])
    _.stack.clear(); R.guard = None
R.autoprove = False
sys.exit(1 if completed else 0)
