import sympy, sys
done = {}
HINTS=[198211423230930754013084525763697, 276602624281642239937218680557139826668747]
out = []
def cert(n):
    if n in done: return
    done[n] = True
    if n < 100000:
        out.append(f"theorem prime_{n} : Nat.Prime {n} := by norm_num")
        return
    m = n-1; f = {}
    for h in HINTS:
        while m % h == 0: m//=h; f[h]=f.get(h,0)+1
    for q,e in sympy.factorint(m).items(): f[q]=f.get(q,0)+e
    for q in f: cert(q)
    # find witness
    a = 2
    while True:
        if pow(a, n-1, n) == 1 and all(pow(a, (n-1)//q, n) != 1 for q in f): break
        a += 1
    fs = ", ".join(f"({q}, {e})" for q,e in sorted(f.items()))
    mem = " <;> ".join([])  # unused
    prim = "\n      ".join(f"· exact prime_{q}" for q in sorted(f))
    out.append(f"""theorem prime_{n} : Nat.Prime {n} :=
  pratt {n} {a} [{fs}] (by norm_num) (by decide +kernel)
    (by
      intro qe h
      simp only [List.mem_cons, List.not_mem_nil, or_false] at h
      rcases h with {' | '.join(['rfl']*len(f))}
      {prim})
    (by decide +kernel) (by decide +kernel)""")
for n in map(int, sys.argv[1:]): cert(n)
print("\n".join(out))
