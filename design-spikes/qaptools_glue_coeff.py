import pysnark.qaptools.backend as qb
from pysnark.qaptools.backend import subqap
from pysnark.runtime import PrivVal
@subqap("square")
def square(v): return v*v
x=PrivVal(3)
y=square(2*x)
print(y)
