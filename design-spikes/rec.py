import os, sys
os.environ.pop("PYSNARK_BACKEND", None)
import pysnark.snarkjsbackend as B
import pysnark.runtime as R
R.autoprove=False
from pysnark.runtime import PrivVal, PubVal, LinComb, ConstVal
from pysnark.boolean import PrivValBool, LinCombBool
from pysnark.fixedpoint import PrivValFxp, LinCombFxp
from pysnark.branching import if_then_else
import pysnark.branching as br
P=B.snarkjsp
def reset():
    B.privvals.clear(); B.pubvals.clear(); B.constraints.clear()
    R.guard=None; R._ignore_errors=False; LinComb.ONE=LinComb.ONE_SAFE
def ev(lc):
    s=0
    for k,v in lc.lc.items():
        x = 1 if k==0 else (B.pubvals[k-1] if k>0 else B.privvals[-k-1])
        s+=v*x
    return s%P
def unsat():
    return [i for i,(a,b,c) in enumerate(B.constraints) if (ev(a)*ev(b)-ev(c))%P!=0]
def coh(x):
    if isinstance(x,(LinCombBool,LinCombFxp)): x=x.lc
    return (x.value-ev(x.lc))%P==0
