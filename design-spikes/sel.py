import subprocess, os
def run(pre, env):
    code = "".join(f"import {m}\n" for m in pre) + "import pysnark.runtime as R\nR.autoprove=False\nprint('RESULT', R.backend_name, R.backend.__name__, R.backend.get_modulus()%1000)\n"
    e = dict(os.environ); e.pop("PYSNARK_BACKEND",None); e.update(env)
    r = subprocess.run(["/venv/bin/python","-c",code],capture_output=True,text=True,env=e,cwd="/tmp/scratch/ax")
    out=[l for l in r.stdout.splitlines()]
    print(pre, env, "rc",r.returncode, out, (r.stderr.strip().splitlines() or [""])[-1][:100])
run([],{})
run([],{"PYSNARK_BACKEND":"nobackend"})
run([],{"PYSNARK_BACKEND":"bogus"})
run([],{"PYSNARK_BACKEND":"libsnark"})
run([],{"PYSNARK_BACKEND":"zkinterface"})
run([],{"PYSNARK_BACKEND":"qaptools"})
run([],{"PYSNARK_BACKEND":"qaptools","QAPTOOLS_BIN":"/tmp/scratch/qt/bin"})
run(["pysnark.nobackend"],{"PYSNARK_BACKEND":"snarkjs"})
run(["pysnark.nobackend","pysnark.snarkjsbackend"],{})
run(["pysnark.qaptools.backend"],{"QAPTOOLS_BIN":"/tmp/scratch/qt/bin"})
