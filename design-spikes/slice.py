import random, subprocess, sys
from rec import *
def canon(lc):
    d={}
    for k,v in lc.lc.items(): d[k]=(d.get(k,0)+v)%P
    return "["+",".join(f"{k}:{v}" for k,v in sorted(d.items()) if v!=0)+"]"
ERR={"AssertionError":"Err.assertion","ValueError":"Err.value","ZeroDivisionError":"Err.zerodiv","TypeError":"Err.type","RuntimeError":"Err.runtime"}
def run(op,bl,a,b):
    reset(); R.bitlength=bl
    try:
        x=PrivVal(a); y=PrivVal(b)
        r = x*y if op=="mul" else (x<y) if op=="lt" else (x==y)
        if isinstance(r,LinCombBool): r=r.lc
        cs=[canon(c[0])+"*"+canon(c[1])+"="+canon(c[2]) for c in B.constraints]
        return f"ok {r.value} {canon(r.lc)} W [{', '.join(map(str,B.privvals))}] S [{', '.join(cs)}]"
    except Exception as e:
        return "err "+ERR.get(type(e).__name__, type(e).__name__)
rnd=random.Random(int(sys.argv[1]) if len(sys.argv)>1 else 1)
cases=[]
for i in range(3000):
    op=rnd.choice(["mul","lt","eq"]); bl=rnd.choice([1,2,3,4,8,16,32])
    def val():
        c=rnd.random()
        if c<0.2: return rnd.choice([0,1,-1,2**(bl-1),-2**(bl-1),2**bl,2**bl-1,-2**bl,P,P-1,2*P])
        if c<0.8: return rnd.randrange(-2**bl,2**bl)
        return rnd.randrange(-2**260,2**260)
    a=val(); b=a if rnd.random()<0.15 else val()
    cases.append((op,bl,a,b))
inp="".join(f"{op} {bl} {a} {b}\n" for op,bl,a,b in cases)
out=subprocess.run(["lake","env","lean","--run","Main.lean"],cwd="/tmp/scratch/lproj/PysnarkModel",input=inp,capture_output=True,text=True)
ml=out.stdout.splitlines()
print("model lines",len(ml), out.stderr[:300])
bad=0; errs=0
for c,m in zip(cases,ml):
    i=run(*c)
    if i.startswith("err"): errs+=1
    if i!=m:
        bad+=1
        if bad<4: print("DIFF",c,"\n impl:",i[:300],"\n model:",m[:300])
print("cases",len(cases),"disagreements",bad,"errors",errs)
