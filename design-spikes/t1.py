from rec import *
# 1. negative rshift
reset(); x=PrivVal(5)
print("5>>-1 ->", (x>>-1).value)
# int / ignore errors
reset(); R.ignore_errors(True); y=PrivVal(7)/2; print("7/2 ignore:", y.value, coh(y), unsat())
R.ignore_errors(False)
# and with int
reset(); z=PrivVal(6)&3; print("6&3", z.value, len(B.constraints))
# guarded
reset()
c=PrivValBool(0)
try:
    r=if_then_else(c, lambda: PrivVal(3)/PrivVal(2), lambda: PrivVal(9))
    print("ite lambda:", r)
except Exception as e: print("ite lambda EXC", type(e), e)
reset()
c=PrivValBool(1)
try:
    r=if_then_else(c, lambda: PrivVal(4)/PrivVal(2), lambda: PrivVal(9))
    print("ite lambda:", r)
except Exception as e: print("ite lambda EXC", type(e), e)
