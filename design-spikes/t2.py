from rec import *
from pysnark.runtime import guarded, add_guard, restore_guard
def tr(name, f):
    try:
        r=f(); print(name, "->", r, "unsat", unsat(), "ncons", len(B.constraints), "state", R.guard, R._ignore_errors, LinComb.ONE is LinComb.ONE_SAFE)
    except Exception as e:
        print(name, "EXC", type(e).__name__, e, "state", R.guard, R._ignore_errors, LinComb.ONE is LinComb.ONE_SAFE)
# guards with raw LinComb
reset(); g=PrivVal(0); tr("g0 div inexact", lambda: guarded(g)(lambda: PrivVal(7)/PrivVal(2))())
reset(); g=PrivVal(0); tr("g0 div zero", lambda: guarded(g)(lambda: PrivVal(7)/PrivVal(0))())
reset(); g=PrivVal(0); tr("g0 assert_lt", lambda: guarded(g)(lambda: PrivVal(7).assert_lt(3))())
reset(); g=PrivVal(0); tr("g0 lt big", lambda: guarded(g)(lambda: PrivVal(1<<20) < 3)())
reset(); g=PrivVal(0); tr("g0 PrivValBool(2)", lambda: guarded(g)(lambda: PrivValBool(2))())
reset(); g=PrivVal(0); tr("g0 LinCombBool(PrivVal 2)", lambda: guarded(g)(lambda: LinCombBool(PrivVal(2)))())
reset(); g=PrivVal(0); tr("g0 to_bits(-1)", lambda: guarded(g)(lambda: PrivVal(-1).to_bits())())
reset(); g=PrivVal(0); tr("g0 floordiv", lambda: guarded(g)(lambda: PrivVal(7)//PrivVal(-2))())
reset(); g=PrivVal(0); tr("g0 assert_nonzero", lambda: guarded(g)(lambda: PrivVal(0).assert_nonzero())())
reset(); g=PrivVal(0); tr("g0 assert_eq", lambda: guarded(g)(lambda: PrivVal(0).assert_eq(5))())
reset(); g=PrivVal(1); tr("g1 div", lambda: guarded(g)(lambda: PrivVal(6)/PrivVal(2))())
reset(); g=PrivVal(1); tr("g1 div inexact", lambda: guarded(g)(lambda: PrivVal(7)/PrivVal(2))())
reset(); g=PrivVal(1); tr("g1 assert_eq 3==3", lambda: guarded(g)(lambda: PrivVal(3).assert_eq(3))())
reset(); g=PrivVal(1); tr("g1 lt", lambda: guarded(g)(lambda: PrivVal(2)<PrivVal(3))())
# nested
reset(); g=PrivVal(1); h=PrivVal(0)
tr("nested 1,0", lambda: guarded(g)(lambda: guarded(h)(lambda: (R.guard.value, R._ignore_errors))())())
reset(); g=PrivVal(2); tr("g=2", lambda: guarded(g)(lambda: 1)())
reset(); tr("g int 0", lambda: guarded(0)(lambda: 1)())
reset(); tr("g int 1", lambda: guarded(1)(lambda: 1)())
# constants under guard
reset(); g=PrivVal(0); tr("g0 x+1", lambda: guarded(g)(lambda: (PrivVal(3)+1).value)())
reset(); g=PrivVal(0); tr("g0 assert_eq(3,3)", lambda: guarded(g)(lambda: PrivVal(3).assert_eq(3))())
reset(); g=PrivVal(0); tr("g0 x**0", lambda: guarded(g)(lambda: (PrivVal(3)**0).value)())
reset(); g=PrivVal(0); tr("g0 x==3", lambda: guarded(g)(lambda: (PrivVal(3)==3))())
