from rec import *
from pysnark.branching import BranchingValues, _if, _elif, _else, _endif, _while, _endwhile, _breakif, _range, _endfor
def tr(name, f):
    try:
        r=f(); print(name, "->", r, "unsat", unsat(), "ncons", len(B.constraints))
    except Exception as e:
        import traceback
        print(name, "EXC", type(e).__name__, e, "guard", R.guard); #traceback.print_exc()
def p1(c):
    _=BranchingValues(); _.x=PrivVal(5)
    if _if(c): _.x=_.x+1
    _endif()
    return _.x
for c in [lambda:PrivValBool(1), lambda:PrivVal(1), lambda: PrivVal(3)<PrivVal(4), lambda:1, lambda:0]:
    reset(); tr("if "+str(c()), lambda: p1(c()))
def p2(c):
    _=BranchingValues(); _.x=PrivVal(5)
    if _if(c): _.x=_.x+1
    if _else(): _.x=_.x+2
    _endif()
    return _.x
for c in [lambda:PrivValBool(1), lambda:PrivVal(1), lambda:1]:
    reset(); tr("ifelse "+str(c()), lambda: p2(c()))
reset()
