from rec import *
from pysnark.pack import *
from pysnark.array import Array
from pysnark.runtime import snark
def tr(name, f):
    try:
        r=f(); print(name, "->", r, "unsat", unsat(), "ncons", len(B.constraints), "npub", len(B.pubvals))
    except Exception as e:
        print(name, "EXC", type(e).__name__, e)
reset(); tr("PackBool.pack(PrivValBool)", lambda: PackBool().pack(PrivValBool(1)))
reset(); tr("PackBool.pack(PrivVal)", lambda: PackBool().pack(PrivVal(1)))
reset(); pk=PackIntMod(5); tr("PackIntMod pack LinComb 4", lambda: pk.pack(PrivVal(4)))
reset(); tr("PackIntMod pack LinComb 7 (>=mod, fits 3 bits)", lambda: pk.pack(PrivVal(7)))
reset(); bits=pk.pack(PrivVal(7)); tr("unpack secret bits of 7 mod5", lambda: pk.unpack(bits,0))
reset(); bits=[b.lc for b in pk.pack(PrivVal(7))]; tr("unpack raw lc bits of 7 mod5", lambda: pk.unpack(bits,0))
reset(); tr("pack plain 5 mod 5", lambda: pk.pack(5))
reset(); pl=PackList([PackBool(),PackIntMod(6),PackRepeat(PackIntMod(3),2)]); v=[1,5,[2,0]]; b=pl.pack(v); print(b, pl.unpack(b,0), pl.bitlen())
# assert_positive width
reset(); R.bitlength=16; tr("assert_positive(bits=4) on 20", lambda: PrivVal(20).assert_positive(4))
reset(); tr("assert_positive(bits=20) on 100000", lambda: PrivVal(100000).assert_positive(20))
reset(); tr("assert_positive(bits=4) on 9", lambda: PrivVal(9).assert_positive(4))
# array
reset(); a=Array([PrivVal(10),PrivVal(20),30]); tr("a[PrivVal(1)]", lambda: a[PrivVal(1)])
reset(); a=Array([PrivVal(10),PrivVal(20),30]); tr("a[PrivVal(3)]", lambda: a[PrivVal(3)])
reset(); a=Array([PrivVal(10),PrivVal(20),30]); 
def st(): a[PrivVal(2)]=PrivVal(7); return a
tr("a[2]=7", st)
reset(); m=Array([Array([1,2]),Array([PrivVal(3),4])]); tr("m[i,j]", lambda: m[PrivVal(1),PrivVal(0)])
def st2(): m[PrivVal(0),PrivVal(1)]=9; return m
reset(); m=Array([Array([1,2]),Array([PrivVal(3),4])]); tr("m[0,1]=9", st2)
# snark
reset(); f=snark(lambda x,y: (x*y, [x+1, {"k": y}], 5, 2.5)); tr("snark", lambda: f(3,[4]) if False else f(3,4)); print(B.pubvals)
reset(); f=snark(lambda x: x); tr("snark bool", lambda: f(True)); print(B.pubvals)
reset(); f=snark(lambda x: x*2); tr("snark float", lambda: f(1.5)); print(B.pubvals)
reset(); tr("snark kw", lambda: snark(lambda x: x)(x=1))
