from rec import *
from pysnark.runtime import snark
reset(); f=snark(lambda a,b: (a*2, b*3)); print(f(1.5, 2), B.pubvals)
reset(); f=snark(lambda a,b: (a, b)); print(f(PrivValFxp(1.0), PrivVal(7)), B.pubvals)
reset(); f=snark(lambda a: a); print(f(PrivValBool(1)), B.pubvals, len(B.constraints))
