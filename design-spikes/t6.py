from rec import *
R.bitlength=4
reset()
x=PrivVal(7); d=2
n0=len(B.privvals)
q=x//d
print("honest q", q.value, "ncons", len(B.constraints), "unsat", unsat())
names=list(B.privvals)
# wires introduced: index n0.. : quo, res(quo*divisor), rem, then assert_lt bits (4) for (d-rem-1), then assert_positive bits(4) for rem
print("aux wires", B.privvals[n0:])
alt=list(B.privvals)
inv2=B.fieldinverse(2)
quo=7*inv2%P; rem=0
alt[n0]=quo; alt[n0+1]=quo*2%P; alt[n0+2]=rem
# d-rem-1 = 1 -> bits 1,0,0,0 ; rem=0 -> bits 0000
alt[n0+3:n0+7]=[1,0,0,0]; alt[n0+7:n0+11]=[0,0,0,0]
hon=list(B.privvals)
B.privvals[:]=alt
print("alt witness unsat:", unsat(), "alt quotient", ev(q.lc)==quo, quo)
B.privvals[:]=hon
# bitwise const
reset(); y=PrivVal(6); n0=len(B.privvals); z=y&3; print("and const: ncons", len(B.constraints), "aux", B.privvals[n0:])
