import sys
from rec import *
print(R.__file__)
from pysnark.branching import BranchingValues, _if, _elif, _else, _endif, _while, _endwhile, _breakif, _range, _endfor
def tr(name, f):
    try:
        r=f(); print(name, "->", r, "unsat", unsat(), "ncons", len(B.constraints), "guard", R.guard)
    except Exception as e:
        import traceback
        print(name, "EXC", type(e).__name__, e, "guard", R.guard); traceback.print_exc(limit=3)
def p2(cv):
    _=BranchingValues(); _.x=PrivVal(5); _.y=10
    c=PrivVal(cv)==1
    if _if(c,ctx=_): _.x=_.x+1; _.z=PrivVal(3)/PrivVal(3 if cv else 2)
    if _else(ctx=_): _.x=_.x+2; _.z=PrivVal(8)
    _endif(ctx=_)
    return dict(_.vals)
for cv in (0,1):
    reset(); tr(f"ifelse c={cv}", lambda: p2(cv))
def p3(a,b):
    _=BranchingValues(); _.r=0
    x=PrivVal(a)
    if _if(x<3,ctx=_): _.r=1
    if _elif(lambda: x<6,ctx=_): _.r=2
    if _elif(lambda: x<9,ctx=_): _.r=3
    if _else(ctx=_): _.r=4
    _endif(ctx=_)
    return _.r
for a in (1,4,7,10):
    reset(); tr(f"elif a={a}", lambda: p3(a,0))
def p4(n):
    _=BranchingValues(); _.s=0
    k=PrivVal(n)
    for i in _range(k, max=5, ctx=_):
        _.s=_.s+i
    _endfor(ctx=_)
    return _.s
for n in (0,1,3,5):
    reset(); tr(f"for n={n}", lambda: p4(n))
def p5(n):
    _=BranchingValues(); _.w=0
    done=0
    while _while(done!=PrivVal(n),ctx=_) and done!=6:
        _.w=_.w+2
        done+=1
        _breakif(PrivVal(done)==4,ctx=_)
    _endwhile(ctx=_)
    return _.w
for n in (0,2,5):
    reset(); tr(f"while n={n}", lambda: p5(n))
from pysnark.branching import if_then_else
for cv in (0,1):
    reset(); c=PrivValBool(cv); tr(f"ite thunks c={cv}", lambda: if_then_else(c, lambda: PrivVal(6)/PrivVal(3 if cv else 4), lambda: PrivVal(9)/PrivVal(4 if cv else 3)))
