"""Two-dimensional array histories (C15): normal form of the operations and their rendering as a model line
`A2|id|cfg|sec=…;init=…|ev;ev;…` (lean/PysnarkModel/Driver/ProtoArray2D.lean).  Shared by harness/props/c15.py and
harness/worker_array2d.py (which executes the JSON form of the same history against the real pysnark)."""
import json

BN128 = 21888242871839275222246405745257275088548364400416034343698204186575808495617


def norm(op):
    """histories written before index objects were introduced: (secret?, i) pairs"""
    k = op[0]
    sp = lambda s, i: ["s", i] if s else ["p", i]
    if k == "row" and isinstance(op[2], bool): return ["row", op[1], sp(op[2], op[3])]
    if k == "set1" and isinstance(op[2], bool): return ["set1", op[1], sp(op[2], op[3]), op[4]]
    if k == "set2" and isinstance(op[1], bool): return ["set2", sp(op[1], op[2]), sp(op[3], op[4]), op[5]]
    if k == "setrow" and isinstance(op[1], bool): return ["setrow", sp(op[1], op[2]), op[3]]
    if k == "get2" and isinstance(op[2], bool): return ["get2", op[1], sp(op[2], op[3]), sp(op[4], op[5])]
    return op


class Unmodelled(Exception):
    """the history uses something the model's event language does not have"""


class Names:
    def __init__(self):
        self.vars = {}; self.idx = {}

    def var(self, name, define=False):
        if name not in self.vars:
            if not define: raise Unmodelled(f"variable {name} read before it is bound")
            self.vars[name] = len(self.vars)
        return self.vars[name]

    def ix(self, name, define=False):
        if name not in self.idx:
            if not define: raise Unmodelled(f"index object {name} used before it is created")
            self.idx[name] = len(self.idx)
        return self.idx[name]


def encode(h, hid, p=BN128, bl=8):
    """-> (model line, {model variable number: history variable name})"""
    nm = Names()

    def sp(s):
        if s[0] in ("p", "s"):
            if not isinstance(s[1], int) or isinstance(s[1], bool): raise Unmodelled(f"index {s}")
            return f"{s[0]}:{s[1]}"
        if s[0] == "n": return f"n:{nm.ix(s[1])}"
        raise Unmodelled(f"index {s}")

    evs = []
    for op in h["ops"]:
        op = norm(op); k = op[0]
        if k == "idx": evs.append(f"idx {nm.ix(op[1], True)} {1 if op[2] else 0} {int(op[3])}")
        elif k == "row":
            r = sp(op[2]); evs.append(f"row {nm.var(op[1], True)} {r}")
        elif k == "copy":
            s = nm.var(op[2]); evs.append(f"copy {nm.var(op[1], True)} {s}")
        elif k == "rowget":
            s = nm.var(op[2]); c = sp(op[3]); evs.append(f"rowget {nm.var(op[1], True)} {s} {c}")
        elif k in ("get2", "getrc"):
            r = sp(op[2]); c = sp(op[3]); evs.append(f"{k} {nm.var(op[1], True)} {r} {c}")
        elif k == "bget":
            r = sp(op[3]); c = sp(op[4]); evs.append(f"bget {nm.var(op[1], True)} {int(op[2])} {r} {c}")
        elif k == "set1": evs.append(f"set1 {nm.var(op[1])} {sp(op[2])} {int(op[3])}")
        elif k == "setchain": evs.append(f"setchain {int(op[1])} {sp(op[2])} {int(op[3])}")
        elif k == "set2": evs.append(f"set2 {sp(op[1])} {sp(op[2])} {int(op[3])}")
        elif k == "setrow": evs.append(f"setrow {sp(op[1])} {nm.var(op[2])}")
        elif k == "gather":
            if not op[1]: raise Unmodelled("empty gather")
            evs.append("gather " + ",".join(sp(s) for s in op[1]))
        elif k == "newrow":
            evs.append(f"newrow {nm.var(op[1], True)} " + (",".join(str(int(x)) for x in op[2]) or "e"))
        else: raise Unmodelled(f"operation {k}")
    # a matrix without rows is `-`, a row without elements `e` (every index is outside an empty dimension)
    init = "/".join(",".join(str(int(v)) for v in r) or "e" for r in h["init"]) or "-"
    line = f"A2|{hid}|p={p},bl={bl},res=8,ign={1 if h.get('ign') else 0}|sec={1 if h['secret'] else 0};init={init}|" + ";".join(evs)
    return line, {f"v{n}": name for name, n in nm.vars.items()}


def decode(reply):
    """model reply -> dict(status, at, trace, vars, mlc, state)"""
    f = reply.split("|")
    if len(f) < 7 or not f[3].startswith("T="):
        return {"bad": reply[:300]}
    return {"status": f[1], "at": None if f[2] == "-" else int(f[2]) if f[2].isdigit() else f[2],
            "trace": json.loads(f[3][2:]), "vars": json.loads(f[4][2:]), "lcs": f[5][2:], "state": "|".join(f[6:])}
