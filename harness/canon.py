"""Canonical text form of pysnark objects; mirrors lean/PysnarkModel/Driver/Proto.lean."""
from fractions import Fraction


def wire_str(k):
    return "1" if k == 0 else (f"x{k}" if k > 0 else f"w{-k}")


def wire_ord(k):
    return (0, 0) if k == 0 else ((1, k) if k > 0 else (2, -k))


def sym(c, p):
    r = c % p
    return r - p if 2 * r > p else r


def canon_lc(lc, p):
    """lc: backend LinearCombination with dict .lc {key: coeff}"""
    d = {}
    for k, v in lc.lc.items():
        d[k] = d.get(k, 0) + v
    items = [(k, sym(v, p)) for k, v in d.items()]
    items = [(k, v) for k, v in items if v != 0]
    items.sort(key=lambda kv: wire_ord(kv[0]))
    if not items:
        return "0"
    return "+".join(f"{wire_str(k)}*{v}" for k, v in items)


def flt_str(x):
    fr = Fraction(x)
    return f"F:{fr.numerator}/{fr.denominator}"


def val_str(v, p, classes):
    LinComb, LinCombBool, LinCombFxp, Array = classes
    if v is None:
        return "N"
    if isinstance(v, bool):
        return f"I:{int(v)}"
    if isinstance(v, int):
        return f"I:{v}"
    if isinstance(v, float):
        return flt_str(v)
    if isinstance(v, LinCombFxp):
        return f"X:{v.lc.value}:{canon_lc(v.lc.lc, p)}"
    if isinstance(v, LinCombBool):
        return f"B:{v.lc.value}:{canon_lc(v.lc.lc, p)}"
    if isinstance(v, LinComb):
        return f"L:{v.value}:{canon_lc(v.lc, p)}"
    if isinstance(v, Array):
        return "[" + ",".join(val_str(x, p, classes) for x in v.arr) + "]"
    if isinstance(v, list):
        return "[" + ",".join(val_str(x, p, classes) for x in v) + "]"
    if isinstance(v, tuple):
        return "(" + ",".join(val_str(x, p, classes) for x in v) + ")"
    if v is NotImplemented:
        return "NotImplemented"
    return f"?{type(v).__name__}"
