"""Shared machinery of the checks: paths, Lean build/audit/driver, workers, evidence, verdicts."""
import fcntl, json, os, re, shutil, subprocess, sys, tempfile, time, hashlib

try:
    sys.set_int_max_str_digits(0)
except AttributeError:
    pass

VERIF = os.path.dirname(os.path.dirname(os.path.abspath(__file__)))
REPO = os.environ.get("PYSNARK_REPO", "/repo")
LEAN = os.path.join(VERIF, "lean")
HARNESS = os.path.join(VERIF, "harness")
PY = os.environ.get("VERIF_PY", "/venv/bin/python")
BN128 = 21888242871839275222246405745257275088548364400416034343698204186575808495617
BLS381 = 52435875175126190479447740508185965837690552500527637822603658699938581184513
ED25519 = 7237005577332262213973186563042994240857116359379907606001950938285454250989
STD_AXIOMS = {"propext", "Classical.choice", "Quot.sound"}
FORBIDDEN = re.compile(r"\b(sorry|admit|native_decide|bv_decide|implemented_by)\b|^\s*axiom\s|unsafe\s|maxHeartbeats\s+0")


class Infra(Exception):
    """infrastructure failure: exit 2, never a violation"""


def seed_from_env(default=1):
    try:
        return int(os.environ.get("VERIF_SEED", default))
    except ValueError:
        return default


# ---------------------------------------------------------------- Lean side
_lock_file = None


def lean_lock():
    global _lock_file
    if _lock_file is None:
        _lock_file = open(os.path.join(LEAN, ".build.lock"), "w")
    fcntl.flock(_lock_file, fcntl.LOCK_EX)


def lean_unlock():
    if _lock_file is not None:
        fcntl.flock(_lock_file, fcntl.LOCK_UN)


def regenerate():
    """Re-extract constants from /repo's working tree into lean/PysnarkModel/Gen/*.lean."""
    from . import extract
    return extract.run()


def lake_build(targets, timeout=3000):
    """Build the targets; returns (ok, output)."""
    lean_lock()
    try:
        t0 = time.time()
        pr = subprocess.run(["lake", "build"] + list(targets), cwd=LEAN, capture_output=True, text=True,
                            timeout=timeout)
        return pr.returncode == 0, pr.stdout + pr.stderr, time.time() - t0
    finally:
        lean_unlock()


def strip_comments(src):
    # remove /- ... -/ (nested not handled beyond one level, good enough for the grep) and -- comments
    out = re.sub(r"/-.*?-/", "", src, flags=re.S)
    out = re.sub(r"--.*", "", out)
    return out


def grep_forbidden():
    hits = []
    for root, _, files in os.walk(os.path.join(LEAN, "PysnarkModel")):
        for f in files:
            if f.endswith(".lean"):
                p = os.path.join(root, f)
                for i, line in enumerate(strip_comments(open(p).read()).splitlines(), 1):
                    if FORBIDDEN.search(line):
                        hits.append(f"{os.path.relpath(p, LEAN)}:{i}: {line.strip()[:120]}")
    return hits


def theorems_in(propfile):
    """names of theorems / count of examples in a Props file (each is one obligation)"""
    src = strip_comments(open(propfile).read())
    names = re.findall(r"^\s*theorem\s+([A-Za-z0-9_'.]+)", src, flags=re.M)
    examples = len(re.findall(r"^\s*example\b", src, flags=re.M))
    return names, examples


def audit_axioms(pid, names):
    """#print axioms for every property theorem, via a generated scratch file run with `lake env lean`."""
    if not names:
        return {}, ""
    body = f"import PysnarkModel.Props.{pid}\nopen Pysnark\n" + "\n".join(f"#print axioms {n}" for n in names) + "\n"
    d = tempfile.mkdtemp(prefix="verif-audit-")
    try:
        fp = os.path.join(d, "Audit.lean")
        open(fp, "w").write(body)
        pr = subprocess.run(["lake", "env", "lean", fp], cwd=LEAN, capture_output=True, text=True, timeout=1200)
        out = pr.stdout + pr.stderr
    finally:
        shutil.rmtree(d, ignore_errors=True)
    res = {}
    # output: "'name' depends on axioms: [a, b]" or "'name' does not depend on any axioms"
    for m in re.finditer(r"'([^']+)' depends on axioms: \[([^\]]*)\]", out, flags=re.S):
        res[m.group(1).split(".")[-1]] = [a.strip() for a in m.group(2).replace("\n", " ").split(",") if a.strip()]
    for m in re.finditer(r"'([^']+)' does not depend on any axioms", out):
        res[m.group(1).split(".")[-1]] = []
    return res, out


def lean_driver(lines, timeout=3000):
    """Pipe case lines to the model driver; returns output lines (one per input line)."""
    if not lines:
        return []
    pr = subprocess.run(["lake", "env", "lean", "--run", "Driver.lean"], cwd=LEAN, input="\n".join(lines) + "\n",
                        capture_output=True, text=True, timeout=timeout)
    if pr.returncode != 0:
        raise Infra("lean driver failed: " + pr.stderr[-2000:])
    out = pr.stdout.splitlines()
    if len(out) != len(lines):
        raise Infra(f"lean driver returned {len(out)} lines for {len(lines)} cases: {pr.stderr[-500:]}")
    return out


# ---------------------------------------------------------------- implementation side
def stub_dir(kind):
    return os.path.join(HARNESS, "stubs", kind)


def backend_env(backend):
    """environment that makes pysnark's own selection code pick `backend`"""
    env = dict(os.environ)
    env["PYTHONDONTWRITEBYTECODE"] = "1"
    env["PYSNARK_BACKEND"] = backend
    pp = [REPO] if REPO != "/repo" else []
    if backend.startswith("zkif") or backend == "zkinterface":
        try:
            import importlib.util
            real = subprocess.run([PY, "-c", "import flatbuffers"], capture_output=True).returncode == 0
        except Exception:
            real = False
        if not real:
            pp.append(os.path.join(HARNESS, "fbshim"))
    if backend == "qaptools":
        env["QAPTOOLS_BIN"] = stub_dir("qaptools")
    if pp:
        env["PYTHONPATH"] = os.pathsep.join(pp + [env.get("PYTHONPATH", "")]).rstrip(os.pathsep)
    return env


class Worker:
    """long-lived interpreter driving the real pysnark; one per backend configuration"""

    def __init__(self, backend="snarkjs", script="worker.py", extra_env=None):
        self.tmp = tempfile.mkdtemp(prefix="verif-worker-")
        env = backend_env(backend)
        if extra_env:
            env.update(extra_env)
        self.proc = subprocess.Popen([PY, "-u", os.path.join(HARNESS, script)], cwd=self.tmp, env=env,
                                     stdin=subprocess.PIPE, stdout=subprocess.PIPE, stderr=subprocess.PIPE, text=True)

    def run(self, lines):
        """send all lines, read one reply per line (writer thread avoids pipe deadlock)"""
        import threading
        out = []

        def feed():
            try:
                for l in lines:
                    self.proc.stdin.write(l + "\n")
                self.proc.stdin.flush()
            except BrokenPipeError:
                pass
        th = threading.Thread(target=feed)
        th.start()
        for _ in lines:
            r = self.proc.stdout.readline()
            if not r:
                th.join()
                err = self.proc.stderr.read()
                raise Infra("worker died: " + err[-2000:])
            out.append(r.rstrip("\n"))
        th.join()
        return out

    def close(self):
        try:
            self.proc.stdin.close()
            self.proc.wait(timeout=20)
        except Exception:
            self.proc.kill()
        shutil.rmtree(self.tmp, ignore_errors=True)


def run_workers(lines, backend="snarkjs", nproc=None, script="worker.py", extra_env=None):
    """split the case list over several workers (order preserved)"""
    if not lines:
        return []
    nproc = nproc or min(12, max(1, len(lines) // 50))
    chunks = [lines[i::nproc] for i in range(nproc)]
    import concurrent.futures as cf
    res = [None] * nproc

    def job(i):
        w = Worker(backend, script, extra_env)
        try:
            return w.run(chunks[i])
        finally:
            w.close()
    with cf.ThreadPoolExecutor(nproc) as ex:
        for i, r in enumerate(ex.map(job, range(nproc))):
            res[i] = r
    out = [None] * len(lines)
    for i in range(nproc):
        for j, r in enumerate(res[i]):
            out[i + j * nproc] = r
    return out


# ---------------------------------------------------------------- findings / evidence / verdict
def load_known():
    p = os.path.join(VERIF, "known_findings.json")
    if not os.path.exists(p):
        return []
    return json.load(open(p))["findings"]


def write_replay(pid, n, payload):
    os.makedirs(os.path.join(VERIF, "replays"), exist_ok=True)
    rel = f"replays/{pid}-{n}.json"
    json.dump(payload, open(os.path.join(VERIF, rel), "w"), indent=1, default=str)
    return rel


def write_evidence(pid, tier, seed, coverage, wall_s, violations, assumptions):
    os.makedirs(os.path.join(VERIF, "evidence"), exist_ok=True)
    ev = {"property_id": pid, "tier": tier, "seed": seed, "level": "proof", "coverage": coverage,
          "assumptions": assumptions, "wall_s": round(wall_s, 2), "violations": violations}
    json.dump(ev, open(os.path.join(VERIF, "evidence", f"{pid}.json"), "w"), indent=1, default=str)


TRUSTED_BASE = [
    "Lean 4.33.0 kernel (lake build of lean/PysnarkModel); axioms audited per theorem: subset of {propext, Classical.choice, Quot.sound}; no native_decide/bv_decide/sorry/own axioms (grep + #print axioms on every run)",
    "Mathlib v4.33.0 modules imported by Lemmas/ and Props/ only",
    "the hand-written executable model lean/PysnarkModel/Model/*.lean, tied to /repo by the differential correspondence run of this check (bounded by its generator; distribution in this file)",
    "harness/extract.py (ast-based extraction of constants from /repo into lean/PysnarkModel/Gen/*.lean on every run)",
    "the harness: harness/worker*.py (drives the real pysnark), harness/canon.py, the per-property oracle and generator",
]
