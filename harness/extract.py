"""Regenerate lean/PysnarkModel/Gen/*.lean from /repo's current working tree.

Pure `ast` extraction (the code is not imported).  Files are rewritten only when their
content changes, so an unchanged tree is a no-op for lake.  If the source no longer has the
expected shape, `ExtractError` names what could not be found: a broken tie for every
property depending on that constant.
"""
import ast, os, sys

from .common import REPO, LEAN


class ExtractError(Exception):
    pass


def parse(rel):
    p = os.path.join(REPO, rel)
    try:
        return ast.parse(open(p).read(), p)
    except (OSError, SyntaxError) as e:
        raise ExtractError(f"{rel}: {e}")


def const_eval(node):
    """literal, or integer arithmetic on literals (`2**255 - 19`, `1 << 20`)"""
    try:
        return ast.literal_eval(node)
    except Exception:
        pass
    if isinstance(node, ast.BinOp):
        a, b = const_eval(node.left), const_eval(node.right)
        if isinstance(a, int) and isinstance(b, int):
            if isinstance(node.op, ast.Add): return a + b
            if isinstance(node.op, ast.Sub): return a - b
            if isinstance(node.op, ast.Mult): return a * b
            if isinstance(node.op, ast.Pow) and 0 <= b <= 4096: return a ** b
            if isinstance(node.op, ast.LShift) and 0 <= b <= 4096: return a << b
    if isinstance(node, ast.UnaryOp) and isinstance(node.op, ast.USub):
        v = const_eval(node.operand)
        if isinstance(v, int): return -v
    raise ValueError("not a constant expression")


def module_assign(tree, name, rel):
    for n in tree.body:
        if isinstance(n, ast.Assign) and len(n.targets) == 1 and isinstance(n.targets[0], ast.Name) \
                and n.targets[0].id == name:
            try:
                return const_eval(n.value)
            except Exception as e:
                raise ExtractError(f"{rel}: {name} is not a literal ({e})")
    raise ExtractError(f"{rel}: no module-level assignment to {name}")


def call_arg(tree, fname, rel):
    for n in ast.walk(tree):
        if isinstance(n, ast.Call) and isinstance(n.func, ast.Name) and n.func.id == fname and n.args:
            try:
                return const_eval(n.args[0])
            except Exception as e:
                raise ExtractError(f"{rel}: argument of {fname} is not a literal ({e})")
    raise ExtractError(f"{rel}: no call of {fname}")


def func_return(tree, fname, rel):
    for n in ast.walk(tree):
        if isinstance(n, ast.FunctionDef) and n.name == fname:
            for m in ast.walk(n):
                if isinstance(m, ast.Return) and m.value is not None:
                    try:
                        return ast.literal_eval(m.value)
                    except Exception as e:
                        raise ExtractError(f"{rel}: {fname} does not return a literal ({e})")
    raise ExtractError(f"{rel}: no function {fname}")


def import_edges(rel):
    """`from pysnark.X import *` / `from .X import *` / `import pysnark.X` edges between backend modules"""
    t = parse(rel)
    pkg = rel[:-3].replace("/", ".").rsplit(".", 1)[0]        # package of the module
    out = []
    for n in t.body:
        if isinstance(n, ast.ImportFrom) and any(a.name == "*" for a in n.names):
            if n.level == 0 and n.module and n.module.startswith("pysnark."):
                m = n.module
            elif n.level == 1 and n.module:
                m = pkg + "." + n.module
            else:
                continue
            if m not in out:
                out.append(m)
        elif isinstance(n, ast.Import):
            for a in n.names:
                if a.name.startswith("pysnark.") and a.name.endswith("backend") and a.name not in out:
                    out.append(a.name)
    return out


def constants():
    """every item is extracted independently: one that no longer has the expected shape is reported in `errors`
    and rendered as 0 / [] so that exactly the proof obligations depending on it fail"""
    c = {}; errors = []
    def item(key, fn, default):
        try:
            c[key] = fn()
        except ExtractError as e:
            errors.append(str(e)); c[key] = default
    item("snarkjs_p", lambda: module_assign(parse("pysnark/snarkjsbackend.py"), "snarkjsp", "pysnark/snarkjsbackend.py"), 0)
    item("zkif_p", lambda: module_assign(parse("pysnark/zkinterface/backend.py"), "modulus", "pysnark/zkinterface/backend.py"), 0)
    item("bellman_p", lambda: call_arg(parse("pysnark/zkinterface/backendbellman.py"), "set_modulus", "pysnark/zkinterface/backendbellman.py"), 0)
    item("bulletproofs_p", lambda: call_arg(parse("pysnark/zkinterface/backendbulletproofs.py"), "set_modulus", "pysnark/zkinterface/backendbulletproofs.py"), 0)
    item("qaptools_p", lambda: module_assign(parse("pysnark/qaptools/options.py"), "vc_p", "pysnark/qaptools/options.py"), 0)
    item("nobackend_p", lambda: func_return(parse("pysnark/nobackend.py"), "get_modulus", "pysnark/nobackend.py"), 0)
    item("backends", lambda: module_assign(parse("pysnark/runtime.py"), "backends", "pysnark/runtime.py"), [])
    item("bitlength", lambda: module_assign(parse("pysnark/runtime.py"), "bitlength", "pysnark/runtime.py"), 0)
    item("autoprove", lambda: module_assign(parse("pysnark/runtime.py"), "autoprove", "pysnark/runtime.py"), False)
    item("resolution", lambda: module_assign(parse("pysnark/fixedpoint.py"), "resolution", "pysnark/fixedpoint.py"), 0)
    edges = {}
    for mod, rel in (("pysnark.zkinterface.backendbellman", "pysnark/zkinterface/backendbellman.py"),
                     ("pysnark.zkinterface.backendbulletproofs", "pysnark/zkinterface/backendbulletproofs.py"),
                     ("pysnark.libsnark.backendgg", "pysnark/libsnark/backendgg.py")):
        try:
            edges[mod] = import_edges(rel)
        except ExtractError as e:
            errors.append(str(e)); edges[mod] = []
    c["edges"] = edges
    for k in ("snarkjs_p", "zkif_p", "bellman_p", "bulletproofs_p", "qaptools_p", "nobackend_p", "bitlength", "resolution"):
        if not isinstance(c[k], int) or isinstance(c[k], bool):
            errors.append(f"{k} is not an integer literal: {c[k]!r}"); c[k] = 0
    if not (isinstance(c["backends"], list) and all(isinstance(b, list) and len(b) == 2 and
            all(isinstance(x, str) for x in b) for b in c["backends"])):
        errors.append("runtime.backends is not a list of [name, module] string pairs"); c["backends"] = []
    return c, errors


def poseidon():
    d = module_assign(parse("pysnark/poseidon_constants.py"), "poseidon_constants", "pysnark/poseidon_constants.py")
    if not isinstance(d, dict):
        raise ExtractError("poseidon_constants is not a dict")
    for k, v in d.items():
        for f in ("R_F", "R_P", "t", "a", "round_constants", "matrix"):
            if f not in v:
                raise ExtractError(f"poseidon_constants[{k}] lacks {f}")
    return d


API_SOURCES = [("LinComb", "pysnark/runtime.py", "LinComb"), ("LinCombBool", "pysnark/boolean.py", "LinCombBool"),
               ("LinCombFxp", "pysnark/fixedpoint.py", "LinCombFxp"), ("array", "pysnark/array.py", None),
               ("pack", "pysnark/pack.py", None), ("branching", "pysnark/branching.py", None),
               ("atexitmaybe", "pysnark/atexitmaybe.py", None), ("runtime_functions", "pysnark/runtime.py", ""),
               ("snarkjsbackend", "pysnark/snarkjsbackend.py", None), ("zkif_backend", "pysnark/zkinterface/backend.py", None),
               ("qaptools_backend", "pysnark/qaptools/backend.py", None), ("qapsplit", "pysnark/qaptools/qapsplit.py", None),
               ("poseidon_hash", "pysnark/poseidon_hash.py", None), ("ggh_hash", "pysnark/ggh_hash.py", None)]


def api_surface():
    """the methods of the modelled classes / the functions and methods of the modelled modules, in source order:
    a method ADDED to (or removed from) the code changes a generated list, and the `rfl` obligation pinning it in the
    property file fails, so that an API the model does not know about (e.g. a new `__iadd__`) is never silently outside it"""
    out = {}
    for key, rel, cls in API_SOURCES:
        t = parse(rel)
        names = []
        def walk(body, prefix):
            for n in body:
                if isinstance(n, (ast.FunctionDef, ast.AsyncFunctionDef)):
                    names.append(prefix + n.name)
                elif isinstance(n, ast.ClassDef) and cls is None and prefix is not None:
                    walk(n.body, prefix + n.name + ".")
        if cls == "":
            names.extend(n.name for n in t.body if isinstance(n, (ast.FunctionDef, ast.AsyncFunctionDef)))
        elif cls is None:
            walk(t.body, "")
        else:
            found = [n for n in t.body if isinstance(n, ast.ClassDef) and n.name == cls]
            if not found:
                raise ExtractError(f"{rel}: no class {cls}")
            walk(found[0].body, "")
        out[key] = names
    return out


def module_exports(modname, seen=None):
    """names a backend module offers as attributes, statically: its top-level function definitions and explicitly imported
    names, plus (recursively) everything a `from M import *` of another pysnark module brings in"""
    seen = seen or set()
    if modname in seen:
        return []
    seen.add(modname)
    rel = modname.replace(".", "/") + ".py"
    t = parse(rel)
    pkg = modname.rsplit(".", 1)[0]
    names = []
    for n in t.body:
        if isinstance(n, (ast.FunctionDef, ast.AsyncFunctionDef)):
            names.append(n.name)
        elif isinstance(n, ast.ImportFrom):
            src = n.module if n.level == 0 else (pkg + "." + n.module if n.module else pkg)
            if any(a.name == "*" for a in n.names):
                if src and src.startswith("pysnark."):
                    names += module_exports(src, seen)
            else:
                names += [a.asname or a.name for a in n.names]
    out = []
    for x in names:
        if x not in out:
            out.append(x)
    return out


def render_api(a):
    L = ["/-! GENERATED by harness/extract.py from /repo's working tree on every run. Do not edit. -/", "namespace Pysnark.Gen"]
    for key, rel, cls in API_SOURCES:
        what = f"methods of class `{cls}`" if cls else ("top-level functions" if cls == "" else "functions and methods")
        L.append(f"/-- `{rel}`: {what}, in source order -/\ndef api_{key} : List String := " + lean_list(a.get(key, []), lean_str))
    L.append("/-- for every module of `runtime.backends`: the names it offers (own functions, explicit imports, and the closure of "
             "`from … import *`), extracted statically -/\ndef backendExports : List (String × List String) := "
             + lean_list(a.get("__exports__", []), lambda kv: f"({lean_str(kv[0])}, {lean_list(kv[1], lean_str)})"))
    L.append("end Pysnark.Gen")
    return "\n".join(L) + "\n"


def lean_str(s):
    return '"' + s.replace("\\", "\\\\").replace('"', '\\"') + '"'


def lean_list(xs, f=str):
    return "[" + ", ".join(f(x) for x in xs) + "]"


def render_constants(c):
    L = []
    L.append("/-! GENERATED by harness/extract.py from /repo's working tree on every run. Do not edit. -/")
    L.append("namespace Pysnark.Gen")
    L.append(f"/-- `pysnark/snarkjsbackend.py`: `snarkjsp` -/\ndef snarkjsModulus : Nat := {c['snarkjs_p']}")
    L.append(f"/-- `pysnark/zkinterface/backend.py`: `modulus` -/\ndef zkifModulus : Nat := {c['zkif_p']}")
    L.append(f"/-- `pysnark/zkinterface/backendbellman.py`: `set_modulus(…)` -/\ndef bellmanModulus : Nat := {c['bellman_p']}")
    L.append(f"/-- `pysnark/zkinterface/backendbulletproofs.py`: `set_modulus(…)` -/\ndef bulletproofsModulus : Nat := {c['bulletproofs_p']}")
    L.append(f"/-- `pysnark/qaptools/options.py`: `vc_p` -/\ndef qaptoolsModulus : Nat := {c['qaptools_p']}")
    L.append(f"/-- `pysnark/nobackend.py`: `get_modulus()` -/\ndef nobackendModulus : Nat := {c['nobackend_p']}")
    L.append(f"/-- `pysnark/runtime.py`: `bitlength` -/\ndef defaultBitlength : Nat := {c['bitlength']}")
    L.append(f"/-- `pysnark/fixedpoint.py`: `resolution` -/\ndef defaultResolution : Nat := {c['resolution']}")
    L.append(f"/-- `pysnark/runtime.py`: `autoprove` -/\ndef defaultAutoprove : Bool := {'true' if c['autoprove'] else 'false'}")
    L.append("/-- `pysnark/runtime.py`: `backends` (name, module), in order -/\ndef backends : List (String × String) := "
             + lean_list(c["backends"], lambda b: f"({lean_str(b[0])}, {lean_str(b[1])})"))
    L.append("/-- `from pysnark.… import *` edges of the derived backend modules -/\ndef importEdges : List (String × List String) := "
             + lean_list(sorted(c["edges"].items()), lambda kv: f"({lean_str(kv[0])}, {lean_list(kv[1], lean_str)})"))
    L.append("end Pysnark.Gen")
    return "\n".join(L) + "\n"


def render_poseidon(d):
    L = ["/-! GENERATED by harness/extract.py from pysnark/poseidon_constants.py on every run. Do not edit. -/",
         "namespace Pysnark.Gen",
         "structure PoseidonParams where\n  rF : Nat\n  rP : Nat\n  t : Nat\n  a : Nat\n  roundConstants : List (List Nat)\n  matrix : List (List Nat)"]
    names = []
    for k, v in d.items():
        nm = "poseidon_" + "".join(ch if ch.isalnum() else "_" for ch in k)
        names.append((k, nm))
        rc = lean_list(v["round_constants"], lambda r: lean_list(r))
        mx = lean_list(v["matrix"], lambda r: lean_list(r))
        L.append(f"def {nm} : PoseidonParams :=\n  {{ rF := {v['R_F']}, rP := {v['R_P']}, t := {v['t']}, a := {v['a']},\n    roundConstants := {rc},\n    matrix := {mx} }}")
    L.append("/-- the table `poseidon_constants`, keyed by backend name, in source order -/\ndef poseidonTable : List (String × PoseidonParams) := "
             + lean_list(names, lambda kn: f"({lean_str(kn[0])}, {kn[1]})"))
    # counted by the extractor on the source literal, independently of the rendered tables: the number of ROUNDS of a set is
    # R_F + R_P, the number of ROWS of its round-constant table may be larger (pinned by `C20_round_rows`)
    L.append("/-- per registered set, in source order: (key, `R_F`, `R_P`, number of rows of `round_constants`) -/\n"
             "def poseidonRounds : List (String × Nat × Nat × Nat) := "
             + lean_list(list(d.items()), lambda kv: f"({lean_str(kv[0])}, {kv[1]['R_F']}, {kv[1]['R_P']}, {len(kv[1]['round_constants'])})"))
    L.append("end Pysnark.Gen")
    return "\n".join(L) + "\n"


def write_if_changed(path, content):
    try:
        if open(path).read() == content:
            return False
    except OSError:
        pass
    os.makedirs(os.path.dirname(path), exist_ok=True)
    open(path, "w").write(content)
    return True


def run():
    """returns (constants dict, list of errors). Missing pieces are rendered as 0/[] so that the
    dependent proof obligations FAIL rather than the build being impossible to attribute."""
    c, errors = constants()
    try:
        d = poseidon()
    except ExtractError as e:
        errors.append(str(e))
        d = None
    gen = os.path.join(LEAN, "PysnarkModel", "Gen")
    if c is not None:
        write_if_changed(os.path.join(gen, "Constants.lean"), render_constants(c))
    if d is not None:
        write_if_changed(os.path.join(gen, "Poseidon.lean"), render_poseidon(d))
    try:
        a = api_surface()
    except ExtractError as e:
        errors.append(str(e)); a = {}
    exports = []
    for b in (c or {}).get("backends", []):
        try:
            exports.append((b[1], module_exports(b[1])))
        except ExtractError as e:
            errors.append(str(e)); exports.append((b[1], []))
    a["__exports__"] = exports
    write_if_changed(os.path.join(gen, "Api.lean"), render_api(a))
    return c, d, errors


if __name__ == "__main__":
    print(run()[2])
