"""Independent reader of the FlatBuffers wire format for zkinterface.fbs (no code shared with the shim)."""
import struct
def u8(b,o): return b[o]
def u16(b,o): return struct.unpack_from('<H',b,o)[0]
def u32(b,o): return struct.unpack_from('<I',b,o)[0]
def i32(b,o): return struct.unpack_from('<i',b,o)[0]
def u64(b,o): return struct.unpack_from('<Q',b,o)[0]
def field(b, t, idx):
    vt = t - i32(b, t); vtlen = u16(b, vt); off = 4 + 2*idx
    if off >= vtlen: return None
    fo = u16(b, vt+off)
    return None if fo == 0 else t + fo
def indirect(b, o): return o + u32(b, o)
def vec(b, o):
    v = indirect(b, o); return v+4, u32(b, v)
def variables(b, t):
    ids=[]; vals=b''
    f = field(b,t,0)
    if f is not None:
        s,n = vec(b,f); ids=[u64(b,s+8*i) for i in range(n)]
    f = field(b,t,1)
    if f is not None:
        s,n = vec(b,f); vals=bytes(b[s:s+n])
    k = len(vals)//len(ids) if ids else 0
    return [(ids[i], int.from_bytes(vals[i*k:(i+1)*k],'little'), k) for i in range(len(ids))]
def messages(buf):
    pos=0; out=[]
    while pos < len(buf):
        size = u32(buf,pos); m = buf[pos+4:pos+4+size]; pos += 4+size
        root = u32(m,0)
        ty = u8(m, field(m,root,0)); msg = indirect(m, field(m,root,1))
        if ty == 1:
            iv = field(m,msg,0); fv = field(m,msg,1); fm = field(m,msg,2)
            s,n = vec(m,fm)
            out.append(("header", variables(m, indirect(m,iv)) if iv else [], u64(m,fv) if fv else 0, int.from_bytes(bytes(m[s:s+n]),'little')))
        elif ty == 2:
            cs=[]; f = field(m,msg,0)
            if f is not None:
                s,n = vec(m,f)
                for i in range(n):
                    c = indirect(m, s+4*i)
                    cs.append(tuple(variables(m, indirect(m, field(m,c,j))) for j in range(3)))
            out.append(("constraints", cs))
        elif ty == 3:
            out.append(("witness", variables(m, indirect(m, field(m,msg,0)))))
        else: out.append(("other",ty))
    return out
