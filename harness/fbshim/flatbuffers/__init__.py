"""Minimal stand-in for the `flatbuffers` package: Builder only (the subset the
zkinterface generated classes and pysnark's backend call). Follows the published
FlatBuffers binary layout: buffer built back-to-front, little-endian scalars,
tables with an soffset to a vtable [vtable bytes, table bytes, field offsets...],
vectors with a uint32 length prefix, uoffsets relative to their own position."""
import struct
from . import number_types, compat

class Builder:
    def __init__(self, initialSize=1024):
        self.Bytes = bytearray(initialSize)
        self.head = initialSize
        self.minalign = 1
        self.current_vtable = None
        self.objectEnd = None
        self.vtables = {}
        self.nested = False
        self.finished = False
    def Offset(self): return len(self.Bytes) - self.head
    def _grow(self):
        old = len(self.Bytes); new = max(old * 2, 1)
        self.Bytes = bytearray(new - old) + self.Bytes
        self.head += new - old
    def Pad(self, n):
        for _ in range(n): self._place(0, 'B', 1)
    def Prep(self, size, additional):
        if size > self.minalign: self.minalign = size
        alignSize = (~(len(self.Bytes) - self.head + additional)) + 1
        alignSize &= (size - 1)
        while self.head < alignSize + size + additional: self._grow()
        self.Pad(alignSize)
    def _place(self, x, fmt, size):
        self.head -= size
        struct.pack_into('<' + fmt, self.Bytes, self.head, x)
    def _prepend(self, x, fmt, size):
        self.Prep(size, 0); self._place(x, fmt, size)
    def PrependByte(self, x): self._prepend(x, 'B', 1)
    def PrependUint8(self, x): self._prepend(x, 'B', 1)
    def PrependBool(self, x): self._prepend(1 if x else 0, 'B', 1)
    def PrependUint16(self, x): self._prepend(x, 'H', 2)
    def PrependUint32(self, x): self._prepend(x, 'I', 4)
    def PrependInt32(self, x): self._prepend(x, 'i', 4)
    def PrependUint64(self, x): self._prepend(x, 'Q', 8)
    def PrependInt64(self, x): self._prepend(x, 'q', 8)
    def PrependUOffsetTRelative(self, off):
        self.Prep(4, 0)
        assert off <= self.Offset()
        self._place(self.Offset() - off + 4, 'I', 4)
    def PrependSOffsetTRelative(self, off):
        self.Prep(4, 0)
        self._place(self.Offset() - off + 4, 'i', 4)
    # vectors
    def StartVector(self, elemSize, numElems, alignment):
        assert not self.nested; self.nested = True
        self.vectorNumElems = numElems
        self.Prep(4, elemSize * numElems)
        self.Prep(alignment, elemSize * numElems)
        return self.Offset()
    def EndVector(self, numElems=None):
        assert self.nested; self.nested = False
        self._place(self.vectorNumElems if numElems is None else numElems, 'I', 4)
        return self.Offset()
    # tables
    def StartObject(self, numfields):
        assert not self.nested
        self.current_vtable = [0] * numfields
        self.objectEnd = self.Offset()
        self.nested = True
    def Slot(self, slotnum): self.current_vtable[slotnum] = self.Offset()
    def _slot_scalar(self, o, x, d, prepend):
        if x != d: prepend(x); self.Slot(o)
    def PrependBoolSlot(self, o, x, d): self._slot_scalar(o, x, d, self.PrependBool)
    def PrependUint8Slot(self, o, x, d): self._slot_scalar(o, x, d, self.PrependUint8)
    def PrependUint64Slot(self, o, x, d): self._slot_scalar(o, x, d, self.PrependUint64)
    def PrependInt64Slot(self, o, x, d): self._slot_scalar(o, x, d, self.PrependInt64)
    def PrependUOffsetTRelativeSlot(self, o, x, d):
        if x != d: self.PrependUOffsetTRelative(x); self.Slot(o)
    def EndObject(self):
        assert self.nested
        self.PrependSOffsetTRelative(0)
        objectOffset = self.Offset()
        vt = list(self.current_vtable)
        while vt and vt[-1] == 0: vt.pop()
        key = (objectOffset - self.objectEnd, tuple((objectOffset - x) if x else 0 for x in vt))
        existing = self.vtables.get(key)
        if existing is None:
            for x in reversed(vt):
                self.PrependUint16((objectOffset - x) if x else 0)
            self.PrependUint16(objectOffset - self.objectEnd)
            self.PrependUint16((len(vt) + 2) * 2)
            objectStart = len(self.Bytes) - objectOffset
            struct.pack_into('<i', self.Bytes, objectStart, self.Offset() - objectOffset)
            self.vtables[key] = self.Offset()
        else:
            objectStart = len(self.Bytes) - objectOffset
            self.head = objectStart
            struct.pack_into('<i', self.Bytes, self.head, existing - objectOffset)
        self.current_vtable = None; self.nested = False
        return objectOffset
    def _finish(self, root, sizePrefix):
        prep = 4 + (4 if sizePrefix else 0)
        self.Prep(self.minalign, prep)
        self.PrependUOffsetTRelative(root)
        if sizePrefix:
            self._place(self.Offset(), 'I', 4)   # size of what follows; no Prep: already aligned
        self.finished = True
        return self.head
    def Finish(self, root, file_identifier=None): return self._finish(root, False)
    def FinishSizePrefixed(self, root, file_identifier=None): return self._finish(root, True)
    def Output(self): return self.Bytes[self.head:]
