def import_numpy(): return None
