class _F:
    py_type = int
UOffsetTFlags = Uint8Flags = Uint64Flags = Int64Flags = BoolFlags = Uint32Flags = Int32Flags = _F
