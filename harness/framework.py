"""Per-property check pipeline: regenerate -> build+audit -> correspondence + oracle -> classify -> verdict."""
import importlib, json, os, random, re, sys, time, traceback

from . import common
from .common import Infra


class Violation:
    def __init__(self, signature, what, replay):
        self.signature = signature      # dict: what the known-findings classifier matches
        self.what = what                # one line
        self.replay = replay            # json-able payload that reproduces it

    def matches(self, finding):
        sig = finding.get("signature", {})
        for k, v in sig.items():
            mine = self.signature.get(k)
            if isinstance(v, list):
                if mine not in v:
                    return False
            elif mine != v:
                return False
        return True


class Exploration:
    def __init__(self):
        self.evaluations = 0
        self.distinct = set()           # keys of distinct non-trivial cases
        self.samples = []
        self.hist = {}
        self.disagreements = []         # model vs implementation (list of dict)
        self.violations = []            # Violation objects from the direct oracle
        self.traces_validated = 0
        self.notes = []
        self.unmodelled = 0
        self.rule = ""
        self.exhaustive = False

    def count(self, key, n=1):
        self.hist[key] = self.hist.get(key, 0) + n


class Ctx:
    def __init__(self, pid, tier, seed):
        self.pid = pid; self.tier = tier; self.seed = seed
        self.rnd = random.Random(seed * 1000003 + int(pid[1:]))
        self.consts = None; self.poseidon = None

    def thorough(self):
        return self.tier == "thorough"

    def n(self, quick, thorough):
        return thorough if self.thorough() else quick


def failing_theorems(build_out, pid, names):
    """map `error: PysnarkModel/Props/Cxx.lean:LINE` to theorem names; any other error fails all"""
    propfile = os.path.join(common.LEAN, "PysnarkModel", "Props", f"{pid}.lean")
    lines = open(propfile).read().splitlines()
    starts = []
    for i, l in enumerate(lines, 1):
        m = re.match(r"\s*(theorem|example)\s*([A-Za-z0-9_'.]*)", l)
        if m:
            starts.append((i, m.group(2) or f"example@{i}"))
    failed = set()
    other = False
    for m in re.finditer(r"error: ([^\s:]+):(\d+):(\d+)", build_out):
        f, ln = m.group(1), int(m.group(2))
        if f.endswith(f"Props/{pid}.lean"):
            owner = None
            for s, nm in starts:
                if s <= ln:
                    owner = nm
            failed.add(owner or "?")
        else:
            other = True
            failed.add(f"{f}:{ln}")
    if other or (not failed and "error" in build_out):
        failed.update(names)
    return sorted(failed)


def run_check(pid, tier, replay=None):
    t0 = time.time()
    seed = common.seed_from_env()
    ctx = Ctx(pid, tier, seed)
    mod = importlib.import_module(f"harness.props.{pid.lower()}")
    if replay:
        return mod.replay(ctx, json.load(open(replay)))
    known = [f for f in common.load_known() if f["property"] == pid and f.get("status", "open") == "open"]
    import glob
    for old in glob.glob(os.path.join(common.VERIF, "replays", f"{pid}-*.json")):
        os.remove(old)

    # 1. regenerate the extracted part of the model
    ctx.consts, ctx.poseidon, ext_errors = common.regenerate()

    # 2. build + audit
    propfile = os.path.join(common.LEAN, "PysnarkModel", "Props", f"{pid}.lean")
    names, examples = common.theorems_in(propfile)
    ok, out, build_s = common.lake_build([f"PysnarkModel.Props.{pid}", "PysnarkModel.Driver.Proto"])
    obligations = len(names) + examples
    failed = []
    axioms = {}
    bad_axioms = {}
    if ok:
        axioms, aout = common.audit_axioms(pid, names)
        for n in names:
            if n not in axioms:
                bad_axioms[n] = "not reported by #print axioms"
            elif not set(axioms[n]) <= common.STD_AXIOMS:
                bad_axioms[n] = sorted(set(axioms[n]) - common.STD_AXIOMS)
    else:
        failed = failing_theorems(out, pid, names)
        if not os.path.exists(os.path.join(common.LEAN, ".lake", "build", "lib", "lean", "PysnarkModel", "Driver", "Proto.olean")):
            # the model itself does not build: nothing can run
            pass
    forbidden = common.grep_forbidden()
    if forbidden or bad_axioms:
        # an audit failure is a defect of the machinery, not of pysnark
        print("AUDIT FAILURE", forbidden, bad_axioms, file=sys.stderr)
        return 2
    if ext_errors:
        failed = sorted(set(failed) | {"extraction: " + e for e in ext_errors})
    leanchecker = None
    if ok and ctx.thorough() and os.environ.get("VERIF_LEANCHECKER", "1") == "1":
        import subprocess
        try:
            pr = subprocess.run(["lake", "env", "leanchecker", f"PysnarkModel.Props.{pid}"], cwd=common.LEAN,
                                capture_output=True, text=True, timeout=1500)
            leanchecker = pr.returncode == 0
            if not leanchecker:
                print("leanchecker failed:", (pr.stdout + pr.stderr)[-1500:], file=sys.stderr)
                return 2
        except subprocess.TimeoutExpired:
            leanchecker = None

    # 3+4. correspondence and direct oracle
    ex = mod.explore(ctx, extended=False)
    broken_tie = bool(failed) or bool(ex.disagreements)
    unlisted = [v for v in ex.violations if not any(v.matches(f) for f in known)]
    # change-directed search: a modelled function whose source differs from the recorded baseline (srcmap.json) is not a
    # violation, but it is met with the extended search whether or not the quick-size correspondence noticed anything
    from . import srcmap
    src_changed = srcmap.changed(pid)
    if (broken_tie or src_changed) and not unlisted:
        # extended failing-input search
        ex2 = mod.explore(ctx, extended=True, focus={"failed": failed, "disagreements": ex.disagreements[:50], "changed": src_changed})
        ex.evaluations += ex2.evaluations; ex.distinct |= ex2.distinct
        ex.violations += ex2.violations; ex.disagreements += ex2.disagreements
        ex.traces_validated += ex2.traces_validated
        for k, v in ex2.hist.items():
            ex.hist[k] = ex.hist.get(k, 0) + v
        unlisted = [v for v in ex.violations if not any(v.matches(f) for f in known)]

        broken_tie = bool(failed) or bool(ex.disagreements)

    # 5+6. classify, verdict
    rc = 0
    reproduced = []
    for f in known:
        hits = [v for v in ex.violations if v.matches(f)]
        if hits:
            reproduced.append(f["id"])
            print(f"KNOWN-FINDING: property={pid} {f['id']}: {f['what']}")
    nviol = 0
    if unlisted:
        # report distinct signatures, first occurrence each
        seen = set()
        for v in unlisted:
            key = json.dumps(v.signature, sort_keys=True)
            if key in seen:
                continue
            seen.add(key)
            rel = common.write_replay(pid, len(seen), {"property": pid, "kind": "failing-input", "signature": v.signature,
                                                       "what": v.what, "replay": v.replay, "seed": seed, "tier": tier})
            print(f"VIOLATION property={pid} replay={rel}")
            print(f"  {v.what}", file=sys.stderr)
            nviol += 1
            if nviol >= 10:
                break
        rc = 1
    elif broken_tie:
        rel = common.write_replay(pid, 0, {"property": pid, "kind": "no-failing-input-found",
                                           "theorems_or_extraction_that_no_longer_check": failed,
                                           "build_output_tail": out[-3000:] if not ok else "",
                                           "correspondence_disagreements": ex.disagreements[:20],
                                           "seed": seed, "tier": tier})
        print(f"VIOLATION property={pid} replay={rel} no-failing-input-found")
        nviol = 1
        rc = 1

    discharged = obligations - len([f for f in failed if not f.startswith("extraction")]) if not ok else obligations
    if not ok and not failed:
        discharged = 0
    cov = {
        "obligations": obligations, "discharged": max(discharged, 0),
        "checker_cmd": f"cd lean && lake build PysnarkModel.Props.{pid}  (then `#print axioms` on every theorem; thorough: lake env leanchecker PysnarkModel.Props.{pid})",
        "trusted_base": common.TRUSTED_BASE + getattr(mod, "TRUSTED_EXTRA", []),
        "theorems": names, "examples": examples, "failed": failed, "axioms": axioms, "leanchecker": leanchecker,
        "build_s": round(build_s, 1),
        "evaluations": ex.evaluations, "distinct_nontrivial": min(len(ex.distinct), ex.evaluations), "rule": ex.rule,
        "samples": ex.samples[:8], "traces_validated_against_impl": ex.traces_validated,
        "correspondence_disagreements": len(ex.disagreements), "unmodelled_cases": ex.unmodelled,
        "distribution": dict(sorted(ex.hist.items(), key=lambda kv: -kv[1])[:120]),
        "known_findings_reproduced": reproduced,
        "known_findings_listed": [f["id"] for f in known],
        "oracle_violations_total": len(ex.violations), "oracle_violations_unlisted": len(unlisted),
        "exhaustive": ex.exhaustive, "notes": ex.notes[:20],
        "modelled_source_functions_changed_since_baseline": src_changed[:40],
        "partial_theorems": getattr(mod, "PARTIAL", []),
    }
    common.write_evidence(pid, tier, seed, cov, time.time() - t0, nviol, getattr(mod, "ASSUMPTIONS", []))
    return rc


def main(argv):
    import argparse
    ap = argparse.ArgumentParser()
    ap.add_argument("pid")
    ap.add_argument("--tier", default=os.environ.get("VERIF_TIER", "quick"))
    ap.add_argument("--replay")
    a = ap.parse_args(argv)
    try:
        return run_check(a.pid, a.tier, a.replay)
    except Infra as e:
        print("INFRASTRUCTURE FAILURE:", e, file=sys.stderr)
        return 2
    except Exception:
        traceback.print_exc()
        return 2
