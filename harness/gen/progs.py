"""Generator of programs over the public API (line protocol of lean/PysnarkModel/Driver/Proto.lean).

Structured generation from the API's own type table: operator x operand-kind pair x value class x
configuration.  ~85% of the cases are drawn 'mostly valid' (operands inside the documented
domain), the rest from the malformed stream.  Every random choice derives from the `random.Random`
passed in; the case line contains all choices, so a line replays exactly.
"""
from fractions import Fraction
from ..common import BN128

BINOPS = ["add", "sub", "mul", "truediv", "floordiv", "mod", "divmod", "pow", "lshift", "rshift",
          "and", "xor", "or", "lt", "le", "eq", "ne", "gt", "ge"]
ARITH = ["add", "sub", "mul"]
CMPS = ["lt", "le", "eq", "ne", "gt", "ge"]
UNOPS = ["neg", "pos", "abs", "invert"]
# augmented assignment `t = a; t op= x` (instruction `iop`): Python calls type(t).__iop__ where it exists and falls back to t = t op x
IOPS = ["add", "sub", "mul", "truediv", "floordiv", "mod", "pow", "lshift", "rshift", "and", "xor", "or"]
ASSERTS = ["assert_lt", "assert_le", "assert_eq", "assert_ne", "assert_gt", "assert_ge"]
L_KINDS = ["priv", "pub", "const"]
B_KINDS = ["privb", "pubb"]
X_KINDS = ["privx", "pubx"]
BITLENGTHS = [1, 2, 3, 4, 6, 8, 12, 16, 24, 32]
BIG_BITLENGTHS = [64, 128, 250]
RESOLUTIONS = [0, 1, 4, 8, 12]


class Case:
    def __init__(self, cid, cfg, instrs, meta=None):
        self.cid = cid; self.cfg = dict(cfg); self.instrs = list(instrs); self.meta = meta or {}

    def line(self):
        c = self.cfg
        return (f"P|{self.cid}|p={c['p']},bl={c['bl']},res={c['res']},ign={c['ign']}|" + ";".join(self.instrs))

    def with_instrs(self, instrs):
        return Case(self.cid, self.cfg, instrs, self.meta)


def lit_int(v):
    return f"lit i:{v}"


def lit_flt(m, e):
    return f"lit f:{m}:{e}"


def int_value(rnd, bl, cls, p):
    """value classes relative to the bitlength"""
    half = 1 << max(bl - 1, 0)
    full = 1 << bl
    if cls == "zero":
        return 0
    if cls == "one":
        return rnd.choice([1, -1])
    if cls == "small":
        return rnd.randrange(-min(half, 8), min(half, 8) + 1)
    if cls == "nonneg":
        return rnd.randrange(0, max(half, 1))
    if cls == "inside":
        return rnd.randrange(-half + 1, half) if half > 1 else rnd.choice([0, 0, 1, -1])
    if cls == "boundary":
        return rnd.choice([half - 1, half, -half, -half + 1, -half - 1, full - 1, full, -full, full + 1, -full - 1,
                           full // 2 + 1])
    if cls == "outside":
        return rnd.choice([1, -1]) * rnd.randrange(full, full * 16 + 2)
    if cls == "huge":
        return rnd.choice([1, -1]) * rnd.randrange(1 << 250, 1 << 270)
    if cls == "modp":
        return rnd.choice([p, -p, 2 * p, p - 1, p + 1, -(p - 1), p * 3 + rnd.randrange(0, 3)])
    raise ValueError(cls)


VALID_CLASSES = ["zero", "one", "small", "small", "nonneg", "nonneg", "inside", "inside"]
MALFORMED_CLASSES = ["boundary", "boundary", "outside", "huge", "modp"]


def pick_class(rnd, malformed):
    return rnd.choice(MALFORMED_CLASSES if malformed else VALID_CLASSES)


def flt_value(rnd, bl, res, malformed):
    """a dyadic float m/2^e exactly representable, with e <= res most of the time"""
    e = rnd.choice([0, 1, 2, res, res]) if not malformed else rnd.choice([res + 1, res + 3, 0, 1])
    lim = 1 << max(1, min(bl - 1, 20))
    m = rnd.randrange(-lim, lim + 1)
    if malformed and rnd.random() < 0.3:
        m = rnd.choice([1, -1]) * rnd.randrange(1 << 22, 1 << 40)
    return m, e


class Builder:
    """incremental program builder tracking register kinds"""

    def __init__(self, rnd, cfg):
        self.rnd = rnd; self.cfg = cfg; self.ins = []; self.kinds = []; self.trail = []

    def emit(self, text, kind):
        self.ins.append(text); self.kinds.append(kind)
        return len(self.ins) - 1

    def r(self, i):
        return f"r{i}"

    def int_lit(self, v):
        return self.emit(lit_int(v), "I")

    def flt_lit(self, m, e):
        return self.emit(lit_flt(m, e), "F")

    def operand(self, kind, malformed=False, value=None):
        """create an operand of abstract kind I/F/L/B/X; returns register"""
        rnd = self.rnd; bl = self.cfg["bl"]; res = self.cfg["res"]; p = self.cfg["p"]
        if kind == "I":
            v = value if value is not None else int_value(rnd, bl, pick_class(rnd, malformed), p)
            return self.int_lit(v)
        if kind == "F":
            m, e = flt_value(rnd, bl, res, malformed)
            return self.flt_lit(m, e)
        if kind == "L":
            v = value if value is not None else int_value(rnd, bl, pick_class(rnd, malformed), p)
            a = self.int_lit(v)
            return self.emit(f"mk {rnd.choice(L_KINDS)} r{a}", "L")
        if kind == "B":
            v = value if value is not None else (rnd.choice([0, 1]) if not malformed else rnd.choice([0, 1, 2, -1]))
            a = self.int_lit(v)
            return self.emit(f"mk {rnd.choice(B_KINDS)} r{a}", "B")
        if kind == "X":
            if rnd.random() < 0.4:
                v = value if value is not None else int_value(rnd, max(bl - res, 1), pick_class(rnd, malformed), p)
                a = self.int_lit(v)
            else:
                m, e = flt_value(rnd, max(bl - res, 1), res, malformed)
                a = self.flt_lit(m, e)
            return self.emit(f"mk {rnd.choice(X_KINDS)} r{a}", "X")
        raise ValueError(kind)

    def regs_of(self, kinds):
        return [i for i, k in enumerate(self.kinds) if k in kinds]


def result_kind(op, ka, kb):
    """coarse prediction of the result kind (only used to pick later operands)"""
    if op in CMPS:
        return "B"
    if op == "divmod":
        return "T"
    if "X" in (ka, kb):
        return "X"
    if op in ("and", "xor", "or") and "B" in (ka, kb) and ka != "I":
        return "B" if ka == "B" else "?"
    return "L"


def cfg_for(rnd, malformed_cfg=False, big=False, p=BN128):
    bl = rnd.choice(BIG_BITLENGTHS if big else BITLENGTHS)
    return {"p": p, "bl": bl, "res": rnd.choice([r for r in RESOLUTIONS if r < bl] or [0]),
            "ign": 1 if malformed_cfg and rnd.random() < 0.5 else 0}


PAIR_KINDS = [("L", "L"), ("L", "I"), ("I", "L"), ("L", "L"), ("L", "I"), ("B", "B"), ("B", "L"), ("L", "B"),
              ("B", "I"), ("I", "B"), ("X", "X"), ("X", "L"), ("L", "X"), ("X", "I"), ("I", "X"), ("X", "F"),
              ("F", "X"), ("X", "B"), ("B", "X"), ("L", "F"), ("F", "L")]


def domain_values(rnd, op, bl, ka, kb):
    """operand values inside the documented domain of `op` (ints), or None to draw freely"""
    half = 1 << max(bl - 1, 0)
    q = max(1, int(half ** 0.5))
    if op in ("mul",):
        return rnd.randrange(-q, q + 1), rnd.randrange(-q, q + 1)
    if op == "truediv":
        b = rnd.choice([1, -1]) * rnd.randrange(1, q + 1)
        return b * rnd.randrange(-q, q + 1), b
    if op in ("floordiv", "mod", "divmod"):
        b = rnd.randrange(1, max(2, min(half, 1 << 12)))
        return rnd.randrange(-half // 2, half // 2 + 1), b
    if op == "pow":
        return rnd.randrange(-3, 4), rnd.randrange(0, 4)
    if op in ("lshift", "rshift"):
        return rnd.randrange(0, max(1, half // 4)), rnd.randrange(0, max(1, min(bl, 6)))
    if op in ("and", "xor", "or"):
        return rnd.randrange(0, half), rnd.randrange(0, half)
    return rnd.randrange(-half // 2, half // 2 + 1), rnd.randrange(-half // 2, half // 2 + 1)


def op_case(rnd, cid, profile="mixed", ops=None, kinds=None, p=BN128):
    """one operator applied to two fresh operands, then a few uses of the result"""
    malformed = rnd.random() < 0.15
    cfg = cfg_for(rnd, malformed_cfg=malformed and profile != "valid", big=rnd.random() < 0.03, p=p)
    if profile == "ignore":
        cfg["ign"] = 1
    b = Builder(rnd, cfg)
    op = rnd.choice(ops or BINOPS)
    ka, kb = rnd.choice(kinds or PAIR_KINDS)
    if not malformed and ka in "LI" and kb in "LI":
        va, vb = domain_values(rnd, op, cfg["bl"], ka, kb)
        ra = b.operand(ka, value=va); rb = b.operand(kb, value=vb)
    else:
        ra = b.operand(ka, malformed and rnd.random() < 0.7)
        if op in ("lshift", "rshift", "pow") and kb == "I":
            # plain shift counts / exponents stay small: `1 << 2**40` would exhaust memory, not test anything
            e = rnd.choice([0, 1, 2, 3, cfg["bl"] - 1, cfg["bl"], cfg["bl"] + 1, -1, -2, 40, 300])
            if op == "pow" and ka == "X":
                # a fixed-point power is e rescaling products of bitlength bits each: the model interpreter needs minutes for 129 of them
                # at 128 bits; the product exponent x width stays bounded (every branch of the loop is still reached)
                e = min(e, max(3, 2000 // cfg["bl"]))
            rb = b.operand("I", value=e)
        else:
            rb = ra if (rnd.random() < 0.05 and ka == kb) else b.operand(kb, malformed and rnd.random() < 0.7)
    rr = b.emit(f"bin {op} r{ra} r{rb}", result_kind(op, ka, kb))
    follow_ups(rnd, b, rr)
    return Case(cid, cfg, b.ins, {"shape": "op", "op": op, "kinds": ka + kb, "malformed": malformed})


def edge_values(rnd, bl, p):
    """the boundary grid of the bitlength range (every threshold the code tests), plus the field boundary"""
    half = 1 << max(bl - 1, 0); full = 1 << bl
    vs = [0, 1, -1, 2, half - 1, half, half + 1, -half, -half + 1, -half - 1, full - 1, full, full + 1, -full, -full - 1,
          2 * full, rnd.randrange(full, 16 * full + 2), -rnd.randrange(full, 16 * full + 2), rnd.randrange(0, max(half, 1))]
    if rnd.random() < 0.1:
        vs += [p, -p, 2 * p, p - 1, p + 1]
    return vs


def edge_case(rnd, cid, p=BN128):
    """one operator on operands taken from the boundary grid: every (threshold, threshold) pairing is reachable,
    shift counts / exponents / widths sit on both sides of the bitlength"""
    cfg = cfg_for(rnd, p=p)
    bl = cfg["bl"]
    b = Builder(rnd, cfg)
    op = rnd.choice(BINOPS + ["rshift", "lshift", "pow", "floordiv", "mod"])
    ka, kb = rnd.choice([("L", "L"), ("L", "I"), ("L", "I"), ("I", "L"), ("B", "I"), ("B", "L"), ("L", "B")])
    va = rnd.choice(edge_values(rnd, bl, p))
    if op in ("lshift", "rshift", "pow"):
        vb = rnd.choice([0, 1, 2, bl - 1, bl, bl + 1, 2 * bl, -1, 40])
    else:
        vb = rnd.choice(edge_values(rnd, bl, p))
    if ka == "B":
        va = rnd.choice([0, 1, 1, 2, -1])
    if kb == "B":
        vb = rnd.choice([0, 1, 1, 2, -1])
    ra = b.operand(ka, value=va); rb = b.operand(kb, value=vb)
    rr = b.emit(f"bin {op} r{ra} r{rb}", result_kind(op, ka, kb))
    follow_ups(rnd, b, rr)
    return Case(cid, cfg, b.ins, {"shape": "op", "op": op, "kinds": ka + kb, "malformed": True, "edge": True})



def follow_ups(rnd, b, rr):
    """uses of a result that make an incoherent value or an unsatisfied constraint visible later"""
    k = b.kinds[rr]
    if k == "T":
        q = b.emit(f"idx r{rr} 0", "?"); b.emit(f"idx r{rr} 1", "?")
        rr = q
    n = rnd.randrange(0, 3)
    for _ in range(n):
        c = rnd.random()
        if c < 0.4:
            o = b.operand("L", value=rnd.randrange(1, 4))
            rr = b.emit(f"bin mul r{rr} r{o}", "?")
        elif c < 0.6:
            o = b.operand("L", value=rnd.randrange(-3, 4))
            rr = b.emit(f"bin add r{rr} r{o}", "?")
        elif c < 0.8:
            b.emit(f"call val r{rr}", "I")
        else:
            o = b.operand("I", value=rnd.randrange(0, 3))
            rr = b.emit(f"bin eq r{rr} r{o}", "B")


def unop_case(rnd, cid, p=BN128):
    malformed = rnd.random() < 0.15
    cfg = cfg_for(rnd, malformed_cfg=malformed, p=p)
    b = Builder(rnd, cfg)
    op = rnd.choice(UNOPS)
    ka = rnd.choice(["L", "L", "B", "X"])
    if ka == "L" and not malformed:
        half = 1 << max(cfg["bl"] - 1, 0)
        ra = b.operand("L", value=rnd.randrange(0 if op == "invert" else -half + 1, half))
    else:
        ra = b.operand(ka, malformed)
    rr = b.emit(f"un {op} r{ra}", "?")
    follow_ups(rnd, b, rr)
    return Case(cid, cfg, b.ins, {"shape": "un", "op": op, "kinds": ka, "malformed": malformed})


def method_case(rnd, cid, p=BN128, meths=None):
    malformed = rnd.random() < 0.2
    cfg = cfg_for(rnd, malformed_cfg=malformed, p=p)
    b = Builder(rnd, cfg)
    bl = cfg["bl"]; half = 1 << max(bl - 1, 0)
    m = rnd.choice(meths or (ASSERTS + ["assert_range", "assert_zero", "assert_nonzero", "assert_positive",
                            "check_positive", "check_zero", "check_nonzero", "to_bits", "val", "if_else",
                            "to_bits_rt"]))
    ka = rnd.choice(["L", "L", "L", "B", "X"])
    meta = {"shape": "meth", "op": m, "kinds": ka, "malformed": malformed}
    if m in ASSERTS:
        kb = rnd.choice(["L", "I", "L", "I", "B", "X", "F"])
        va = rnd.randrange(-half // 2, half // 2 + 1)
        rel = rnd.choice(["below", "equal", "above", "above1", "below1"])
        vb = {"below": va - rnd.randrange(1, 4), "equal": va, "above": va + rnd.randrange(1, 4), "above1": va + 1,
              "below1": va - 1}[rel]
        if malformed:
            vb = va + rnd.choice([1, -1]) * rnd.randrange(half, 4 * half + 2)
        if ka == "B":
            va = rnd.choice([0, 1]); vb = rnd.choice([0, 1])
        ra = b.operand(ka, value=va if ka != "X" else None)
        rb = b.operand(kb, value=vb if kb in "LI" else None)
        b.emit(f"call {m} r{ra} r{rb}", "N")
        meta["kinds"] = ka + kb
    elif m == "assert_range":
        va = rnd.randrange(-half // 2, half // 2 + 1)
        lo = va - rnd.choice([0, 0, 1, 2, -1])
        hi = va + rnd.choice([0, 1, 1, 2, 3, -1])
        if malformed:
            hi = va + rnd.randrange(half, 3 * half + 2)
        ra = b.operand("L" if ka == "B" else ka, value=va if ka != "X" else None)
        rl = b.operand(rnd.choice(["I", "L"]), value=lo)
        rh = b.operand(rnd.choice(["I", "L"]), value=hi)
        b.emit(f"call assert_range r{ra} r{rl} r{rh}", "N")
    elif m in ("assert_positive", "check_positive", "to_bits"):
        n = rnd.choice([None, None, 0, 1, 2, 3, bl, bl + 1, bl - 1 if bl > 1 else 1, 2 * bl])
        v = rnd.choice([0, 1, half - 1, half, -1, -half, (1 << bl) - 1, 1 << bl, rnd.randrange(-half, 2 * half + 1)])
        if n is not None:
            v = rnd.choice([v, (1 << n) - 1, 1 << n, (1 << n) + 1, (1 << n) // 2, -(1 << n), -(1 << n) - 1])
        if m == "to_bits":
            ka = "L"
        ra = b.operand(ka, value=v if ka == "L" else None)
        if n is None or ka != "L":
            rr = b.emit(f"call {m} r{ra}", "?")
        else:
            rn = b.int_lit(n)
            rr = b.emit(f"call {m} r{ra} r{rn}", "?")
        if m == "to_bits":
            b.emit(f"call from_bits r{rr}", "?")
        meta["width"] = n
    elif m == "to_bits_rt":
        # decomposition, recomposition and comparison with the original
        n = rnd.choice([None, 1, 2, 3, 5, bl, bl + 3])
        w = n if n is not None else bl
        v = rnd.randrange(0, 1 << w) if not malformed else rnd.choice([1 << w, (1 << w) + 1, -1])
        ra = b.operand("L", value=v)
        if n is None:
            rr = b.emit(f"call to_bits r{ra}", "?")
        else:
            rn = b.int_lit(n); rr = b.emit(f"call to_bits r{ra} r{rn}", "?")
        rf = b.emit(f"call from_bits r{rr}", "?")
        b.emit(f"call val r{rf}" if w > 0 else "lit n", "I")
        meta["op"] = "to_bits"; meta["width"] = n
    elif m in ("assert_zero", "check_zero", "check_nonzero", "assert_nonzero"):
        v = rnd.choice([0, 0, 1, -1, rnd.randrange(-half, half + 1), p, -p, 2 * p])
        ra = b.operand(ka, value=v if ka == "L" else (v % 2 if ka == "B" else None))
        rr = b.emit(f"call {m} r{ra}", "?")
        if m.startswith("check") and rnd.random() < 0.5:
            follow_ups(rnd, b, rr)
    elif m == "val":
        ra = b.operand(ka, malformed)
        b.emit(f"call val r{ra}", "I")
    elif m == "if_else":
        ka = rnd.choice(["L", "B", "B", "B"])
        ra = b.operand(ka, value=rnd.choice([0, 1]) if not malformed else rnd.choice([0, 1, 2, -1, 3]))
        rt = b.operand(rnd.choice("LIXB"), False); rf = b.operand(rnd.choice("LIXB"), False)
        rr = b.emit(f"call if_else r{ra} r{rt} r{rf}", "?")
        meta["kinds"] = ka
    return Case(cid, cfg, b.ins, meta)


def ite_case(rnd, cid, p=BN128):
    malformed = rnd.random() < 0.15
    cfg = cfg_for(rnd, malformed_cfg=malformed, p=p)
    b = Builder(rnd, cfg)
    kc = rnd.choice(["B", "B", "B", "cmp", "cmp", "I", "L"])
    if kc == "cmp":
        x = b.operand("L"); y = b.operand(rnd.choice("LI"))
        rc = b.emit(f"bin {rnd.choice(CMPS)} r{x} r{y}", "B")
    else:
        rc = b.operand(kc, malformed, value=None if malformed else rnd.choice([0, 1]))
    shape = rnd.random()
    if shape < 0.12:
        # a selection between two booleans is a boolean (`LinCombBool(ret, False)`): the pair has its own share of the cases
        kt = kf = "B"
        rt = b.operand("B"); rf = rt if rnd.random() < 0.05 else b.operand("B")
    elif shape < 0.7:
        kt = rnd.choice("LLIXBF"); kf = rnd.choice("LLIXBF")
        rt = b.operand(kt); rf = rt if rnd.random() < 0.05 else b.operand(kf)
    else:
        n = rnd.randrange(0, 4)
        ts = [b.operand(rnd.choice("LLIX")) for _ in range(n)]
        fs = [b.operand(rnd.choice("LLIX")) for _ in range(n + rnd.choice([0, 0, 0, 1]))]
        rt = b.emit("list " + " ".join(f"r{t}" for t in ts), "list")
        rf = b.emit("list " + " ".join(f"r{t}" for t in fs), "list")
        kt = kf = "list"
    rr = b.emit(f"ite r{rc} r{rt} r{rf}", "?")
    if kt == kf == "B" and rnd.random() < 0.6:
        # the result is used AS a boolean: logical NOT, `&` with a boolean, the condition of a second selection
        c = rnd.random()
        if c < 0.35:
            b.emit(f"un invert r{rr}", "B")
        elif c < 0.65:
            o = b.operand("B"); b.emit(f"bin {rnd.choice(['and', 'or', 'xor'])} r{rr} r{o}", "B")
        else:
            t2 = b.operand("L"); f2 = b.operand("L"); b.emit(f"ite r{rr} r{t2} r{f2}", "?")
    if kt != "list":
        follow_ups(rnd, b, rr)
    return Case(cid, cfg, b.ins, {"shape": "ite", "op": "ite", "kinds": kc + ":" + kt + kf, "malformed": malformed})


def chain_case(rnd, cid, p=BN128, nops=None):
    """a composed program: several operations over a growing pool of values"""
    malformed = rnd.random() < 0.1
    cfg = cfg_for(rnd, malformed_cfg=malformed, p=p)
    if cfg["bl"] < 6:
        cfg["bl"] = rnd.choice([8, 12, 16])
    b = Builder(rnd, cfg)
    q = 1 << (cfg["bl"] // 4)
    for _ in range(rnd.randrange(2, 5)):
        b.operand(rnd.choice("LLLBXI"), value=None if rnd.random() < 0.3 else rnd.randrange(0, 2))
    b.operand("L", value=rnd.randrange(-q, q + 1)); b.operand("L", value=rnd.randrange(1, q + 1))
    ops_used = []
    for _ in range(nops or rnd.randrange(3, 9)):
        c = rnd.random()
        secrets = b.regs_of("LBX?")
        anyv = b.regs_of("LBXI?")
        if c < 0.55:
            op = rnd.choice(ARITH + ARITH + CMPS + ["floordiv", "mod", "and", "or", "xor", "truediv", "rshift", "lshift"])
            a = rnd.choice(secrets); bb = rnd.choice(anyv)
            if op in ("lshift", "rshift", "pow"):
                bb = b.int_lit(rnd.randrange(0, 4))
            b.emit(f"bin {op} r{a} r{bb}", result_kind(op, b.kinds[a], b.kinds[bb]) if "?" not in (b.kinds[a], b.kinds[bb]) else "?")
            ops_used.append(op)
        elif c < 0.65:
            op = rnd.choice(UNOPS)
            a = rnd.choice(secrets)
            b.emit(f"un {op} r{a}", "?"); ops_used.append(op)
        elif c < 0.8:
            cs = b.regs_of("B")
            if cs:
                t = rnd.choice(anyv); f = rnd.choice(anyv)
                b.emit(f"ite r{rnd.choice(cs)} r{t} r{f}", "?"); ops_used.append("ite")
        elif c < 0.9:
            a = rnd.choice(secrets)
            m = rnd.choice(["assert_positive", "check_positive", "check_zero", "val"] + ASSERTS)
            if m in ASSERTS:
                b.emit(f"call {m} r{a} r{rnd.choice(anyv)}", "N")
            else:
                b.emit(f"call {m} r{a}", "B" if m.startswith("check") else "N")
            ops_used.append(m)
        else:
            a = rnd.choice(secrets)
            b.emit(f"call val r{a}", "I"); ops_used.append("val")
    return Case(cid, cfg, b.ins, {"shape": "chain", "op": "+".join(sorted(set(ops_used))), "kinds": "*",
                                  "malformed": malformed})


def guarded_case(rnd, cid, p=BN128, depth=None):
    """a body under `guarded(cond)` regions; conditions are raw LinCombs with value 0/1 (LinCombBool
    guards are rejected by add_guard on the pinned tree)"""
    cfg = cfg_for(rnd, p=p)
    if cfg["bl"] < 4:
        cfg["bl"] = 8
    bl = cfg["bl"]; half = 1 << (bl - 1)
    b = Builder(rnd, cfg)
    depth = depth or rnd.choice([1, 1, 1, 2, 2, 3])
    gvals = [rnd.choice([0, 1]) for _ in range(depth)]
    tails = depth >= 2 and rnd.random() < 0.6
    if tails and rnd.random() < 0.5:
        # the combination in which a stale inner state shows: every enclosing condition true, the region left last not taken
        gvals = [1] * (depth - 1) + [0]
        if depth == 3 and rnd.random() < 0.4:
            gvals = rnd.choice([[1, 0, 1], [1, 0, 0], [1, 1, 0]])
    bad_guard = rnd.random() < 0.05
    pool = [b.operand("L", value=rnd.choice([0, 1, -1, half - 1, half, rnd.randrange(-half, half)])) for _ in range(3)]
    pool.append(b.operand("L", value=rnd.choice([0, 0, 1, 3])))
    gk = rnd.choice(["L", "L", "L", "B", "I"])
    # a NESTED region whose own condition is a raw secret integer that is not 0/1, below valid outer conditions: under a false
    # outer guard entering it is part of the dead code (add_guard tolerates the value when errors are suppressed) and must not raise
    bad_inner = None
    if depth >= 2 and not bad_guard and rnd.random() < 0.12:
        bad_inner = rnd.randrange(1, depth)
        if rnd.random() < 0.7:
            gvals[rnd.randrange(0, bad_inner)] = 0
    grs = []
    for j, g in enumerate(gvals):
        v = g if not bad_guard else rnd.choice([2, -1])
        if j == bad_inner:
            gvals[j] = v = rnd.choice([5, -2, 2, 3, -1])
            grs.append(b.operand("L", value=v))
            continue
        grs.append(b.operand(gk, value=v))
    for gr in grs:
        b.emit(f"genter r{gr}", "N")
    bodyops = []
    for _ in range(rnd.randrange(1, 5)):
        a = rnd.choice(pool); c = rnd.choice(pool)
        kind = rnd.random()
        if kind < 0.5:
            op = rnd.choice(["lt", "le", "ge", "eq", "ne", "mul", "truediv", "floordiv", "mod", "add", "and", "rshift", "pow"])
            if op == "pow":
                # a PUBLIC exponent 0 / 1 / 2: `x ** 0` is the constant one OF THE CURRENT REGION (LinComb.ONE is the guard wire there), `x ** 1`
                # the operand object itself; the result goes on into the arithmetic of the region and of the code after it
                c = b.int_lit(rnd.choice([0, 0, 0, 1, 2]))
            if op == "rshift" and rnd.random() < 0.8:
                c = b.int_lit(rnd.randrange(0, 3))          # else: a secret shift count from the pool
            if op == "truediv" and rnd.random() < 0.5:
                c = b.int_lit(rnd.choice([1, 2, 3, -2, 0]))
            r = b.emit(f"bin {op} r{a} r{c}", "?"); bodyops.append(op)
            if op in ("mul", "add", "truediv", "pow") and rnd.random() < 0.7:
                pool.append(r)
        elif kind < 0.55:
            b.emit(f"wrapb r{a}", "B"); bodyops.append("wrapb")      # LinCombBool(x): declaration as boolean
        elif kind < 0.85:
            m = rnd.choice(ASSERTS + ["assert_zero", "assert_nonzero", "assert_positive", "check_positive", "to_bits"])
            if m in ASSERTS:
                b.emit(f"call {m} r{a} r{c}", "N")
            else:
                b.emit(f"call {m} r{a}", "?")
            bodyops.append(m)
        else:
            b.emit(f"call assert_range r{a} r{b.int_lit(rnd.randrange(-2, 2))} r{b.int_lit(rnd.randrange(0, 5))}", "N")
            bodyops.append("assert_range")
    # code BETWEEN an inner `gleave` and the enclosing one: it runs after an inner region has been left while outer regions are
    # still active, so the guard, the error mode and LinComb.ONE must be those of the ENCLOSING region again (not of the region just
    # left, not of the top level).  The instructions are the ones that read that state: assert_nonzero / assert_ne (constraint against
    # LinComb.ONE), assertions and arithmetic with plain-int operands (`_ensurelc` builds the constant from LinComb.ONE), comparisons.
    tailops = []
    for lvl in range(depth - 1, -1, -1):
        b.emit("gleave", "N")
        if tails and lvl >= 1:
            for _ in range(rnd.randrange(1, 4)):
                tailops.append(tail_instr(rnd, b, bl))
    # code after the region: must behave as unguarded
    a = rnd.choice(pool[:4])
    o = b.operand("L", value=rnd.randrange(0, 3))
    r = b.emit(f"bin mul r{a} r{o}", "?")
    b.emit(f"call val r{r}", "I")
    if tails and rnd.random() < 0.5:
        tailops.append(tail_instr(rnd, b, bl))
    return Case(cid, cfg, b.ins, {"shape": "guarded", "op": "+".join(sorted(set(bodyops))), "kinds": gk,
                                  "gvals": gvals, "depth": depth, "malformed": bad_guard or bad_inner is not None,
                                  "bad_inner": bad_inner, "tail": "+".join(sorted(set(tailops))) or None})


def tail_instr(rnd, b, bl):
    """one instruction (on fresh small operands, valid for the data) whose constraints or constants depend on the CURRENT guard triple"""
    q = min(1 << (bl - 2), 6)
    x = rnd.randrange(-q, q + 1)
    k = rnd.choice(["assert_nonzero", "assert_nonzero", "assert_ne", "assert_ne", "assert_int", "arith_int", "cmp_int", "eq_int", "cmp",
                    "rshift", "to_bits"])
    mk = lambda v: b.emit(f"mk {rnd.choice(['priv', 'priv', 'pub'])} r{b.int_lit(v)}", "L")
    if k == "assert_nonzero":
        b.emit(f"call assert_nonzero r{mk(x or 1)}", "N")
    elif k == "assert_ne":
        y = x + rnd.choice([1, -1, 2, -3])
        ry = b.int_lit(y) if rnd.random() < 0.5 else mk(y)
        b.emit(f"call assert_ne r{mk(x)} r{ry}", "N")
    elif k == "assert_int":
        m, y = rnd.choice([("assert_lt", x + rnd.randrange(1, 3)), ("assert_le", x + rnd.randrange(0, 3)), ("assert_gt", x - rnd.randrange(1, 3)),
                           ("assert_ge", x - rnd.randrange(0, 3)), ("assert_eq", x)])
        b.emit(f"call {m} r{mk(x)} r{b.int_lit(y)}", "N")
    elif k == "arith_int":
        r = b.emit(f"bin {rnd.choice(['add', 'sub', 'mul'])} r{mk(x)} r{b.int_lit(rnd.randrange(-3, 4))}", "L")
        b.emit(f"call {rnd.choice(['val', 'check_zero', 'check_positive'])} r{r}" if rnd.random() < 0.7 else f"bin mul r{r} r{r}", "?")
    elif k in ("cmp_int", "eq_int"):
        op = rnd.choice(["lt", "le", "gt", "ge"]) if k == "cmp_int" else rnd.choice(["eq", "ne"])
        r = b.emit(f"bin {op} r{mk(x)} r{b.int_lit(x + rnd.randrange(-2, 3))}", "B")
        if rnd.random() < 0.5:
            b.emit(f"call val r{r}", "I")
    elif k == "cmp":
        b.emit(f"bin {rnd.choice(CMPS)} r{mk(x)} r{mk(x + rnd.randrange(-2, 3))}", "B")
    elif k == "rshift":
        b.emit(f"bin rshift r{mk(abs(x))} r{b.int_lit(rnd.randrange(0, 3))}", "L")
    else:
        b.emit(f"call to_bits r{mk(abs(x))}", "list")
    return k


def array_case(rnd, cid, p=BN128):
    malformed = rnd.random() < 0.2
    cfg = cfg_for(rnd, malformed_cfg=malformed and rnd.random() < 0.5, p=p)
    if cfg["bl"] < 4:
        cfg["bl"] = 8
    b = Builder(rnd, cfg)
    n = rnd.randrange(1, 6)
    q = 1 << (cfg["bl"] // 2 - 1)
    elems = [b.operand(rnd.choice("LLLI"), value=rnd.randrange(-q, q + 1)) for _ in range(n)]
    arr = b.emit("arr " + " ".join(f"r{e}" for e in elems), "A")
    hist = []
    for _ in range(rnd.randrange(1, 5)):
        iv = rnd.randrange(0, n) if not malformed or rnd.random() < 0.5 else rnd.choice([n, -1, n + 1, -n])
        ik = rnd.choice(["L", "L", "L", "I"])
        idx = b.operand(ik, value=iv)
        if rnd.random() < 0.5:
            r = b.emit(f"aget r{arr} r{idx}", "?"); hist.append("get")
            if rnd.random() < 0.5:
                b.emit(f"call val r{r}", "I")
        else:
            v = b.operand(rnd.choice("LLI"), value=rnd.randrange(-q, q + 1))
            b.emit(f"aset r{arr} r{idx} r{v}", "N"); hist.append("set")
    for k in range(n):
        b.emit(f"aget r{arr} r{b.int_lit(k)}", "?")
    return Case(cid, cfg, b.ins, {"shape": "array", "op": "+".join(hist), "kinds": f"n{n}", "malformed": malformed})


def cancel_case(rnd, cid, p=BN128):
    """linear combinations in which a wire or the constant term cancels exactly, then used in a constraint"""
    cfg = cfg_for(rnd, p=p)
    if cfg["bl"] < 6:
        cfg["bl"] = 8
    b = Builder(rnd, cfg)
    q = 1 << (cfg["bl"] // 2 - 1)
    x = b.operand("L", value=rnd.randrange(-q, q)); y = b.operand(rnd.choice("LLBI"), value=rnd.randrange(0, 2))
    z = b.operand("L", value=rnd.randrange(1, q))
    pat = rnd.randrange(6)
    if pat == 0:
        t = b.emit(f"bin add r{x} r{y}", "L"); u = b.emit(f"bin sub r{t} r{y}", "L")
    elif pat == 1:
        u = b.emit(f"bin sub r{x} r{x}", "L")
    elif pat == 2:
        c = b.int_lit(rnd.randrange(1, 5)); t = b.emit(f"bin add r{x} r{c}", "L"); u = b.emit(f"bin sub r{t} r{c}", "L")
    elif pat == 3:
        t = b.emit(f"bin sub r{x} r{z}", "L"); u = b.emit(f"bin add r{t} r{z}", "L")
    elif pat == 4:
        k = b.int_lit(rnd.randrange(2, 5)); t = b.emit(f"bin mul r{z} r{k}", "L"); t2 = b.emit(f"bin add r{x} r{t}", "L")
        t3 = b.emit(f"bin sub r{t2} r{z}", "L"); u = t3
        for _ in range(3):
            u = b.emit(f"bin sub r{u} r{z}", "L")
    else:
        t = b.emit(f"un neg r{x}", "L"); u = b.emit(f"bin add r{t} r{x}", "L")
    r = b.emit(f"bin mul r{u} r{z}", "L")
    b.emit(f"bin lt r{u} r{z}", "B")
    b.emit(f"call val r{r}", "I")
    return Case(cid, cfg, b.ins, {"shape": "cancel", "op": f"pattern{pat}", "kinds": b.kinds[y], "malformed": False})


def reuse_case(rnd, cid, p=BN128):
    """the SAME secret register is used by a bit-splitting operation twice: first inside a guarded region (condition 0: the
    region is dead, errors are suppressed there; condition 1; or no region), then again after it.  The operand lies inside,
    on the boundary of, or outside [0, 2^bitlength): whatever happened to the object inside a dead region, the later use
    must give Python's value or raise"""
    cfg = cfg_for(rnd, p=p)
    if cfg["bl"] < 4:
        cfg["bl"] = rnd.choice([4, 8, 16])
    bl = cfg["bl"]; half = 1 << (bl - 1); full = 1 << bl
    b = Builder(rnd, cfg)
    cls = rnd.choice(["inside", "inside", "negative", "negative", "wide", "wide", "boundary"])
    v = {"inside": rnd.randrange(0, half), "negative": -rnd.randrange(1, half), "wide": rnd.randrange(full, 4 * full + 2),
         "boundary": rnd.choice([half - 1, half, full - 1, full, -half, -1])}[cls]
    x = b.emit(f"mk {rnd.choice(['priv', 'priv', 'pub'])} r{b.int_lit(v)}", "L")
    y = b.operand(rnd.choice("LLI"), value=rnd.randrange(0, min(half, 64)))
    e = b.operand("L", value=rnd.randrange(0, 3))

    def bitop():
        c = rnd.choice(["rshift", "rshift", "and", "or", "xor", "rand", "invert", "to_bits", "to_bits_w", "check_positive", "pow", "lshift"])
        if c == "rshift":
            return b.emit(f"bin rshift r{x} r{b.int_lit(rnd.randrange(0, 3))}", "?"), c
        if c in ("and", "or", "xor"):
            return b.emit(f"bin {c} r{x} r{y}", "?"), c
        if c == "rand":
            return b.emit(f"bin and r{y} r{x}", "?"), "and"
        if c == "invert":
            return b.emit(f"un invert r{x}", "?"), c
        if c == "to_bits":
            return b.emit(f"call to_bits r{x}", "?"), c
        if c == "to_bits_w":
            return b.emit(f"call to_bits r{x} r{b.int_lit(rnd.choice([bl, bl - 1, bl + 1]))}", "?"), "to_bits"
        if c == "check_positive":
            return b.emit(f"call check_positive r{x}", "?"), c
        # x as a secret exponent / shift count (split into bits by the square-and-multiply loop)
        return b.emit(f"bin {c} r{e} r{x}", "?"), c
    region = rnd.choice(["dead", "dead", "dead", "live", "none"])
    used = []
    if region != "none":
        g = b.operand(rnd.choice("LB"), value=0 if region == "dead" else 1)
        b.emit(f"genter r{g}", "N")
    for _ in range(rnd.randrange(1, 3)):
        used.append(bitop()[1])
    if region != "none":
        b.emit("gleave", "N")
    for _ in range(rnd.randrange(1, 3)):
        r, nm = bitop(); used.append(nm)
        if b.ins[r].startswith(("bin", "un")) and rnd.random() < 0.5:
            b.emit(f"call val r{r}", "I")
    return Case(cid, cfg, b.ins, {"shape": "reuse", "op": "+".join(sorted(set(used))), "kinds": f"{cls}:{region}", "malformed": cls != "inside"})


def fieldsize_pow_case(rnd, cid, p=BN128):
    """powers and shifts with a SECRET exponent whose exact result lies around the field size: base ** e and k << e with
    base^e in roughly [p/8, 8p) (exponents floor(log_base p) - 2 .. + 1): below p/2, between p/2 and p (still an ordinary
    non-negative integer below the prime: Python's value must come back), and above p"""
    import math
    cfg = cfg_for(rnd, p=p); cfg["ign"] = 0
    b = Builder(rnd, cfg)
    form = rnd.choice(["rpow", "rpow", "pow", "lshift"])
    base = 2 if form == "lshift" else rnd.choice([2, 2, 3, 5, 7, 10, -2, -3, 6])
    top = int(math.log(p) / math.log(abs(base)))
    while abs(base) ** (top + 1) <= p: top += 1
    while abs(base) ** top > p: top -= 1                      # |base|^top <= p < |base|^(top+1)
    e = max(0, top + rnd.choice([-2, -1, -1, 0, 0, 0, 1]))
    cfg["bl"] = b.cfg["bl"] = rnd.choice([w for w in (8, 9, 12, 16, 32) if e < (1 << w)] or [32])     # the exponent is split into bitlength bits
    re_ = b.emit(f"mk {rnd.choice(['priv', 'priv', 'pub'])} r{b.int_lit(e)}", "L")
    if form == "rpow":
        rr = b.emit(f"bin pow r{b.int_lit(base)} r{re_}", "L")
    elif form == "pow":
        rb = b.emit(f"mk {rnd.choice(['priv', 'pub', 'const'])} r{b.int_lit(base)}", "L")
        rr = b.emit(f"bin pow r{rb} r{re_}", "L")
    else:
        k = rnd.choice([1, 1, 1, 3])
        rk = b.emit(f"mk priv r{b.int_lit(k)}", "L") if rnd.random() < 0.7 else b.int_lit(k)
        rr = b.emit(f"bin lshift r{rk} r{re_}", "L")
    if rnd.random() < 0.5:
        b.emit(f"call val r{rr}", "I")
    return Case(cid, cfg, b.ins, {"shape": "op", "op": "pow" if form != "lshift" else "lshift", "kinds": "fieldsize:" + form, "malformed": False})


def inplace_case(rnd, cid, p=BN128, fx=False):
    """augmented assignment on a SECOND REFERENCE of a value: `t = a; t op= x` (instruction `iop op rA rX`, a new register for t),
    followed by reads of the original `a` (and of `t`, possibly after a further `t op2= y`).  Values are immutable: whatever the
    library does for `op=`, `a` still is what it was.  fx: fixed-point receivers / operands (C14), else int / bool (C05)."""
    if fx:
        res = rnd.choice([0, 1, 4, 8]); bl = rnd.choice([16, 24, 32]) + res
        cfg = {"p": p, "bl": bl, "res": res, "ign": 0}
    else:
        cfg = cfg_for(rnd, p=p); cfg["ign"] = 0
        if cfg["bl"] < 8:
            cfg["bl"] = rnd.choice([8, 12, 16])
    bl = cfg["bl"]; res = cfg["res"]
    q = 1 << max(2, min(bl // 4, 6))
    b = Builder(rnd, cfg)

    def fxv(nonzero=False):
        if rnd.random() < 0.5:
            a = b.int_lit(rnd.randrange(-20, 21) or (1 if nonzero else 0))
        else:
            a = b.flt_lit(rnd.randrange(-100, 101) or (1 if nonzero else 0), rnd.choice([0, 1, res]) if res else 0)
        return b.emit(f"mk {rnd.choice(X_KINDS)} r{a}", "X")

    def operand(k, v, nonzero=False):
        if k == "X":
            return fxv(nonzero)
        if k == "F":
            return b.flt_lit(rnd.randrange(-100, 101) or 1, rnd.choice([0, 1, res]) if res else 0)
        if k == "B":
            return b.emit(f"mk {rnd.choice(B_KINDS)} r{b.int_lit(1 if nonzero else rnd.choice([0, 1]))}", "B")
        if k == "I":
            return b.int_lit(v)
        return b.emit(f"mk {rnd.choice(['priv', 'priv', 'pub'])} r{b.int_lit(v)}", "L")

    if fx:
        ka, kb = rnd.choice([("X", "X"), ("X", "X"), ("X", "L"), ("X", "I"), ("X", "F"), ("X", "B"), ("L", "X"), ("B", "X")])
        op = rnd.choice(["add", "add", "sub", "sub", "mul", "truediv", "floordiv", "mod"])
        lo = -q
    else:
        ka, kb = rnd.choice([("L", "L"), ("L", "L"), ("L", "I"), ("L", "B"), ("B", "B"), ("B", "L"), ("B", "I"), ("I", "L")])
        op = rnd.choice(["add", "add", "sub", "sub", "mul", "mul", "floordiv", "mod", "truediv", "and", "or", "xor", "lshift", "rshift", "pow"])
        lo = 0 if op in ("and", "or", "xor", "lshift", "rshift") else -q
        if ka == "B" and rnd.random() < 0.6:
            op = rnd.choice(["and", "or", "xor"])
    nz = op in ("truediv", "floordiv", "mod")
    va = rnd.randrange(lo, q + 1); vx = rnd.randrange(1 if nz else lo, q + 1)
    if op == "truediv" and not fx:
        vx = rnd.randrange(1, 5); va = vx * rnd.randrange(-q // 4, q // 4 + 1)        # exact
    a = operand(ka, va)
    if op in ("lshift", "rshift", "pow"):
        x = b.int_lit(rnd.randrange(0, 4)); kb = "I"
    else:
        x = operand(kb, vx, nonzero=nz)
    t = b.emit(f"iop {op} r{a} r{x}", "?")
    used = [op]
    reads = []
    for _ in range(rnd.randrange(1, 4)):
        c = rnd.random()
        if c < 0.35 and b.kinds[a] != "I":
            reads.append(b.emit(f"call val r{a}", "I"))
        elif c < 0.6:
            reads.append(b.emit(f"bin add r{a} r{b.int_lit(0)}", "?"))
        elif c < 0.8:
            reads.append(b.emit(f"bin sub r{a} r{x}", "?"))
        else:
            y = operand("X" if fx else "L", rnd.randrange(1, q + 1))
            op2 = rnd.choice(["add", "sub", "mul"])
            t2 = b.emit(f"iop {op2} r{t} r{y}", "?"); used.append(op2)
            b.emit(f"bin add r{t} r{b.int_lit(0)}", "?")       # the first result after a further augmented assignment on ITS second reference
            if rnd.random() < 0.5:
                b.emit(f"call val r{t2}", "I")
    b.emit(f"call val r{t}", "I")
    return Case(cid, cfg, b.ins, {"shape": "inplace", "op": "i" + "+i".join(used), "kinds": ka + kb, "malformed": False})


def generate(rnd, n, prefix, mix=None, p=BN128):
    """mix: list of (weight, generator function)"""
    mix = mix or [(5, op_case), (2, edge_case), (1, unop_case), (2, method_case), (1, ite_case), (2, chain_case), (1, guarded_case),
                  (1, array_case)]
    mix = list(mix) + [(max(1, sum(w for w, _ in mix) // 15), cancel_case)]
    tot = sum(w for w, _ in mix)
    out = []
    for i in range(n):
        x = rnd.random() * tot
        for w, g in mix:
            if x < w:
                out.append(g(rnd, f"{prefix}{i}", p=p))
                break
            x -= w
    return out


def wide_compare_guarded_case(rnd, cid, p=BN128):
    """ordering comparisons / positivity checks whose INTERNAL DIFFERENCE sits on the width boundary of check_positive, inside
    guarded regions whose conditions are (mostly) all true: |difference| has exactly bitlength bits (accepted), bitlength+1 bits
    (one too many: must raise under a true guard, since nothing checks the constraint there; absorbed by the dummy under a
    false one), is exactly -2^bitlength, or has bitlength+2 bits.  `x < y` tests y-x-1, `x <= y` y-x, `x > y` x-y-1, `x >= y` x-y."""
    cfg = cfg_for(rnd, p=p)
    if cfg["bl"] < 4:
        cfg["bl"] = rnd.choice([4, 8, 16])
    cfg["ign"] = 0
    bl = cfg["bl"]; full = 1 << bl
    b = Builder(rnd, cfg)
    depth = rnd.choice([1, 1, 2])
    gvals = [1] * depth
    if rnd.random() < 0.2:
        gvals[rnd.randrange(depth)] = 0
    width = rnd.choice(["bl", "bl+1", "bl+1", "bl+1", "-2^bl", "bl+2"])
    mag = {"bl": rnd.randrange(full // 2, full), "bl+1": rnd.randrange(full, 2 * full), "-2^bl": full,
           "bl+2": rnd.randrange(2 * full, 4 * full)}[width]
    d = -mag if width == "-2^bl" else rnd.choice([1, -1]) * mag           # the value handed to check_positive
    form = rnd.choice(["lt", "le", "gt", "ge", "lt", "ge", "check_positive", "assert_lt", "assert_ge", "check_positive_w"])
    x = rnd.randrange(-mag // 2 - 2, mag // 2 + 3)
    y = {"lt": x + 1 + d, "assert_lt": x + 1 + d, "le": x + d, "gt": x - 1 - d, "ge": x - d, "assert_ge": x - d}.get(form, 0)
    grs = [b.operand(rnd.choice(["L", "L", "B"]), value=g) for g in gvals]
    if form.startswith("check_positive"):
        ra = b.emit(f"mk {rnd.choice(['priv', 'priv', 'pub'])} r{b.int_lit(d)}", "L")
    else:
        ra = b.emit(f"mk {rnd.choice(['priv', 'priv', 'pub'])} r{b.int_lit(x)}", "L")
        rb = b.operand(rnd.choice("LLI"), value=y)
    for gr in grs:
        b.emit(f"genter r{gr}", "N")
    if form == "check_positive":
        rr = b.emit(f"call check_positive r{ra}", "B")
    elif form == "check_positive_w":
        # an explicit width n: the value has n+1 (or n, n+2) bits relative to ITS width
        n = rnd.choice([1, 2, 3, bl - 1, bl + 1, 2 * bl])
        mag_n = {"bl": rnd.randrange((1 << n) // 2, 1 << n), "bl+1": rnd.randrange(1 << n, 2 << n), "-2^bl": 1 << n,
                 "bl+2": rnd.randrange(2 << n, 4 << n)}[width]
        dn = -mag_n if width == "-2^bl" else rnd.choice([1, -1]) * mag_n
        b.ins[ra - 1] = lit_int(dn)
        rr = b.emit(f"call check_positive r{ra} r{b.int_lit(n)}", "B")
    elif form.startswith("assert_"):
        rr = b.emit(f"call {form} r{ra} r{rb}", "N")
    else:
        rr = b.emit(f"bin {form} r{ra} r{rb}", "B")
    if b.kinds[rr] == "B" and rnd.random() < 0.6:
        t = b.operand("L", value=rnd.randrange(0, 9)); f = b.operand("L", value=rnd.randrange(0, 9))
        b.emit(f"ite r{rr} r{t} r{f}", "?")
    for _ in grs:
        b.emit("gleave", "N")
    o = b.operand("L", value=rnd.randrange(0, 3))
    r = b.emit(f"bin mul r{ra} r{o}", "?")
    b.emit(f"call val r{r}", "I")
    return Case(cid, cfg, b.ins, {"shape": "guarded", "op": form.replace("_w", ""), "kinds": f"difference-width:{width}",
                                  "gvals": gvals, "depth": depth, "malformed": width != "bl"})


def from_bits_digits_case(rnd, cid, p=BN128):
    """the public `LinComb.from_bits` on lists whose elements are SECRETS WITH VALUES OUTSIDE {0,1}: carry-save digits xi+yi of
    two bit vectors, signed digits -1/0/1, overlapping limbs 0..7, arbitrary small and negative integers, mixed with proper
    bits; the recombined value is then published / multiplied / compared (a wrong shadow value shows in a later constraint)"""
    cfg = cfg_for(rnd, p=p)
    if cfg["bl"] < 6:
        cfg["bl"] = rnd.choice([8, 12, 16])
    cfg["ign"] = 1 if rnd.random() < 0.15 else 0
    b = Builder(rnd, cfg)
    n = rnd.randrange(1, 7)
    style = rnd.choice(["carry-save", "carry-save", "signed", "limbs", "small", "mixed"])
    elems = []
    for i in range(n):
        st = style if style != "mixed" else rnd.choice(["carry-save", "signed", "limbs", "small", "bit"])
        mk = rnd.choice(["priv", "priv", "pub"])
        if st == "carry-save":
            xa = b.emit(f"mk {rnd.choice(B_KINDS + ['priv'])} r{b.int_lit(rnd.choice([0, 1, 1]))}", "B")
            ya = b.emit(f"mk {rnd.choice(B_KINDS + ['priv'])} r{b.int_lit(rnd.choice([0, 1, 1]))}", "B")
            elems.append(b.emit(f"bin add r{xa} r{ya}", "L"))
        elif st == "signed":
            elems.append(b.emit(f"mk {mk} r{b.int_lit(rnd.choice([-1, -1, 0, 1]))}", "L"))
        elif st == "limbs":
            elems.append(b.emit(f"mk {mk} r{b.int_lit(rnd.randrange(0, 8))}", "L"))
        elif st == "small":
            elems.append(b.emit(f"mk {mk} r{b.int_lit(rnd.randrange(-9, 10))}", "L"))
        else:
            elems.append(b.emit(f"mk {rnd.choice(B_KINDS)} r{b.int_lit(rnd.choice([0, 1]))}", "B"))
    if rnd.random() < 0.1:
        elems[rnd.randrange(n)] = b.int_lit(rnd.choice([0, 1, 2, -1]))        # a plain int digit (not modelled: counted apart)
    lst = b.emit("list " + " ".join(f"r{e}" for e in elems), "list")
    rr = b.emit(f"call from_bits r{lst}", "L")
    b.emit(f"call val r{rr}", "I")
    follow_ups(rnd, b, rr)
    return Case(cid, cfg, b.ins, {"shape": "meth", "op": "from_bits", "kinds": "digits:" + style, "malformed": False})


def ignore_toggle_case(rnd, cid, p=BN128):
    """error checking switched OFF AND ON AGAIN through the real API (`set ign 1` ... `set ign 0` = pysnark.runtime.ignore_errors(True) /
    ignore_errors(False)): while it is off, out-of-domain operations return dummies (unspecified); once it is on again the run is an
    ordinary checks-on run: in-domain operations give Python's values and the first out-of-domain operation raises.
    meta['must_raise'] = index of the instruction that has to raise (None for the control programs)"""
    cfg = cfg_for(rnd, p=p); cfg["ign"] = 0
    if cfg["bl"] < 6:
        cfg["bl"] = rnd.choice([8, 12, 16])
    bl = cfg["bl"]; half = 1 << (bl - 1); full = 1 << bl
    q = max(2, 1 << (bl // 2 - 1))
    b = Builder(rnd, cfg)
    mk = lambda v: b.emit(f"mk {rnd.choice(['priv', 'priv', 'pub'])} r{b.int_lit(v)}", "L")
    a = mk(rnd.randrange(1, q)); c = mk(rnd.randrange(1, q)); z = mk(0)
    lo = mk(-rnd.randrange(full, 2 * full)); hi = mk(rnd.randrange(full, 2 * full))       # lo < hi, difference beyond the bitlength
    odd = mk(2 * rnd.randrange(1, q) + 1); two = mk(2)
    neg = mk(-rnd.randrange(1, half))

    def out_of_domain():
        """(instruction text, result kind, name): raises when checks are on; Python's own answer, where it has one, is not the dummy 0"""
        k = rnd.choice(["cmp", "cmp", "zero-div", "inexact-div", "to_bits-wide", "to_bits-neg", "assert-false", "rshift-wide",
                        "assert_positive-neg", "and-wide", "check_positive-wide"])
        if k == "cmp":
            op = rnd.choice(["lt", "le", "gt", "ge"])
            x, y = (lo, hi) if op in ("lt", "le") else (hi, lo)                 # true in Python, difference too wide for the gadget
            return f"bin {op} r{x} r{y}", "B", k
        if k == "zero-div": return f"bin {rnd.choice(['floordiv', 'mod', 'truediv'])} r{a} r{z}", "?", k
        if k == "inexact-div": return f"bin truediv r{odd} r{two}", "?", k
        if k == "to_bits-wide": return f"call to_bits r{hi}", "?", k
        if k == "to_bits-neg": return f"call to_bits r{neg}", "?", k
        if k == "assert-false":
            m, x, y = rnd.choice([("assert_lt", a, neg), ("assert_eq", a, neg), ("assert_ne", a, a), ("assert_gt", neg, a), ("assert_le", a, neg),
                                  ("assert_ge", neg, a)])
            return f"call {m} r{x} r{y}", "N", k
        if k == "rshift-wide": return f"bin rshift r{hi} r{b.int_lit(1)}", "?", k
        if k == "assert_positive-neg": return f"call assert_positive r{neg}", "N", k
        if k == "and-wide": return f"bin and r{hi} r{a}", "?", k
        return f"call check_positive r{hi}", "B", k

    def in_domain():
        op = rnd.choice(["add", "mul", "sub", "lt", "ge", "eq", "floordiv", "mod", "and"])
        return b.emit(f"bin {op} r{a} r{c}", "B" if op in CMPS else "L")

    pattern = rnd.choice(["off-on", "off-on", "off-on", "off-ops-on", "off-ops-on", "off-ops-on", "off-on-off-on", "on-only", "off-off-on"])
    used = []
    if pattern != "on-only":
        b.emit("set ign 1", "N")
        if pattern == "off-off-on": b.emit("set ign 1", "N")
        if pattern == "off-ops-on":
            for _ in range(rnd.randrange(1, 3)):
                t, k, nm = out_of_domain(); b.emit(t, "?"); used.append("off:" + nm)
            in_domain()
        b.emit("set ign 0", "N")
        if pattern == "off-on-off-on":
            b.emit("set ign 1", "N"); t, k, nm = out_of_domain(); b.emit(t, "?"); used.append("off:" + nm); b.emit("set ign 0", "N")
    else:
        b.emit("set ign 0", "N")
    for _ in range(rnd.randrange(0, 3)):
        r = in_domain()
        if rnd.random() < 0.4: b.emit(f"call val r{r}", "I")
    must = None
    if rnd.random() < 0.8:
        t, k, nm = out_of_domain(); must = b.emit(t, k); used.append("on:" + nm)
        if k != "N": b.emit(f"call val r{must}", "I")
    r = in_domain(); b.emit(f"call val r{r}", "I")
    return Case(cid, cfg, b.ins, {"shape": "ignore-toggle", "op": "+".join(used) or "none", "kinds": pattern, "malformed": must is not None,
                                  "must_raise": must})


# ---------------------------------------------------------------- selections whose branches are FUNCTIONS
def selection(b, rc, then_fn=None, else_fn=None, then_val=None, else_val=None):
    """`if_then_else(rc, f, g)` through the library's own function (harness/worker.py Interp.selection): `then_fn` / `else_fn` emit the
    body of a branch function and return the register it returns; a branch given as `*_val` is a plain value.  The instruction text is
    `fthen c; <f>; fmid; un invert c; felse ~c; <g>; fleave; fsel c t e`, which the model reads as two guarded regions and a selection."""
    rt, re_ = then_val, else_val
    if then_fn is not None:
        b.emit(f"fthen r{rc}", "N"); rt = then_fn(); b.emit("fmid", "N")
    if else_fn is not None:
        inv = b.emit(f"un invert r{rc}", "B"); b.emit(f"felse r{inv}", "N"); re_ = else_fn(); b.emit("fleave", "N")
    return b.emit(f"fsel r{rc} r{rt} r{re_}", "?")


THUNK_GADGETS = ["rshift", "rshift", "and", "or", "xor", "lt", "le", "ge", "gt", "eq", "ne", "to_bits_rt", "to_bits_bit", "floordiv", "mod",
                 "mul", "add_int", "check_positive", "assert_cmp", "assert_nonzero", "assert_ne_int", "pow_int", "pow_int"]


def thunk_gadget(rnd, b, x, y, vx, vy, bl, used, gadgets=None):
    """one guard-sensitive operation on the secrets x, y (values 0 <= vx, 1 <= vy, both below 2^(bl-2)); returns a register holding a
    FRESH secret value (never one of the operands themselves: the selection tests object identity)"""
    g = rnd.choice(gadgets or THUNK_GADGETS); used.append(g)
    if g == "rshift":
        return b.emit(f"bin rshift r{x} r{b.int_lit(rnd.randrange(0, min(3, bl)))}", "L")       # a count >= bitlength gives the plain int 0
    if g in ("and", "or", "xor", "lt", "le", "ge", "gt", "eq", "ne", "floordiv", "mod", "mul"):
        a, c = (x, y) if g in ("floordiv", "mod") or rnd.random() < 0.7 else (y, x)
        return b.emit(f"bin {g} r{a} r{c}", "B" if g in CMPS else "L")
    if g == "to_bits_rt":
        bits = b.emit(f"call to_bits r{x}", "list")
        return b.emit(f"call from_bits r{bits}", "L")
    if g == "to_bits_bit":
        bits = b.emit(f"call to_bits r{x}", "list")
        bit = b.emit(f"idx r{bits} {rnd.randrange(0, bl)}", "B")
        return b.emit(f"bin add r{bit} r{y}", "L")
    if g == "add_int":
        return b.emit(f"bin {rnd.choice(['add', 'sub', 'mul'])} r{x} r{b.int_lit(rnd.randrange(1, 4))}", "L")
    if g == "pow_int":
        # a power with a PUBLIC exponent 0 / 1 / 2 (the degree-0 and degree-1 terms of a polynomial evaluated term by term): `x ** 0` hands out
        # the region's constant one, `x ** 1` the operand itself; `c * term + y` is a fresh value either way
        t = b.emit(f"bin pow r{x} r{b.int_lit(rnd.choice([0, 0, 0, 1, 2]))}", "L")
        t = b.emit(f"bin mul r{t} r{b.int_lit(rnd.randrange(1, 8))}", "L")
        return b.emit(f"bin add r{t} r{y}", "L")
    if g == "check_positive":
        return b.emit(f"call check_positive r{b.emit(f'bin sub r{x} r{y}', 'L')}", "B")
    if g == "assert_cmp":
        m = "assert_lt" if vx < vy else "assert_ge"
        b.emit(f"call {m} r{x} r{y if rnd.random() < 0.5 else b.int_lit(vy)}", "N")
    elif g == "assert_nonzero":
        b.emit(f"call assert_nonzero r{y}", "N")
    else:
        b.emit(f"call assert_ne r{y} r{b.int_lit(vy + rnd.choice([1, 2, -vy]))}", "N")
    return b.emit(f"bin add r{x} r{y}", "L")


def thunk_case(rnd, cid, p=BN128, bitlengths=None, gadgets=None, cond_values=(0, 1), nest=True):
    """a selection whose branches are FUNCTIONS (`if_then_else(c, lambda: ..., lambda: ...)`; also only the then / only the else branch a
    function, the other a value): the then function runs guarded by c, the else function by ~c.  Branch bodies hold guard-sensitive gadgets
    (bit decompositions, shifts, bitwise operations and comparisons of secrets, divisions, assertions, constants) on operands valid for
    the data; the body of the branch NOT taken may also see operands outside the bit length (dead code).  Bodies may contain a nested
    region (guarded() or a nested selection) followed by further instructions of the enclosing body.  c is 0 and 1."""
    cfg = cfg_for(rnd, p=p)
    cfg["ign"] = 0
    if bitlengths:
        cfg["bl"] = rnd.choice(bitlengths); cfg["res"] = min(cfg["res"], 1)
    elif cfg["bl"] < 4:
        cfg["bl"] = rnd.choice([4, 8, 16])
    bl = cfg["bl"]; q = 1 << max(bl - 2, 1)
    b = Builder(rnd, cfg)
    mk = lambda v: b.emit(f"mk {rnd.choice(['priv', 'priv', 'pub'])} r{b.int_lit(v)}", "L")
    vx = rnd.randrange(0, q); vy = rnd.randrange(1, q)
    x = mk(vx); y = mk(vy)
    wide = mk(rnd.choice([1 << bl, (1 << bl) + rnd.randrange(1, 9), -rnd.randrange(1, q + 1)]))        # outside the domain of the bit gadgets
    cv = rnd.choice(cond_values)
    ck = rnd.choice(["B", "B", "B", "cmp"])
    if ck == "B":
        rc = b.emit(f"mk {rnd.choice(B_KINDS)} r{b.int_lit(cv)}", "B")
    else:
        op = rnd.choice(["lt", "ge", "eq", "ne"])
        holds = {"lt": vx < vy, "ge": vx >= vy, "eq": vx == vy, "ne": vx != vy}[op]
        rc = b.emit(f"bin {op} r{x} r{y}", "B"); cv = int(holds)
    form = rnd.choice(["both", "both", "else-only", "else-only", "then-only"])
    used = []

    def body(live, depth=0):
        def run():
            r = None
            for _ in range(rnd.randrange(1, 3)):
                xx = wide if (not live and rnd.random() < 0.2) else x
                r = thunk_gadget(rnd, b, xx, y, vx, vy, bl, used, gadgets)
            if nest and depth == 0 and rnd.random() < 0.3:
                # a nested region inside the branch function, then more code of the branch function
                iv = rnd.choice([0, 1])
                if rnd.random() < 0.5:
                    g = b.emit(f"mk {rnd.choice(['priv', 'privb'])} r{b.int_lit(iv)}", "B")
                    b.emit(f"genter r{g}", "N"); thunk_gadget(rnd, b, x, y, vx, vy, bl, used, gadgets); b.emit("gleave", "N")
                    used.append("nested-guarded")
                else:
                    ic = b.emit(f"mk {rnd.choice(B_KINDS)} r{b.int_lit(iv)}", "B")
                    r2 = selection(b, ic, body(live and iv == 1, 1), body(live and iv == 0, 1))
                    used.append("nested-selection")
                    if rnd.random() < 0.5:
                        r = b.emit(f"bin add r{r} r{r2}", "L")
                for _ in range(rnd.randrange(1, 3)):
                    used.append("tail:" + tail_instr(rnd, b, bl))
                if rnd.random() < 0.5:
                    r = thunk_gadget(rnd, b, x, y, vx, vy, bl, used, gadgets)
            return r
        return run
    tval = None if form != "else-only" else (b.int_lit(rnd.randrange(0, 9)) if rnd.random() < 0.5 else mk(rnd.randrange(0, q)))
    fval = None if form != "then-only" else (b.int_lit(rnd.randrange(0, 9)) if rnd.random() < 0.5 else mk(rnd.randrange(0, q)))
    rr = selection(b, rc, body(cv == 1) if tval is None else None, body(cv == 0) if fval is None else None, tval, fval)
    target = rr
    c = rnd.random()
    if c < 0.4:
        b.emit(f"call val r{rr}", "I")
    elif c < 0.7:
        follow_ups(rnd, b, rr)
    return Case(cid, cfg, b.ins, {"shape": "thunk", "op": "+".join(sorted(set(used))), "kinds": f"{form}:c={cv}:{ck}", "gvals": [cv],
                                  "malformed": False, "target": target, "cond": cv, "form": form})


def caught_region_case(rnd, cid, p=BN128):
    """an exception raised INSIDE a region (the branch function of a selection that is not taken / that is taken, the else function, a
    guarded() function) and CAUGHT by the caller (`tbegin` .. `tend` = try/except Exception), followed by ordinary in-domain operations:
    the classic `if_then_else(d != 0, lambda: n // d, 0)` with d == 0 (the division raises for a zero divisor also in dead code), a
    boolean declaration of a non-boolean value, a false assertion in a live branch.  After the recovered error the run is an ordinary
    run again: in-domain operations give Python's values, out-of-domain operations raise.  meta['must_raise'] as for ignore_toggle_case."""
    cfg = cfg_for(rnd, p=p); cfg["ign"] = 0
    if cfg["bl"] < 6:
        cfg["bl"] = rnd.choice([8, 12, 16])
    bl = cfg["bl"]; half = 1 << (bl - 1); full = 1 << bl
    q = max(2, 1 << (bl // 2 - 1))
    b = Builder(rnd, cfg)
    mk = lambda v: b.emit(f"mk {rnd.choice(['priv', 'priv', 'pub'])} r{b.int_lit(v)}", "L")
    vn = rnd.randrange(1, q); va = rnd.randrange(2, q); vc = rnd.randrange(1, q)
    n = mk(vn); d = mk(0); a = mk(va); c = mk(vc); two = mk(2)
    hi = mk(rnd.randrange(full, 2 * full)); lo = mk(-rnd.randrange(full, 2 * full))
    how = rnd.choice(["zero-div", "zero-div", "zero-div", "non-boolean", "false-assertion", "inexact-div"])
    where = rnd.choice(["then-not-taken", "then-not-taken", "else-not-taken", "then-taken", "else-taken", "guarded-dead", "guarded-live"])
    if how in ("false-assertion", "inexact-div") and "taken" in where and "not" in where:
        where = where.replace("not-taken", "taken")         # these raise in live code only
    if how in ("false-assertion", "inexact-div") and where == "guarded-dead":
        where = "guarded-live"
    live = where in ("then-taken", "else-taken", "guarded-live")

    def raising():
        if how == "zero-div":
            return b.emit(f"bin {rnd.choice(['floordiv', 'floordiv', 'mod', 'truediv'])} r{n} r{d}", "L")
        if how == "non-boolean":
            return b.emit(f"wrapb r{a}", "B")
        if how == "inexact-div":
            return b.emit(f"bin truediv r{mk(2 * vn + 1)} r{two}", "L")
        b.emit(f"call {rnd.choice(['assert_lt', 'assert_eq'])} r{a} r{mk(-1)}", "N")
        return b.emit(f"bin add r{a} r{c}", "L")

    def fn():
        if rnd.random() < 0.4:
            b.emit(f"bin {rnd.choice(['add', 'mul', 'lt'])} r{a} r{c}", "?")
        return raising()

    def other():
        return b.emit(f"bin add r{a} r{c}", "L")
    b.emit("tbegin", "N")
    if where.startswith("guarded"):
        g = b.emit(f"mk {rnd.choice(['priv', 'privb'])} r{b.int_lit(1 if live else 0)}", "B")
        b.emit(f"genter r{g}", "N"); fn(); b.emit("gleave", "N")
    else:
        then_side = where.startswith("then")
        cvv = 1 if (then_side == live) else 0
        if rnd.random() < 0.5 and how == "zero-div" and cvv == (0 if then_side else 1):
            rc = b.emit(f"bin {'ne' if then_side else 'eq'} r{d} r{b.int_lit(0)}", "B")         # the condition IS the test of the divisor
        else:
            rc = b.emit(f"mk {rnd.choice(B_KINDS)} r{b.int_lit(cvv)}", "B")
        plain = rnd.random() < 0.5
        if then_side:
            selection(b, rc, fn, None if plain else other, None, b.int_lit(0) if plain else None)
        else:
            selection(b, rc, None if plain else other, fn, b.int_lit(0) if plain else None, None)
    b.emit("tend", "N")

    def in_domain():
        op = rnd.choice(["add", "mul", "sub", "lt", "gt", "ge", "le", "eq", "ne", "floordiv", "mod", "and", "rshift"])
        x, y = rnd.choice([(a, c), (c, a), (a, two), (n, c)])
        if op == "rshift":
            y = b.int_lit(rnd.randrange(0, 3))
        elif rnd.random() < 0.3 and op not in ("and",):
            y = b.int_lit(rnd.randrange(1, q))
        return b.emit(f"bin {op} r{x} r{y}", "B" if op in CMPS else "L")
    used = []
    for _ in range(rnd.randrange(1, 4)):
        r = in_domain()
        if rnd.random() < 0.4: b.emit(f"call val r{r}", "I")
    must = None
    if rnd.random() < 0.5:
        k = rnd.choice(["cmp", "zero-div", "assert-false", "to_bits-wide", "assert_nonzero-zero"])
        if k == "cmp":
            op = rnd.choice(["lt", "le", "gt", "ge"]); xx, yy = (lo, hi) if op in ("lt", "le") else (hi, lo)
            must = b.emit(f"bin {op} r{xx} r{yy}", "B")
        elif k == "zero-div": must = b.emit(f"bin {rnd.choice(['floordiv', 'mod', 'truediv'])} r{a} r{d}", "?")
        elif k == "assert-false":
            m, xx, yy = rnd.choice([("assert_gt", lo, hi), ("assert_eq", lo, a), ("assert_lt", hi, a), ("assert_ne", a, a), ("assert_le", a, lo)])
            must = b.emit(f"call {m} r{xx} r{yy}", "N")
        elif k == "to_bits-wide": must = b.emit(f"call to_bits r{hi}", "?")
        else: must = b.emit(f"call assert_nonzero r{d}", "N")
        used.append("then:" + k)
    r = in_domain(); b.emit(f"call val r{r}", "I")
    return Case(cid, cfg, b.ins, {"shape": "caught-in-region", "op": how, "kinds": where, "malformed": must is not None, "must_raise": must})
