"""C07, histories: guarded regions that have been entered AND LEFT, followed by code that meets an invalid value.

`guarded_case` of gen/progs.py judges one region on its own; what follows the region there is always valid (`mul`, `val`).
The property quantifies over histories: a false guard makes code inert, so whatever ran under it must leave no trace in how
LATER code behaves; a true guard is transparent, so later code behaves as if the region's markers were not there.  The class
generated here:

    operands (valid and invalid for the tail) ... created before any region
    HISTORY   1-3 regions, sequential and/or nested, each condition 0 or 1 (scenarios below), bodies of operations that are
              valid or invalid for themselves (only operations whose dead-code behaviour is not already a recorded finding)
    TAIL      one operation on an operand that is INVALID for it (out-of-range comparison / to_bits / assert_positive, failing
              assertion, inexact division, division by zero, zero / non-zero assertion, assert_range) or a valid control
              operation, placed unguarded or inside a fresh region whose condition is 1; then val() of a product

The oracle (props/c07.py `history_block`) runs the twin in which the whole HISTORY is blanked (`lit n` in place of every
instruction from its first `genter` to its last `gleave`; register numbers are kept, the tail refers to registers created
before the history only): the tail has to end the same way (same exception class at the same instruction, or the same
values) with and without the history.  Every random choice comes from the caller's Random."""
from .progs import Builder, Case, BN128, ASSERTS

HISTORIES = ["false", "false", "false-nested-in-true", "true-nested-in-false", "false-then-true", "true-then-false", "two-false",
             "true", "false-with-invalid-body"]
TAILS = ["cmp-out-of-range", "assert-fails", "inexact-division", "zero-division", "to_bits-out-of-range", "assert_positive-negative",
         "assert_zero-nonzero", "assert_nonzero-zero", "assert_range-outside", "floordiv-zero", "valid-control"]
SAFE_BODY_BIN = ["lt", "le", "ge", "mul", "add", "sub"]          # dead-code behaviour not subject of a recorded finding
SAFE_BODY_CALL = ASSERTS + ["assert_zero", "assert_positive", "check_positive", "to_bits"]


def _region(b, rnd, conds, pool, invalid_ok):
    """emit genter* body gleave* for the condition registers `conds` (outermost first); returns the body's operator names.
    invalid_ok: the region is dead (some condition is 0): comparisons and assertions on any operand may appear"""
    for c in conds:
        b.emit(f"genter r{c}", "N")
    ops = []
    local = list(pool)
    for _ in range(rnd.randrange(1, 4)):
        a = rnd.choice(local); c = rnd.choice(local)
        if not invalid_ok or rnd.random() < 0.55:
            # a region that is LIVE (every condition 1) gets operations that cannot raise: the run has to reach the tail
            op = rnd.choice(SAFE_BODY_BIN if invalid_ok else ["mul", "add", "sub"])
            r = b.emit(f"bin {op} r{a} r{c}", "?"); ops.append(op)
            if op in ("mul", "add", "sub") and rnd.random() < 0.5:
                local.append(r)
        else:
            m = rnd.choice(SAFE_BODY_CALL)
            b.emit(f"call {m} r{a} r{c}" if m in ASSERTS else f"call {m} r{a}", "N" if m in ASSERTS else "?"); ops.append(m)
    for _ in conds:
        b.emit("gleave", "N")
    return ops


def history_case(rnd, cid, p=BN128, k=None):
    bl = rnd.choice([4, 8, 8, 16, 32])
    cfg = {"p": p, "bl": bl, "res": 0, "ign": 0}
    half = 1 << (bl - 1)
    b = Builder(rnd, cfg)
    hist = HISTORIES[k % len(HISTORIES)] if k is not None else rnd.choice(HISTORIES)
    tail = TAILS[(k // len(HISTORIES)) % len(TAILS)] if k is not None else rnd.choice(TAILS)
    place = rnd.choice(["unguarded", "unguarded", "under-true-guard"])
    # operands, all created before any region
    small = [b.operand("L", value=v) for v in (rnd.randrange(1, min(half, 8)), rnd.randrange(-min(half, 8), 0), rnd.randrange(0, 3))]
    zero = b.operand("L", value=0)
    three = b.operand("L", value=3)
    seven = b.operand("L", value=7)
    big = b.operand("L", value=rnd.choice([2 * half, 2 * half + 3, -2 * half - 1, 5 * half]))        # outside every range the bitlength allows
    neg = b.operand("L", value=-rnd.randrange(1, half))
    one_t = b.operand("L", value=1)                                     # condition of the tail's own region
    valid_pool = small + [zero, three]
    body_pool = valid_pool + ([big, neg] if hist == "false-with-invalid-body" or rnd.random() < 0.4 else [])
    def cond(v):
        # a plain-int condition 0 is refused by add_guard by design ("unreachable code"): plain conditions only with value 1
        return b.operand(rnd.choice(["L", "L", "I"]) if v == 1 else "L", value=v)
    start = len(b.ins)
    # ---- HISTORY
    ops = []
    if hist in ("false", "false-with-invalid-body"):
        ops += _region(b, rnd, [cond(0)], body_pool, True)
    elif hist == "true":
        ops += _region(b, rnd, [cond(1)], valid_pool, False)
    elif hist == "false-nested-in-true":
        ops += _region(b, rnd, [cond(1), cond(0)], body_pool, True)
    elif hist == "true-nested-in-false":
        ops += _region(b, rnd, [cond(0), cond(1)], body_pool, True)
    elif hist == "false-then-true":
        ops += _region(b, rnd, [cond(0)], body_pool, True); ops += _region(b, rnd, [cond(1)], valid_pool, False)
    elif hist == "true-then-false":
        ops += _region(b, rnd, [cond(1)], valid_pool, False); ops += _region(b, rnd, [cond(0)], body_pool, True)
    elif hist == "two-false":
        ops += _region(b, rnd, [cond(0)], body_pool, True); ops += _region(b, rnd, [cond(0)], body_pool, True)
    end = len(b.ins)                      # instructions start..end-1 are the history (conditions included)
    # ---- TAIL
    if place == "under-true-guard":
        b.emit(f"genter r{one_t}", "N")
    x = small[0]
    if tail == "cmp-out-of-range": t = b.emit(f"bin {rnd.choice(['lt', 'le', 'ge', 'gt'])} r{big} r{x}", "?")
    elif tail == "assert-fails": t = b.emit(f"call {rnd.choice(['assert_eq', 'assert_gt', 'assert_ge'])} r{three} r{seven}", "N")
    elif tail == "inexact-division": t = b.emit(f"bin truediv r{seven} r{three}", "?")
    elif tail == "zero-division": t = b.emit(f"bin truediv r{seven} r{zero}", "?")
    elif tail == "floordiv-zero": t = b.emit(f"bin {rnd.choice(['floordiv', 'mod'])} r{seven} r{zero}", "?")
    elif tail == "to_bits-out-of-range": t = b.emit(f"call to_bits r{rnd.choice([big, neg])}", "?")
    elif tail == "assert_positive-negative": t = b.emit(f"call assert_positive r{neg}", "?")
    elif tail == "assert_zero-nonzero": t = b.emit(f"call assert_zero r{three}", "?")
    elif tail == "assert_nonzero-zero": t = b.emit(f"call assert_nonzero r{zero}", "?")
    elif tail == "assert_range-outside": t = b.emit(f"call assert_range r{seven} r{b.int_lit(0)} r{b.int_lit(5)}", "N")
    else: t = b.emit(f"bin lt r{small[1]} r{x}", "?")
    if place == "under-true-guard":
        b.emit("gleave", "N")
    r = b.emit(f"bin mul r{three} r{x}", "?")
    b.emit(f"call val r{r}", "I")
    return Case(cid, cfg, b.ins, {"shape": "guard-history", "op": "+".join(sorted(set(ops))) or "-", "kinds": hist, "history": hist,
                                  "tail": tail, "place": place, "span": (start, end), "tail_at": t})


def without_history(case):
    """the twin: every instruction of the history replaced by `lit n` (register numbering unchanged)"""
    s, e = case.meta["span"]
    ins = [("lit n" if s <= i < e else t) for i, t in enumerate(case.instrs)]
    return Case(case.cid + "h", case.cfg, ins, case.meta)
