"""Run program cases on the real code and on the model; parse and compare at levels V / S / W."""
import re
from . import common


class Rec:
    """one executed case: parsed implementation output (and model output)"""

    def __init__(self, case, py, lean=None):
        self.case = case
        f = py.split("|")
        self.py_raw = py
        self.harness_error = len(f) < 11 or f[1] == "harness-error"
        if self.harness_error:
            return
        self.status = f[1]
        self.ok = f[1] == "ok"
        self.errcls = None if self.ok else f[1].split(":")[1]
        self.errpos = None if self.ok else int(f[1].split(":")[2])
        self.regs = f[2].split(";") if f[2] else []
        self.fields = dict(x.split("=", 1) for x in f[3:])
        self.pub = [int(x) for x in self.fields["PUB"].split(",") if x]
        self.priv = [int(x) for x in self.fields["PRIV"].split(",") if x]
        self.cons = [c for c in self.fields["CONS"].split(" & ") if c]
        self.unsat = [int(x) for x in self.fields.get("UNSAT", "").split(",") if x]
        self.incoh = [int(x) for x in self.fields.get("INCOH", "").split(",") if x]
        self.dirty = self.fields.get("DIRTY", "0") == "1"
        self.nc = [tuple(int(y) for y in x.split("/")) for x in self.fields.get("NC", "").split(",") if x]
        self.lean_raw = lean
        self.unmodelled = lean is not None and "UNMODELLED" in lean
        self.lean = None
        if lean is not None:
            g = lean.split("|")
            if len(g) >= 11:
                self.lean = {"status": g[1], "regs": g[2].split(";") if g[2] else [],
                             "fields": dict(x.split("=", 1) for x in g[3:])}

    def shape(self):
        """what C06 compares: everything but values"""
        return (len(self.pub), len(self.priv), tuple(self.cons), [strip_value(r) for r in self.regs],
                strip_value_g(self.fields["G"]), strip_value_g(self.fields["ONE"]))


_val = re.compile(r"([LBX]):(-?\d+):")


def strip_lc(s):
    """V projection of a register string: drop wire expressions"""
    return re.sub(r"([LBX]:-?\d+):[^,;\]\)]*", r"\1", s)


def strip_value(s):
    """S projection: drop python-level values of secrets; plain values stay"""
    return _val.sub(r"\1:_:", s)


def strip_value_g(s):
    return s if s == "N" else "_:" + s.split(":", 1)[1]


def diff_levels(rec, levels):
    """list of (level, what) where model and implementation disagree"""
    if rec.lean is None:
        return [("X", "model produced no parsable output: " + str(rec.lean_raw)[:200])]
    out = []
    L = rec.lean
    if rec.status != L["status"]:
        return [("V", f"status impl={rec.status} model={L['status']}")]
    n = min(len(rec.regs), len(L["regs"]))
    if len(rec.regs) != len(L["regs"]):
        out.append(("V", f"register count impl={len(rec.regs)} model={len(L['regs'])}"))
    if "V" in levels:
        for i in range(n):
            if strip_lc(rec.regs[i]) != strip_lc(L["regs"][i]):
                out.append(("V", f"r{i}: impl={strip_lc(rec.regs[i])[:120]} model={strip_lc(L['regs'][i])[:120]}"))
                break
    for k in ("G", "IGN", "ONE"):
        if rec.fields[k] != L["fields"][k]:
            out.append(("S", f"{k}: impl={rec.fields[k][:100]} model={L['fields'][k][:100]}"))
    if not rec.ok:
        return out
    if "S" in levels:
        for i in range(n):
            if strip_value(rec.regs[i]) != strip_value(L["regs"][i]):
                out.append(("S", f"r{i} wire expression: impl={rec.regs[i][:160]} model={L['regs'][i][:160]}"))
                break
        lc = [c for c in L["fields"]["CONS"].split(" & ") if c]
        if lc != rec.cons:
            k = next((i for i, (a, b) in enumerate(zip(lc, rec.cons)) if a != b), min(len(lc), len(rec.cons)))
            out.append(("S", f"constraints differ at #{k} (impl {len(rec.cons)}, model {len(lc)}): "
                             f"impl={rec.cons[k][:200] if k < len(rec.cons) else None} "
                             f"model={lc[k][:200] if k < len(lc) else None}"))
        if len(L["fields"]["PUB"].split(",")) != len(rec.fields["PUB"].split(",")) or \
           len(L["fields"]["PRIV"].split(",")) != len(rec.fields["PRIV"].split(",")):
            out.append(("S", "number of variables differs"))
    if "W" in levels:
        if L["fields"]["PUB"] != rec.fields["PUB"]:
            out.append(("W", "public witness values differ"))
        if L["fields"]["PRIV"] != rec.fields["PRIV"]:
            lp = L["fields"]["PRIV"].split(","); pp = rec.fields["PRIV"].split(",")
            k = next((i for i, (a, b) in enumerate(zip(lp, pp)) if a != b), min(len(lp), len(pp)))
            out.append(("W", f"private witness differs at w{k+1}: impl={pp[k][:80] if k < len(pp) else None} model={lp[k][:80] if k < len(lp) else None}"))
    return out


def execute(cases, backend="snarkjs", with_model=True, nproc=None):
    lines = [c.line() for c in cases]
    py = common.run_workers(lines, backend, nproc=nproc)
    ml = common.lean_driver(lines) if with_model else [None] * len(lines)
    return [Rec(c, a, b) for c, a, b in zip(cases, py, ml)]


def shrink(case, still_fails, max_steps=200):
    """greedy: drop trailing and unused instructions while `still_fails(case)` holds.
    Register references are positional, so only instructions nobody refers to may go."""
    cur = case
    steps = 0
    changed = True
    while changed and steps < max_steps:
        changed = False
        for i in range(len(cur.instrs) - 1, -1, -1):
            used = any(re.search(rf"\br{i}\b", ins) for ins in cur.instrs[i + 1:])
            if used or cur.instrs[i].split()[0] in ("genter", "gleave"):
                continue
            new = cur.instrs[:i] + [renumber(ins, i) for ins in cur.instrs[i + 1:]]
            cand = cur.with_instrs(new)
            steps += 1
            if still_fails(cand):
                cur = cand; changed = True
                break
    return cur


def renumber(ins, removed):
    return re.sub(r"\br(\d+)\b", lambda m: f"r{int(m.group(1)) - 1}" if int(m.group(1)) > removed else m.group(0), ins)
