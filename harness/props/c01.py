"""C01 — completeness: the recorded witness satisfies every emitted constraint."""
import random
from .. import common, progcheck
from ..framework import Exploration, Violation
from ..gen import progs

ASSUMPTIONS = ["programs are generated from the operator/kind/value-class table of harness/gen/progs.py; "
               "the direct oracle evaluates A*B-C mod p for every constraint recorded by the real backend"]
LEVELS = "VSW"


def sig_of(rec, k):
    """signature of an unsatisfied constraint: the instruction shape that emitted it"""
    m = rec.case.meta
    return {"shape": m.get("shape"), "op": m.get("op"), "kinds": m.get("kinds"),
            "guarded": "genter" in " ".join(rec.case.instrs)}


def explore(ctx, extended=False, focus=None):
    ex = Exploration()
    ex.rule = ("programs over the public API drawn from the operator x operand-kind x value-class x configuration table "
               "(85% inside the documented domain); executed on the real snarkjs backend and on the Lean model, "
               "compared at levels V+S+W; a case is non-trivial if it emitted a constraint or raised; distinct = "
               "distinct (shape, operator set, kinds, bitlength, error class) tuples")
    n = ctx.n(400, 20000) if not extended else ctx.n(3000, 20000)
    from ..propsbase import corpus_cases
    cases = corpus_cases("C01") + progs.generate(ctx.rnd, n, "c01x" if extended else "c01_")
    # C01 is about runs where the user has not switched error checking off
    cases = [c for c in cases if c.cfg["ign"] == 0 and not any(i.startswith("set ign") for i in c.instrs)]
    recs = progcheck.execute(cases)
    for r in recs:
        ex.evaluations += 1
        if r.harness_error:
            raise common.Infra("worker: " + r.py_raw[:500])
        m = r.case.meta
        ex.count(f"shape:{m.get('shape')}"); ex.count(f"status:{r.errcls or 'ok'}")
        ex.count(f"op:{m.get('op')}" if m.get("shape") in ("op", "un", "meth") else f"shape-op:{m.get('shape')}")
        if r.cons or not r.ok:
            ex.distinct.add((m.get("shape"), m.get("op"), m.get("kinds"), r.case.cfg["bl"], r.errcls))
        if r.unmodelled:
            ex.unmodelled += 1
        else:
            d = progcheck.diff_levels(r, LEVELS)
            if d:
                ex.disagreements.append({"case": r.case.line(), "diff": d[:3]})
            else:
                ex.traces_validated += 1
        if r.ok and r.unsat:
            ex.violations.append(Violation(sig_of(r, r.unsat[0]),
                                           f"constraint #{r.unsat[0]} ({r.cons[r.unsat[0]][:100]}) is not satisfied by the recorded witness",
                                           {"case": r.case.line(), "unsat": r.unsat}))
        if len(ex.samples) < 6 and r.cons:
            ex.samples.append(r.case.line())
    return ex


def replay(ctx, payload):
    from ..gen.progs import Case
    line = payload["replay"]["case"]
    out = common.run_workers([line])
    print(out[0][:2000])
    r = progcheck.Rec(None, out[0])
    if r.ok and r.unsat:
        print(f"VIOLATION property=C01 replay=(given) unsatisfied constraints {r.unsat}")
        return 1
    return 0
