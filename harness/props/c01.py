"""C01 — completeness: the recorded witness satisfies every emitted constraint."""
import random
from .. import common, progcheck
from ..framework import Exploration, Violation
from ..gen import progs

ASSUMPTIONS = ["programs are generated from the operator/kind/value-class table of harness/gen/progs.py; "
               "the direct oracle evaluates A*B-C mod p for every constraint recorded by the real backend",
               "hash gadgets (poseidon permute / poseidon_hash / ggh_hash) traced under every zkinterface-family backend (own prime each) on PrivVal / "
               "PubVal / boolean / fixed-point inputs, outside and inside a taken guard: every recorded constraint evaluated on the recorded witness "
               "(props/c20.py hash_gadget_completeness; direct oracle only, the gadget values are model-compared by C20)",
               "guarded regions whose conditions are all true with ordering comparisons / check_positive (default and explicit width) whose "
               "internal difference has exactly bitlength, bitlength+1, bitlength+2 bits or is -2^bitlength "
               "(gen/progs.py wide_compare_guarded_case): nothing checks a constraint under a guard, so a run that goes on must have "
               "recorded a witness that satisfies it; from_bits on lists of secrets with values outside {0,1} (from_bits_digits_case)",
               "nested guarded() regions with instructions BETWEEN the inner and the outer exit (code that runs after an inner region was left "
               "while an outer one is still active: assert_nonzero / assert_ne, assertions and arithmetic with plain-int operands, comparisons), "
               "all guard-value combinations with (outer taken, inner not taken) weighted up (gen/progs.py guarded_case, tail_instr); selections "
               "whose branches are functions, through the library's if_then_else(c, f, g), with nested regions inside the branch functions "
               "(thunk_case); both model-backed"]
LEVELS = "VSW"
BACKENDS = [("snarkjs", common.BN128, 0.61), ("zkinterface", common.BN128, 0.13), ("zkifbellman", common.BLS381, 0.13),
            ("zkifbulletproofs", common.ED25519, 0.13)]


def sig_of(rec, k):
    """signature of an unsatisfied constraint: the instruction shape that emitted it"""
    m = rec.case.meta
    return {"shape": m.get("shape"), "op": m.get("op"), "kinds": m.get("kinds"),
            "guarded": "genter" in " ".join(rec.case.instrs), "backend": m.get("backend", "snarkjs"),
            # code that runs after an inner region was left while an outer one is still active (gen/progs.py tail_instr)
            "after_inner_region": bool(m.get("tail")) or "tail:" in str(m.get("op"))}


def explore(ctx, extended=False, focus=None):
    ex = Exploration()
    ex.rule = ("programs over the public API drawn from the operator x operand-kind x value-class x configuration table "
               "(85% inside the documented domain); executed on the real snarkjs, zkinterface, zkifbellman and zkifbulletproofs backends (own field each) and on the Lean model, "
               "compared at levels V+S+W; a case is non-trivial if it emitted a constraint or raised; distinct = "
               "distinct (shape, operator set, kinds, bitlength, error class) tuples")
    n = ctx.n(2400, 60000) if not extended else ctx.n(12000, 60000)
    from ..propsbase import corpus_cases, execute_all
    mix = [(5, progs.op_case), (1, progs.unop_case), (2, progs.method_case), (1, progs.ite_case), (2, progs.chain_case),
           (3, progs.guarded_case), (1, progs.array_case),
           # comparisons whose internal difference sits on the width boundary of check_positive, under (mostly) all-true guards
           (1, progs.wide_compare_guarded_case), (1, progs.from_bits_digits_case),
           # selections whose branches are functions (then function guarded by c, else function by ~c), nested regions inside them
           (2, progs.thunk_case)]
    recs = []
    # every loadable backend field: the in-memory backends all record (pubvals, privvals, constraints)
    for be, p, share in BACKENDS:
        k = int(n * share)
        cases = (corpus_cases("C01") if be == "snarkjs" else []) + progs.generate(ctx.rnd, k, ("c01x" if extended else "c01_") + be[-4:], mix=mix, p=p)
        # C01 is about runs where the user has not switched error checking off
        cases = [c for c in cases if c.cfg["ign"] == 0 and not any(i.startswith("set ign") for i in c.instrs)]
        for c in cases:
            c.meta["backend"] = be
        recs += execute_all(cases, backend=be)
    for r in recs:
        ex.evaluations += 1
        ex.count(f"backend:{r.case.meta.get('backend')}")
        if r.harness_error:
            raise common.Infra("worker: " + r.py_raw[:500])
        m = r.case.meta
        ex.count(f"shape:{m.get('shape')}"); ex.count(f"status:{r.errcls or 'ok'}")
        ex.count(f"op:{m.get('op')}" if m.get("shape") in ("op", "un", "meth") else f"shape-op:{m.get('shape')}")
        if r.cons or not r.ok:
            ex.distinct.add((m.get("shape"), m.get("op"), m.get("kinds"), r.case.cfg["bl"], r.errcls))
        if r.unmodelled:
            ex.unmodelled += 1
        else:
            d = progcheck.diff_levels(r, LEVELS)
            if d:
                ex.disagreements.append({"case": r.case.line(), "diff": d[:3]})
            else:
                ex.traces_validated += 1
        if r.ok and r.unsat:
            ex.violations.append(Violation(sig_of(r, r.unsat[0]),
                                           f"constraint #{r.unsat[0]} ({r.cons[r.unsat[0]][:100]}) is not satisfied by the recorded witness",
                                           {"case": r.case.line(), "unsat": r.unsat, "backend": r.case.meta.get("backend", "snarkjs")}))
        if len(ex.samples) < 6 and r.cons:
            ex.samples.append(r.case.line())
    # the hash gadgets (poseidon permute/hash, ggh) traced under every zkinterface-family backend, own prime each: every recorded
    # constraint on the recorded witness (scenario class owned by props/c20.py)
    from . import c20
    hv = c20.hash_gadget_completeness(ctx, extended)
    ex.violations += hv
    ex.count("hash-gadget-completeness-violations" if hv else "hash-gadget-completeness-clean")
    return ex


def replay(ctx, payload):
    if payload.get("replay", {}).get("kind") == "completeness":
        from . import c20
        return c20.replay(ctx, payload)
    from ..gen.progs import Case
    line = payload["replay"]["case"]
    out = common.run_workers([line], payload["replay"].get("backend", "snarkjs"))
    print(out[0][:2000])
    r = progcheck.Rec(None, out[0])
    if r.ok and r.unsat:
        print(f"VIOLATION property=C01 replay=(given) unsatisfied constraints {r.unsat}")
        return 1
    return 0
