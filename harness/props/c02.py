"""C02 — soundness: the constraints determine every result uniquely from its operands."""
from .. import common, progcheck, solve
from ..framework import Exploration, Violation
from ..gen import progs
from ..propsbase import *
import random

ASSUMPTIONS = ["witness-space search over the REAL constraint system recorded by the snarkjs backend run over the small prime 97 "
               "(snarkjsbackend.snarkjsp assigned in the worker) at bitlengths 2..5 (2^(n+1) <= 97): every wire the operation "
               "introduced is unknown, every earlier wire keeps its value; complete enumeration (exhaustive for each instance)",
               "the Lean theorems quantify over all primes/widths/assignments; the small field is only the search space of the oracle",
               "selections whose branches are FUNCTIONS, through the library's own if_then_else(c, f, g) (instructions fthen/fmid/felse/fleave/fsel of "
               "harness/worker.py; both / only the then / only the else branch a function; c = 0 and 1, given or computed by a comparison; bodies "
               "with bit decompositions, constant shifts, bitwise operations and comparisons of secrets, products, assertions): target = the "
               "selected value; search over p = 97 with the operands fixed AND the wires of the branch function that was not taken kept at their "
               "recorded values (its gadgets are relaxed by the false guard by design); model-backed at level S (the model reads the instructions "
               "as guarded(c) region, guarded(~c) region, selection)",
               "gadgets inside TAKEN guarded() regions: one or two `guarded(c)` regions whose conditions are secret inputs of value 1 around the same "
               "gadgets as in the branch functions (gen_guarded_live_case): operand and condition wires fixed, every wire created inside the "
               "region unknown (conjunction wire, bit wires, the dummy / slack wires that relax guarded constraints): the result is determined; "
               "signature instr `guarded(1):<operator>`; model-backed at level S",
               "WIDE words over the real field BN254 (bitlength 72, 100, 128, 250, and to_bits(n) with n above the bitlength; operands below 2^64 "
               "and up to the width; to_bits()[k], to_bits/from_bits round trip, >> constant, &, |, ^ of secrets, <, <=, >, >=, check_positive): "
               "no enumeration is possible there; the oracle is a forgery search (harness/solve.py forge): from the honest witness change one "
               "free wire (flip a 0/1 wire, increment another) and repair all constraints it breaks by single-unknown solving on untouched "
               "wires; a repaired assignment that satisfies every constraint and changes the result is reported; sound, not complete"]
PARTIAL = ["C02_determined (program level) is for runs inside SoundFragment (Spec/SoundProg.lean, table Instr.excl); excluded with reason: "
           "guardRegion (guarded regions: soundness under a guard not yet composed, covered by the oracle only), ignoreErrors (set ign: outside the "
           "property), secretLiteral (a literal holding a LinComb is not an API value), widthTooLarge (explicit width n with 2^(n+1) > p)",
           "C02_divmod_partial + C02_cex_divmod_quotient: //, %, divmod and what is built on them (>> by a secret, fixed-point * by a float or "
           "fixed-point, every fixed-point /, fixed-point ** n for n >= 2) do not determine the quotient: excluded as divmodQuotient / "
           "secretShift / fxpRescale",
           "C02_cex_bitwise_const: &, |, ^ with a public int return an unconstrained witness: excluded as bitwiseConst",
           "C02_cex_truediv_zero_mod_p: a / b for a secret b whose integer value is a nonzero multiple of p leaves the quotient wire free: "
           "excluded as zeroDivisorModP (a value-dependent test of the fragment replay)",
           "gadget-level theorems are for unguarded states; soundness under a true guard is covered by the oracle only"]
LEVELS = "S"
P = 97
OPS = ["mul", "truediv", "floordiv", "mod", "divmod", "lt", "le", "eq", "ne", "gt", "ge", "and", "or", "xor", "rshift",
       "pow", "lshift"]


def gen_case(rnd, cid):
    bl = rnd.choice([2, 3, 3, 4, 4, 5])
    half = 1 << (bl - 1)
    cfg = {"p": P, "bl": bl, "res": rnd.choice([0, 1]), "ign": 0}
    b = progs.Builder(rnd, cfg)
    shape = rnd.random()
    if shape < 0.7:
        op = rnd.choice(OPS)
        ka, kb = rnd.choice([("L", "L"), ("L", "L"), ("L", "I"), ("I", "L"), ("B", "B"), ("B", "L"), ("L", "B")])
        va, vb = progs.domain_values(rnd, op, bl, ka, kb)
        if op in ("lt", "le", "gt", "ge", "eq", "ne") and rnd.random() < 0.5:
            vb = va + rnd.choice([0, 0, 1, -1])          # boundary of the comparison
        if op in ("lt", "le", "gt", "ge") and ka == "L" and kb in ("L", "I") and rnd.random() < 0.12:
            # user-selected ignore-errors mode with an operand far outside the bitlength: the honest witness does not satisfy the
            # system (by design), but a prover must still not be able to prove EITHER outcome
            cfg["ign"] = 1
            # the tested difference d must be outside BOTH provable ranges in the field: d mod p and (-d-1) mod p not in [0, 2^bl)
            r = rnd.randrange((1 << bl) + 1, P - (1 << bl) - 1)
            d = r + P * rnd.randrange(1, 4)
            vb = rnd.randrange(0, half)
            va = {"lt": vb - d - 1, "le": vb - d, "gt": vb + d + 1, "ge": vb + d}[op]
        if op in ("eq", "ne") and rnd.random() < 0.15:
            vb = va + rnd.choice([P, -P, 2 * P])         # operands that differ as integers but are EQUAL in the field
        if op in ("and", "or", "xor", "rshift", "lshift", "pow"):
            va = rnd.randrange(0, half); vb = rnd.randrange(0, min(half, 3) if op in ("rshift", "lshift", "pow") else half)
        if "B" in (ka, kb):
            va = va % 2 if ka == "B" else va; vb = vb % 2 if kb == "B" else vb
        ra = b.operand(ka, value=va); rb = b.operand(kb, value=vb)
        if ka == "L": b.ins[ra] = b.ins[ra].replace("const", "priv")
        if kb == "L": b.ins[rb] = b.ins[rb].replace("const", "priv")
        pre = rnd.random()
        if pre < 0.35:
            # history before the target: the same operand objects were already used, possibly inside a guarded
            # region whose guard is false (state an operation may wrongly carry over to the target)
            g = b.operand("L", value=rnd.choice([0, 0, 1])); b.ins[g] = b.ins[g].replace("const", "priv")
            inside = rnd.random() < 0.7
            if inside: b.emit(f"genter r{g}", "N")
            for _ in range(rnd.randrange(1, 3)):
                o2 = rnd.choice([op, op, "lt", "and", "rshift", "mul", "eq"])
                x = rnd.choice([ra, rb]); y = rnd.choice([ra, rb])
                if o2 == "rshift": y = b.int_lit(1)
                b.emit(f"bin {o2} r{x} r{y}", "?")
            if inside: b.emit("gleave", "N")
        rr = b.emit(f"bin {op} r{ra} r{rb}", "?")
        meta = {"shape": "op", "op": op, "kinds": ka + kb, "history": pre < 0.35}
    elif shape < 0.8:
        op = rnd.choice(["abs", "invert", "neg"])
        ra = b.operand("L", value=rnd.randrange(0 if op == "invert" else -half + 1, half))
        b.ins[ra] = b.ins[ra].replace("const", "priv")
        rr = b.emit(f"un {op} r{ra}", "?")
        meta = {"shape": "un", "op": op, "kinds": "L"}
    elif shape < 0.84:
        # array element read at a secret index: the element read is determined by the index ("... or array element")
        n = rnd.randrange(2, 5)
        elems = []
        for _ in range(n):
            e = b.operand("L", value=rnd.randrange(0, half)); b.ins[e] = b.ins[e].replace("const", "priv").replace("pub", "priv"); elems.append(e)
        arr = b.emit("arr " + " ".join(f"r{e}" for e in elems), "A")
        ix = b.operand("L", value=rnd.randrange(0, n)); b.ins[ix] = b.ins[ix].replace("const", "priv").replace("pub", "priv")
        rr = b.emit(f"aget r{arr} r{ix}", "?")
        meta = {"shape": "aget", "op": "aget", "kinds": f"n{n}"}
    elif shape < 0.9:
        rc = b.operand("B", value=rnd.choice([0, 1]))
        if rnd.random() < 0.3:
            # two boolean branches: the result is a LinCombBool built WITHOUT a constraint of its own; it is determined and 0/1 on
            # every satisfying assignment because the condition and both branches are (C02: iteBB_d)
            rt = b.operand("B", value=rnd.choice([0, 1])); rf = b.operand("B", value=rnd.choice([0, 1]))
            kinds = "BBB"
        else:
            rt = b.operand("L", value=rnd.randrange(-half, half)); rf = b.operand("L", value=rnd.randrange(-half, half))
            kinds = "BLL"
        rr = b.emit(f"ite r{rc} r{rt} r{rf}", "?")
        meta = {"shape": "ite", "op": "ite", "kinds": kinds}
    else:
        m = rnd.choice(["check_positive", "check_zero", "check_nonzero", "to_bits"])
        v = rnd.choice([0, 1, half - 1, half, -1, -half, rnd.randrange(-half, half)])
        if m == "to_bits":
            v = rnd.randrange(0, 2 * half)
        if m in ("check_zero", "check_nonzero") and rnd.random() < 0.2:
            v = rnd.choice([P, -P, 2 * P])               # a non-zero multiple of the field prime
        ra = b.operand("L", value=v)
        b.ins[ra] = b.ins[ra].replace("const", "priv")
        rr = b.emit(f"call {m} r{ra}", "?")
        meta = {"shape": "meth", "op": m, "kinds": "L"}
    meta["target"] = rr
    return progs.Case(cid, cfg, b.ins, meta)


C02_THUNK_GADGETS = ["rshift", "rshift", "and", "or", "xor", "lt", "le", "ge", "gt", "eq", "ne", "to_bits_rt", "to_bits_bit", "mul", "add_int",
                     "check_positive", "assert_cmp", "assert_nonzero"]
WIDE_WIDTHS = [72, 100, 128, 250]


def gen_thunk_case(rnd, cid):
    """a selection whose branches are FUNCTIONS (`if_then_else(c, f, g)`, `if_then_else(c, v, g)`, `if_then_else(c, f, v)`) holding
    gadgets that determine their result on the unchanged tree (no //, %, no bitwise operation with a public int); target = the selection"""
    c = progs.thunk_case(rnd, cid, p=P, bitlengths=[2, 3, 3, 4], gadgets=C02_THUNK_GADGETS, nest=False)
    c.instrs = [t.replace("mk const", "mk priv") for t in c.instrs]
    return c


def gen_guarded_live_case(rnd, cid):
    """gadgets executed inside `guarded(c)` regions whose conditions are SECRETS OF VALUE 1 (one or two regions, conditions given as
    inputs): the region is taken, so its gadgets must determine their results exactly as outside a region.  The search fixes the operand
    and condition wires and leaves EVERY wire created inside the region to the prover (conjunction wire, bit wires, the dummy / slack
    wires that relax a guarded constraint); target = the result of the last gadget (a fresh value)"""
    cfg = {"p": P, "bl": rnd.choice([2, 3, 3, 4]), "res": 0, "ign": 0}
    bl = cfg["bl"]; q = 1 << max(bl - 2, 1)
    b = progs.Builder(rnd, cfg)
    mk = lambda v: b.emit(f"mk {rnd.choice(['priv', 'priv', 'pub'])} r{b.int_lit(v)}", "L")
    vx = rnd.randrange(0, q); vy = rnd.randrange(1, q)
    x = mk(vx); y = mk(vy)
    depth = rnd.choice([1, 1, 1, 2])
    gs = [b.emit(f"mk {rnd.choice(['priv', 'privb', 'privb'])} r{b.int_lit(1)}", "B") for _ in range(depth)]
    for g in gs:
        b.emit(f"genter r{g}", "N")
    used = []
    if rnd.random() < 0.3:
        progs.thunk_gadget(rnd, b, x, y, vx, vy, bl, used, C02_THUNK_GADGETS)      # an earlier gadget of the same region
    rr = progs.thunk_gadget(rnd, b, x, y, vx, vy, bl, used, C02_THUNK_GADGETS)
    for g in gs:
        b.emit("gleave", "N")
    return progs.Case(cid, cfg, b.ins, {"shape": "guarded-live", "op": "+".join(used), "kinds": f"depth{depth}", "target": rr})


def dead_branch_wires(r):
    """private wires allocated inside the branch function that was NOT taken (indices)"""
    cv = r.case.meta["cond"]
    out = set()
    open_ = None
    for k, t in enumerate(r.case.instrs[:len(r.nc)]):
        w = t.split()[0]
        if w in ("fthen", "felse"):
            open_ = (k, w)
        elif w in ("fmid", "fleave") and open_:
            taken = (cv == 1) if open_[1] == "fthen" else (cv == 0)
            if not taken:
                out |= set(range(r.nc[open_[0]][1], r.nc[k][1]))
            open_ = None
    return out


def gen_wide_case(rnd, cid):
    """operations on WIDE words over the real field (BN254): bitlength 72 / 100 / 128 / 250, or an explicit width above the bitlength;
    operands below 2^64 and up to the width.  Judged by the forgery search (solve.forge), not by enumeration."""
    w = rnd.choice(WIDE_WIDTHS)
    explicit = rnd.random() < 0.25
    cfg = {"p": common.BN128, "bl": 16 if explicit else w, "res": 0, "ign": 0}
    b = progs.Builder(rnd, cfg)
    def val():
        c = rnd.random()
        if c < 0.3: return rnd.choice([0, 1, 5, 1000, 65535])
        if c < 0.6: return rnd.randrange(0, 1 << rnd.choice([20, 40, 63, 64]))
        return rnd.randrange(0, 1 << (w - 2))
    mk = lambda v: b.emit(f"mk priv r{b.int_lit(v)}", "L")
    x = mk(val())
    if explicit:
        op = rnd.choice(["to_bits_bit", "to_bits_rt"])
    else:
        op = rnd.choice(["to_bits_bit", "to_bits_bit", "to_bits_rt", "rshift", "rshift", "and", "or", "xor", "lt", "le", "gt", "ge", "check_positive"])
    if op in ("to_bits_bit", "to_bits_rt"):
        bits = b.emit(f"call to_bits r{x}" + (f" r{b.int_lit(w)}" if explicit else ""), "list")
        if op == "to_bits_bit":
            rr = b.emit(f"idx r{bits} {rnd.choice([0, 1, w // 2, w - 2, w - 1, rnd.randrange(0, w)])}", "B")
        else:
            rr = b.emit(f"call from_bits r{bits}", "L")
    elif op == "rshift":
        rr = b.emit(f"bin rshift r{x} r{b.int_lit(rnd.choice([1, 2, 8, w // 2, w - 1, rnd.randrange(0, w)]))}", "L")
    elif op == "check_positive":
        rr = b.emit(f"call check_positive r{b.emit(f'bin sub r{x} r{mk(val())}', 'L')}", "B")
    else:
        rr = b.emit(f"bin {op} r{x} r{mk(val())}", "B" if op in progs.CMPS else "L")
    return progs.Case(cid, cfg, b.ins, {"shape": "wide", "op": op, "kinds": f"width-{w}" + (":explicit" if explicit else ""), "target": rr, "width": w})


def forge_job(job):
    _, cons, honest, locked, results = job
    return solve.forge(cons, honest, locked, results, common.BN128)


def result_wires(regstr):
    """list of (kind, lc-string) for the secrets in a canonical register string"""
    import re
    return re.findall(r"([LBX]):-?\d+:([^,;\]\)]*)", regstr)


def search_job(job):
    _, cons, fixed, unknown, secrets, want = job
    alt = None; nsol = 0; nonbool = None; complete = True
    try:
        for sol in solve.solve(cons, fixed, unknown, P, limit=150000):
            nsol += 1
            full = dict(fixed); full.update(sol); full["1"] = 1
            got = [solve.ev(solve.parse_lc(lc), full, P) for _, lc in secrets]
            if got != want and alt is None:
                alt = (sol, got)
            for (k, _), g in zip(secrets, got):
                if k == "B" and g not in (0, 1) and nonbool is None:
                    nonbool = (sol, got)
            if alt and nsol > 50:
                break
    except solve.Limit:
        complete = False
    return nsol, alt, nonbool, complete


def explore(ctx, extended=False, focus=None):
    ex = Exploration()
    ex.exhaustive = False
    ex.rule = ("one value-returning operation per case (every binary operator in the kind combinations secret/secret, secret/constant, "
               "constant/secret, boolean operands; unary; selection; check_*; to_bits) on operands inside the domain incl. the "
               "comparison boundaries, traced by the real code over p = 97; complete enumeration of the satisfying assignments of the "
               "wires the operation introduced; violation = a satisfying assignment whose result differs from the honest one, or a "
               "boolean result outside {0,1}; distinct = (operator, kinds, bitlength, operand values)")
    n = ctx.n(750, 24000) * (4 if extended else 1)
    cases = corpus_cases("C02") + [gen_case(ctx.rnd, f"c02_{i}") for i in range(n)]
    cases += [gen_thunk_case(ctx.rnd, f"c02t_{i}") for i in range(n // 5)]
    cases += [gen_wide_case(ctx.rnd, f"c02w_{i}") for i in range(n // 15)]
    grnd = random.Random(ctx.seed * 4261 + 5 + (1 if extended else 0))             # own stream: the cases above stay what they were
    cases += [gen_guarded_live_case(grnd, f"c02g_{i}") for i in range(n // 6)]
    recs = execute_all(cases)
    jobs = []; jobrecs = []
    fjobs = []; fjobrecs = []
    for r in recs:
        account(ex, r)
        correspond(ex, r, LEVELS)
        if r.case.meta.get("shape") == "wide":
            # wide words over the real field: no enumeration; forgery search from the honest witness (solve.forge)
            t = r.case.meta["target"]
            ex.count(f"wide:{r.case.meta['op']}:{r.case.meta['kinds']}:{r.errcls or 'ok'}")
            if not r.ok or t >= len(r.regs) or r.unsat:
                continue
            secrets = result_wires(r.regs[t])
            if not secrets:
                continue
            pw = common.BN128
            honest = {"1": 1}
            honest.update({f"x{i+1}": v % pw for i, v in enumerate(r.pub)}); honest.update({f"w{i+1}": v % pw for i, v in enumerate(r.priv)})
            locked = {"1"} | {f"x{i+1}" for i in range(len(r.pub))}
            for k, ins in enumerate(r.case.instrs[:t + 1]):
                if ins.startswith("mk ") and k < len(r.nc) and r.nc[k][1] > (r.nc[k - 1][1] if k > 0 else 0):
                    locked.add(f"w{(r.nc[k - 1][1] if k > 0 else 0) + 1}")
            fjobs.append((len(fjobs), solve.parse_cons(r.cons), honest, locked, [solve.parse_lc(lc) for _, lc in secrets]))
            fjobrecs.append((r, t, secrets))
            continue
        if r.ok and "target" not in r.case.meta and r.case.meta.get("shape") == "corpus":
            r.case.meta["target"] = len(r.regs) - 1
        if not r.ok or "target" not in r.case.meta:
            continue
        t = r.case.meta["target"]
        if t >= len(r.regs) or t >= len(r.nc):
            continue
        ncons0, npriv0 = (r.nc[t - 1] if t > 0 else (0, 0))
        ncons1, npriv1 = r.nc[t]
        # operands keep their values: the wires created by input constructors (`mk`) are fixed; EVERY other private
        # wire (also auxiliary wires of earlier operations) belongs to the prover; all constraints so far must hold
        cons = solve.parse_cons(r.cons[:ncons1])
        fixed = {f"x{i+1}": v % P for i, v in enumerate(r.pub)}
        inputs = set()
        for k, ins in enumerate(r.case.instrs[:t + 1]):
            if ins.startswith("mk ") and k < len(r.nc):
                lo = r.nc[k - 1][1] if k > 0 else 0
                if r.nc[k][1] > lo:
                    inputs.add(lo)          # the input wire itself (a boolean input adds no further wire)
        if r.case.meta.get("shape") == "thunk":
            # the wires of the branch function that was NOT taken keep their recorded values (the prover plays the dead branch
            # honestly; its gadgets are relaxed by design and would only blow the enumeration up); everything else is the prover's
            inputs |= {i for i in dead_branch_wires(r) if i < npriv1}
            ex.count(f"thunk:{r.case.meta['kinds']}")
        for i in inputs:
            fixed[f"w{i+1}"] = r.priv[i] % P
        unknown = [f"w{i+1}" for i in range(npriv1) if i not in inputs]
        secrets = result_wires(r.regs[t])
        if not secrets:
            continue
        honest = dict(fixed); honest.update({f"w{i+1}": v % P for i, v in enumerate(r.priv)}); honest["1"] = 1
        want = [solve.ev(solve.parse_lc(lc), honest, P) for _, lc in secrets]
        jobs.append((len(jobs), cons, fixed, unknown, secrets, want))
        jobrecs.append((r, t, inputs, want))
    import multiprocessing as mp
    with mp.Pool(min(14, max(1, len(jobs)))) as pool:
        results = pool.map(search_job, jobs, chunksize=4)
        fresults = pool.map(forge_job, fjobs, chunksize=1) if fjobs else []
    for (r, t, secrets), fr in zip(fjobrecs, fresults):
        ex.count("forgery-search:" + ("forged" if fr else "none"))
        ex.distinct.add(("wide", r.case.meta["op"], r.case.meta["kinds"], tuple(r.priv[:2])))
        if fr:
            u, changed, got = fr
            sig = instr_sig(r.case, r.regs, t)
            sig.update(dev="forged-on-wide-word", mode="wide-word-forgery", width="above-64-bits")
            ex.violations.append(Violation(sig, f"{r.case.instrs[t]} at width {r.case.meta['width']} over BN254: changing the single witness wire {u} "
                                                f"(and repairing {len(changed) - 1} others) satisfies every emitted constraint and gives the result "
                                                f"{[g if g < (1 << 200) else g - common.BN128 for g in got]} instead of the honest one",
                                           {"case": r.case.line(), "target": t, "changed_wire": u, "forged_wires": changed, "forged_result": got}))
    for (r, t, inputs, want), (nsol, alt, nonbool, complete) in zip(jobrecs, results):
        ex.count("search:complete" if complete else "search:limit")
        ex.distinct.add((r.case.meta["op"], r.case.meta["kinds"], r.case.cfg["bl"], tuple(r.priv[i] for i in sorted(inputs)), tuple(r.pub), r.case.meta.get("history", False)))
        sig = instr_sig(r.case, r.regs, t)
        if r.case.meta.get("shape") == "guarded-live":
            # a gadget inside a TAKEN guarded() region: classified apart from the same operator outside regions
            sig["instr"] = "guarded(1):" + sig["instr"]; sig["mode"] = "taken-region"
            ex.count(f"guarded-live:{r.case.meta['kinds']}:{r.case.instrs[t].split()[1] if len(r.case.instrs[t].split()) > 1 else '?'}")
        if r.case.instrs[t].startswith("bin truediv"):
            # finding C02-truediv-zero-mod-p: a secret divisor whose integer value is a nonzero multiple of p
            import re as _re
            toks = r.case.instrs[t].split()
            db = int(toks[3][1:]) if len(toks) > 3 and toks[3][1:].isdigit() else -1
            mm = _re.match(r"L:(-?\d+):", r.regs[db]) if 0 <= db < len(r.regs) else None
            if mm and int(mm.group(1)) != 0 and int(mm.group(1)) % P == 0:
                sig["divisor"] = "nonzero-multiple-of-p"
        if nsol == 0 and complete and not r.case.cfg.get("ign"):
            ex.violations.append(Violation(dict(sig, dev="honest-witness-unsat"),
                                           f"{r.case.instrs[t]}: no assignment of the new wires satisfies the emitted constraints",
                                           {"case": r.case.line()}))
        if alt:
            ex.violations.append(Violation(dict(sig, dev="result-not-determined"),
                                           f"{r.case.instrs[t]}: the emitted constraints are also satisfied with result {alt[1]} (honest: {want}) over p=97",
                                           {"case": r.case.line(), "target": t, "alternative_witness": alt[0], "result": alt[1], "honest": want}))
        if nonbool:
            ex.violations.append(Violation(dict(sig, dev="boolean-not-forced"),
                                           f"{r.case.instrs[t]}: a satisfying assignment gives a boolean-typed result outside {{0,1}}: {nonbool[1]}",
                                           {"case": r.case.line(), "alternative_witness": nonbool[0]}))
        if len(ex.samples) < 6:
            ex.samples.append(r.case.line())
    return ex


def replay(ctx, payload):
    rp = payload["replay"]
    r = replay_case(rp["case"])
    alt = rp.get("forged_wires") or rp.get("alternative_witness")
    if alt and "target" in rp and not r.harness_error and r.ok and rp["target"] < len(r.regs):
        # re-execute on the real code, put the recorded alternative values on their wires and re-check EVERY constraint
        pw = int(rp["case"].split("|")[2].split(",")[0].split("=")[1])
        asg = {"1": 1}
        asg.update({f"x{i+1}": v % pw for i, v in enumerate(r.pub)}); asg.update({f"w{i+1}": v % pw for i, v in enumerate(r.priv)})
        secrets = result_wires(r.regs[rp["target"]])
        honest = [solve.ev(solve.parse_lc(lc), asg, pw) for _, lc in secrets]
        asg.update({w: int(v) for w, v in alt.items()})
        cons = solve.parse_cons(r.cons if rp.get("forged_wires") else r.cons[:r.nc[rp["target"]][0]])
        bad = [i for i, (a, b, c) in enumerate(cons) if (solve.ev(a, asg, pw) * solve.ev(b, asg, pw) - solve.ev(c, asg, pw)) % pw != 0]
        got = [solve.ev(solve.parse_lc(lc), asg, pw) for _, lc in secrets]
        print(f"alternative witness ({len(alt)} wires changed): {len(cons) - len(bad)} of {len(cons)} constraints hold; result {got} (honest {honest})")
        if not bad and got != honest:
            print("VIOLATION property=C02 replay=(given) reproduced: a second witness with another result")
            return 1
        print("not reproduced on this tree")
    return 0
