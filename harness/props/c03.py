"""C03 — assertions and declared types are enforced inside the circuit."""
import multiprocessing as mp
from .. import common, progcheck, solve
from ..framework import Exploration, Violation
from ..gen import progs
from ..propsbase import *

ASSUMPTIONS = ["each assertion is executed twice on the real code over p = 97 (bitlength 2..5): with error checking on (does the "
               "run-time check accept?) and off (what circuit is emitted for these operand values?); the emitted system is then "
               "searched exhaustively for a satisfying assignment with the operand wires fixed (all auxiliary wires free)",
               "in 30% of the cases the operand OBJECT is used earlier in the program by an operation that splits it into bits (to_bits at "
               "the default or a wider width, assert_positive, check_positive, &, >>, %), outside any guard, under a true guard or under a "
               "false guard; the assertion under test must then be enforced exactly as on a fresh value",
               "declarations made by unpacking (PackIntMod.unpack on raw secret bits declares 0 <= value < mod): executed through "
               "harness/worker_pack.py (mode unpack-raw) with checks on and off, same three-way comparison; on the large fields the recorded "
               "witness stands in for the search",
               "the same for COMPOSITE schemas (PackList / PackRepeat / nested, 2-5 leaves) whose leaf segments in the bit list are plain "
               "Python ints or raw secrets independently of each other (public leaves first and a secret integer field later, secret first, "
               "a secret field between public ones, random, all-plain / all-secret controls): every secret PackIntMod leaf is declared "
               "0 <= value < mod wherever it sits; plain leaves declare nothing on unpack; model-compared through the same K|..|U line (`i:b` bits)",
               "the witness search splits the system into the connected components of its free wires and tries the recorded witness first "
               "in each component (harness/solve.py satisfiable(): complete whenever it returns)",
               "the asserted relation is also evaluated independently from the property text (equal, not equal, <, <=, >, >=, zero, "
               "non-zero, 0 <= v < 2^width, lo <= v < hi, boolean, n-bit)"]
PARTIAL = ["gadget-level theorems are for unguarded states; C03_program (every executed assertion holds under every satisfying assignment) is "
           "for runs inside SoundFragment (Spec/SoundProg.lean: no guarded regions, error checking on, none of the operators recorded unsound "
           "under C02): assertions executed under a guard are covered by the oracle only"]
LEVELS = "S"
P = 97
KINDS = ["assert_lt", "assert_le", "assert_eq", "assert_ne", "assert_gt", "assert_ge", "assert_zero", "assert_nonzero",
         "assert_positive", "assert_positive_w", "assert_range", "to_bits_w", "boolean", "assert_eq_bool", "assert_lt_fxp",
         "boolean", "boolean_via"]
DECL_KINDS = ("boolean", "boolean_via")     # declarations of the operand as a boolean: the constructor refuses other values even with
                                            # error checking off, so the circuit is traced on an honest 0/1 and the operand wire is then
                                            # re-fixed to other field elements (`transplant` below)
VIA = ["and", "or", "xor", "eq", "ne", "rand", "ror", "rxor"]


def relation(kind, bl, a, b, c):
    """the asserted relation, from the property text; None = not specified"""
    fits = lambda v: 0 <= v < (1 << bl)
    if kind == "assert_lt": return a < b and fits(b - a - 1)
    if kind == "assert_le": return a <= b and fits(b - a)
    if kind == "assert_gt": return a > b and fits(a - b - 1)
    if kind == "assert_ge": return a >= b and fits(a - b)
    if kind in ("assert_eq", "assert_eq_bool"): return a == b
    if kind == "assert_ne": return a != b
    if kind == "assert_zero": return a == 0
    if kind == "assert_nonzero": return a % P != 0
    if kind == "assert_positive": return fits(a)
    if kind == "assert_positive_w": return 0 <= a < (1 << b)
    if kind == "to_bits_w": return 0 <= a < (1 << b)
    if kind == "assert_range": return b <= a < c and fits(a - b) and fits(c - a - 1)
    if kind in DECL_KINDS: return a in (0, 1)
    return None


def gen_case(rnd, cid):
    bl = rnd.choice([2, 3, 3, 4, 4, 5])
    half = 1 << (bl - 1); full = 1 << bl
    kind = rnd.choice(KINDS)
    a = rnd.randrange(-half, full + 2); b = a + rnd.choice([0, 0, 1, -1, 1, -1, 2, -2, full - 1, full, full + 1, -full])
    c = 0
    ins = [progs.lit_int(a), "mk priv r0"]
    if kind in ("assert_lt", "assert_le", "assert_eq", "assert_ne", "assert_gt", "assert_ge"):
        ko = rnd.choice(["L", "I"])
        ins += [progs.lit_int(b)] + (["mk priv r2"] if ko == "L" else [])
        ins.append(f"call {kind} r1 r{len(ins) - 1}")
    elif kind in ("assert_zero", "assert_nonzero"):
        a = rnd.choice([0, 0, 1, -1, 3, 40, -40]); ins[0] = progs.lit_int(a)   # |a| < p/2: operands are field elements
        ins.append(f"call {kind} r1")
    elif kind == "assert_positive":
        ins.append("call assert_positive r1")
    elif kind == "assert_positive_w":
        b = min(rnd.choice([0, 1, 2, 3, bl - 1, bl, bl + 1, bl + 2]), 5)      # 2^(b+1) <= 97: the width must fit the search field
        a = rnd.choice([0, 1, (1 << b) - 1, 1 << b, (1 << b) + 1, -1, full - 1, full, half])
        ins[0] = progs.lit_int(a)
        ins += [progs.lit_int(b), "call assert_positive r1 r2"]
    elif kind == "to_bits_w":
        b = min(rnd.choice([0, 1, 2, 3, bl - 1, bl, bl + 1, bl + 2]), 5)
        a = rnd.choice([0, 1, (1 << b) - 1, 1 << b, (1 << b) + 1, -1, full - 1, full, half])
        ins[0] = progs.lit_int(a)
        ins += [progs.lit_int(b), "call to_bits r1 r2"]
    elif kind == "assert_range":
        b = a - rnd.choice([0, 0, 1, 2, -1]); c = a + rnd.choice([0, 0, 1, 1, 2, -1])
        ins += [progs.lit_int(b), progs.lit_int(c)]
        if rnd.random() < 0.5:
            ins += ["mk priv r2", "mk priv r3", "call assert_range r1 r4 r5"]
        else:
            ins.append("call assert_range r1 r2 r3")
    elif kind == "boolean":
        a = rnd.choice([0, 1, 2, -1, 3, 40]); ins[0] = progs.lit_int(a)
        ins.append("wrapb r1")
    elif kind == "boolean_via":
        # the operand is declared boolean by being combined with a value of the boolean type (`b & x`, `x | b`, `b == x`, ...)
        a = rnd.choice([0, 1, 0, 1, 0, 1, 2, -1, 3]); b = rnd.choice([0, 1]); via = rnd.choice(VIA)
        ins = [progs.lit_int(a), "mk priv r0", progs.lit_int(b), "mk privb r2",
               f"bin {via[1:]} r1 r3" if via in ("rand", "ror", "rxor") else f"bin {via} r3 r1"]
    elif kind == "assert_eq_bool":
        a = rnd.choice([0, 1]); b = rnd.choice([0, 1]); ins = [progs.lit_int(a), "mk privb r0", progs.lit_int(b), "mk privb r2", "call assert_eq r1 r3"]
    elif kind == "assert_lt_fxp":
        a = rnd.randrange(-2, 3); b = rnd.randrange(-2, 3)
        ins = [progs.lit_int(a), "mk privx r0", progs.lit_int(b), "mk privx r2", "call assert_lt r1 r3"]
        kind2 = "assert_lt"
    cfg = {"p": P, "bl": bl, "res": 1 if kind == "assert_lt_fxp" else 0, "ign": 0}
    meta = {"shape": "assert", "op": kind, "kinds": "", "abc": (a, b, c)}
    if kind == "boolean_via":
        meta["via"] = via
    if kind not in ("assert_eq_bool", "assert_lt_fxp") and rnd.random() < (0.6 if kind in DECL_KINDS else 0.3):
        ins, meta["prelude"] = with_prelude(rnd, ins, a, bl, decl=kind in DECL_KINDS)
    return progs.Case(cid, cfg, ins, meta)


PRELUDES = ["to_bits", "to_bits_w", "assert_positive", "check_positive", "and", "rshift", "mod"]
# earlier uses that DECLARE the operand object boolean (LinCombBool(x), b & x, b | x, b ^ x, b == x with b of the boolean type)
DECL_PRELUDES = ["wrapb", "band", "bor", "bxor", "beq", "rband"]


def with_prelude(rnd, ins, a, bl, decl=False):
    """the operand OBJECT under test (r1) is used earlier in the program by an operation that splits it into bits at the
    default or a wider width (to_bits, assert_positive, check_positive, &, >>, %), outside any guard, under a true guard or
    under a FALSE guard; the assertion that follows must be enforced exactly as on a fresh value.  Outside a false guard the
    earlier use is only generated where it is valid for the operand (0 <= a < 2^bitlength).
    A second family of earlier uses DECLARES the operand object boolean (DECL_PRELUDES; only for operand values 0/1, the
    constructor refuses anything else in every mode): whatever such a declaration left behind on the object -- in particular
    one made under a false guard, where its constraint is vacuous -- the later assertion or declaration must be enforced in full."""
    guard = rnd.choice([None, None, 0, 0, 1])
    valid = 0 <= a < (1 << bl)
    if not valid and guard != 0:
        if rnd.random() < 0.5:
            return ins, None
        guard = 0
    if a in (0, 1) and rnd.random() < (0.6 if decl else 0.25):
        k = rnd.choice(DECL_PRELUDES)
    else:
        k = rnd.choice(PRELUDES)
    pre = []
    nxt = lambda: 2 + len(pre)
    if guard is not None:
        pre += [progs.lit_int(guard), "mk priv r2", "genter r3"]
    if k == "to_bits":
        pre.append("call to_bits r1")
    elif k == "to_bits_w":
        w = min(5, rnd.choice([bl, bl + 1, 5]))
        if valid and a >= (1 << w): w = 5
        pre.append(progs.lit_int(w)); pre.append(f"call to_bits r1 r{nxt() - 1}")
    elif k == "assert_positive":
        pre.append("call assert_positive r1")
    elif k == "check_positive":
        pre.append("call check_positive r1")
    elif k == "and":
        pre.append(progs.lit_int(rnd.randrange(0, 1 << (bl - 1)))); pre.append(f"mk priv r{nxt() - 1}"); pre.append(f"bin and r1 r{nxt() - 1}")
    elif k == "rshift":
        pre.append(progs.lit_int(rnd.randrange(0, 3))); pre.append(f"bin rshift r1 r{nxt() - 1}")
    elif k == "wrapb":
        pre.append("wrapb r1")
    elif k in DECL_PRELUDES:
        pre.append(progs.lit_int(rnd.choice([0, 1]))); pre.append(f"mk privb r{nxt() - 1}")
        op = {"band": "and", "bor": "or", "bxor": "xor", "beq": "eq", "rband": "and"}[k]
        pre.append(f"bin {op} r1 r{nxt() - 1}" if k == "rband" else f"bin {op} r{nxt() - 1} r1")
    else:
        pre.append(progs.lit_int(rnd.randrange(1, 1 << (bl - 1)) if bl > 1 else 1)); pre.append(f"bin mod r1 r{nxt() - 1}")
    if guard is not None:
        pre.append("gleave")
    import re
    sh = len(pre)
    rest = [re.sub(r"\br(\d+)\b", lambda m: f"r{int(m.group(1)) + sh}" if int(m.group(1)) >= 2 else m.group(0), t) for t in ins[2:]]
    return ins[:2] + pre + rest, k + {None: "", 0: ":false-guard", 1: ":true-guard"}[guard]


def sat_job(job):
    cons, fixed, unknown, hint = job
    try:
        return solve.satisfiable(cons, fixed, unknown, P, hint=hint, limit=200000)
    except solve.Limit:
        return None


def explore(ctx, extended=False, focus=None):
    ex = Exploration()
    ex.rule = ("every assertion kind (eq, ne, lt, le, gt, ge, zero, non-zero, non-negative with default and explicit width, range, "
               "boolean declaration, n-bit declaration, unpacking of raw secret bits modulo m alone and inside composite schemas next to plain (public) leaves in every order; integer, boolean and fixed-point receivers; "
               "secret and constant right operands; operand fresh or already split into bits earlier in the program) on operand values on both sides of the relation and at its boundaries; per case: accepted by the run-time "
               "check? / emitted system satisfiable with the operands fixed? / relation true?; distinct = (kind, bitlength, operands)")
    n = ctx.n(1200, 32000) * (3 if extended else 1)
    cases = corpus_cases("C03") + [gen_case(ctx.rnd, f"c03_{i}") for i in range(n)]
    on = execute_all(cases)                                   # error checking on: the run-time relation
    off_cases = []
    for c in cases:
        c2 = progs.Case(c.cid + "i", c.cfg, c.instrs, c.meta); c2.cfg["ign"] = 1
        off_cases.append(c2)
    off = execute_all(off_cases, with_model=True)             # checks off: the circuit for these values
    jobs = []; idx = []
    for k, (r1, r0) in enumerate(zip(on, off)):
        account(ex, r1)
        correspond(ex, r1, LEVELS); correspond(ex, r0, LEVELS)
        if not r0.ok:
            continue        # raised even with checks off (type error, non-boolean value for the boolean type, ...)
        cons = solve.parse_cons(r0.cons)
        fixed = {f"x{i+1}": v % P for i, v in enumerate(r0.pub)}
        inputs = set()
        for j, ins in enumerate(r0.case.instrs):
            if ins.startswith("mk ") and j < len(r0.nc):
                lo = r0.nc[j - 1][1] if j > 0 else 0
                if r0.nc[j][1] > lo:
                    inputs.add(lo)
        for i in inputs:
            fixed[f"w{i+1}"] = r0.priv[i] % P
        unknown = [f"w{i+1}" for i in range(len(r0.priv)) if i not in inputs]
        hint = {f"w{i+1}": v % P for i, v in enumerate(r0.priv)}     # tried first, per connected component of the system
        jobs.append((cons, fixed, unknown, hint)); idx.append((k, None))
        if r1.case.meta["op"] in DECL_KINDS and r1.ok and r1.cons == r0.cons and len(r1.nc) > 1 and r1.nc[1][1] == 1:
            # transplant: the system traced for an honest boolean operand, with the operand wire (w1) re-fixed to other values
            for alt in sorted({0, 1, 2, 3, P - 1, ctx.rnd.randrange(4, P - 1)}):
                jobs.append((cons, dict(fixed, w1=alt), unknown, hint)); idx.append((k, alt))
    with mp.Pool(14) as pool:
        res = pool.map(sat_job, jobs, chunksize=8)
    for (k, alt), sat in zip(idx, res):
        r1, r0 = on[k], off[k]
        if alt is not None:
            transplant_verdict(ex, r1, alt, sat)
            continue
        kind = r1.case.meta["op"]; a, b, c = r1.case.meta.get("abc", (0, 0, 0)); bl = r1.case.cfg["bl"]
        ex.distinct.add((kind, bl, a, b, c))
        if sat is None:
            ex.count("search:limit"); continue
        ex.count("search:complete")
        accepted = r1.ok
        value_error = (not r1.ok) and r1.errcls in ("AssertionError", "ValueError")
        if not accepted and not value_error:
            continue        # TypeError etc.: not a statement about the relation
        rel = relation(kind, bl, a, b, c)
        sig = {"assertion": kind}
        pre = r1.case.meta.get("prelude")
        if pre:
            fam = "operand-declared-boolean-earlier" if pre.split(":")[0] in DECL_PRELUDES else "operand-split-earlier"
            sig["history"] = fam + ("-under-" + pre.split(":")[1] if ":" in pre else "")
            ex.count(f"prelude:{pre}")
        if kind in ("assert_positive_w", "to_bits_w"):
            sig["width"] = "below-bitlength" if b < bl else ("above-bitlength" if b > bl else "equal")
        rep = {"case": r1.case.line(), "operands": [a, b, c], "accepted_at_runtime": accepted, "circuit_satisfiable": sat,
               "relation_true": rel}
        ex.count(f"outcome:{kind}:{'acc' if accepted else 'rej'}:{'sat' if sat else 'unsat'}")
        if accepted and not sat:
            ex.violations.append(Violation(dict(sig, dev="accepted-but-unsatisfiable"),
                                           f"{kind}{(a, b, c)} at bitlength {bl} is accepted but its constraints are unsatisfiable", rep))
        if (not accepted) and sat:
            ex.violations.append(Violation(dict(sig, dev="rejected-but-satisfiable"),
                                           f"{kind}{(a, b, c)} at bitlength {bl}: the run-time check rejects these operands but the emitted "
                                           f"constraints are satisfiable with them: the circuit enforces a weaker relation", rep))
        if rel is not None and accepted != rel and kind != "assert_lt_fxp":
            ex.violations.append(Violation(dict(sig, dev="runtime-relation-differs"),
                                           f"{kind}{(a, b, c)} at bitlength {bl}: run-time check {'accepts' if accepted else 'rejects'}, "
                                           f"the asserted relation is {'true' if rel else 'false'}", rep))
        if len(ex.samples) < 6:
            ex.samples.append(r1.case.line())
    histories_after_failure(ctx, ex, extended)
    unpack_secret_bits(ctx, ex, extended)
    return ex


def transplant_verdict(ex, r1, alt, sat):
    """declaration of the operand as boolean: the emitted system, with the operand wire fixed to `alt` and every other input
    as recorded, must be satisfiable exactly when alt is 0 or 1"""
    kind = r1.case.meta["op"]; a, b, c = r1.case.meta["abc"]; bl = r1.case.cfg["bl"]
    if sat is None:
        ex.count("search:limit"); return
    ex.count("search:complete"); ex.count(f"transplant:{kind}:{'bool' if alt in (0, 1) else 'nonbool'}:{'sat' if sat else 'unsat'}")
    ex.distinct.add((kind, bl, a, b, "alt", alt))
    sig = {"assertion": kind if kind == "boolean" else "boolean-via-" + r1.case.meta["via"].lstrip("r")}
    pre = r1.case.meta.get("prelude")
    if pre:
        fam = "operand-declared-boolean-earlier" if pre.split(":")[0] in DECL_PRELUDES else "operand-split-earlier"
        sig["history"] = fam + ("-under-" + pre.split(":")[1] if ":" in pre else "")
    rep = {"case": r1.case.line(), "operands": [a, b, c], "operand_wire": "w1", "operand_wire_fixed_to": alt, "circuit_satisfiable": sat,
           "relation_true": alt in (0, 1), "how": "trace the case (operand value 0/1), fix w1 to operand_wire_fixed_to and every other "
           "`mk` input wire to its recorded value, search all remaining private wires over p = 97"}
    if sat and alt not in (0, 1):
        ex.violations.append(Violation(dict(sig, dev="satisfiable-with-non-boolean-operand"),
                                       f"{kind} (traced with operand {a}): with the operand wire fixed to {alt} the emitted constraints are "
                                       f"satisfiable: the declaration as boolean is not enforced in the circuit"
                                       + (f" (history: {pre})" if pre else ""), rep))
    if not sat and alt in (0, 1):
        ex.violations.append(Violation(dict(sig, dev="unsatisfiable-with-boolean-operand"),
                                       f"{kind} (traced with operand {a}): with the operand wire fixed to {alt} the emitted constraints are "
                                       f"unsatisfiable" + (f" (history: {pre})" if pre else ""), rep))


def histories_after_failure(ctx, ex, extended):
    """an assertion made AFTER a failure inside a guarded function was caught by the caller is an ordinary assertion: it must
    still reject a false relation at run time (and a true one must still pass), whatever exception class the failure had"""
    rnd = ctx.rnd
    lines = []; want = []
    for i in range(ctx.n(120, 1500) * (2 if extended else 1)):
        g = rnd.choice([0, 1]); gk = rnd.choice(["L", "B"])
        fail = rnd.choice(["!", "!b", "lt:-200:127", "az:7", "!"])
        pre = rnd.choice(["", "lt:1:2 ", "az:0 "])
        inner = f"G:{gk}:{g}( {pre}{fail} )"
        if rnd.random() < 0.3:
            inner = f"G:L:1( {inner} )"
        v = rnd.choice([0, 0, 5, -3, 1])
        final = f"az:{v}"
        ok = (v == 0)
        lines.append(f"H|c03h{i}|p={common.BN128},bl=8|T( {inner} ) {final}"); want.append((ok, final, inner))
    out = common.run_workers(lines, script="worker_guard.py")
    ml = common.lean_driver(lines)
    for l, o, m, (ok, final, inner) in zip(lines, out, ml, want):
        f = o.split("|")
        if len(f) < 3 or f[1] == "harness-error":
            raise common.Infra("worker_guard: " + o[:300])
        ex.evaluations += 1; ex.count("history:assertion-after-recovered-failure")
        ex.distinct.add(("hist", inner.split("(")[0], final.split(":")[0], ok))
        got = "|".join(f[:6]); mod = "|".join(m.split("|")[:6])
        if got != mod:
            ex.disagreements.append({"case": l, "impl": o[:300], "model": m[:300]})
        else:
            ex.traces_validated += 1
        raised = f[1] == "raised"
        if raised == ok:
            ex.violations.append(Violation({"assertion": "assert_zero", "dev": "after-recovered-failure", "expected": "pass" if ok else "reject"},
                                           f"after a failure inside a guarded function was caught, the top-level check {final} "
                                           f"{'raises' if raised else 'does not raise'} although its relation is {'true' if ok else 'false'} "
                                           f"(history: T( {inner} ) {final}; state after: {f[2]} {f[3]})", {"history": l}))


def _schema_str(s):
    if s[0] == "B": return "B"
    if s[0] == "M": return f"M{s[1]}"
    if s[0] == "L": return "L(" + ",".join(_schema_str(x) for x in s[1]) + ")"
    return f"R{s[2]}({_schema_str(s[1])})"


def _fields(s):
    """the leaf fields of a packer schema in bit order"""
    if s[0] in ("B", "M"): return [s]
    if s[0] == "L": return [f for x in s[1] for f in _fields(x)]
    return [f for _ in range(s[2]) for f in _fields(s[1])]


def gen_unpack_job(rnd, small):
    """a packer schema and a list of RAW SECRET bits (PrivVal(0/1), not of the boolean type) handed to `unpack`: the declaration
    `0 <= value < mod` of every PackIntMod field is the subject; field values sit at mod-1, mod, mod+1, 0, 2^n-1 and random"""
    bl = rnd.choice([2, 3, 4, 5]) if small else rnd.choice([8, 16, 32])
    def field():
        if rnd.random() < 0.15:
            return ["B"]
        c = rnd.random()
        top = 1 << bl
        if c < 0.55:                                            # not a power of two: the bits can encode values >= mod
            m = rnd.choice([3, 5, 6, 7, 9, 10, 11, 12, 13, 14, 15, 17, 20, 24, 31] if small else [3, 5, 6, 10, 12, 13, 100, 255, 257, 1000, 40000])
            while m > top: m = m // 2 + 1
        elif c < 0.85:
            m = 1 << rnd.randrange(1, min(bl, 15) + 1)
        else:                                                   # wider than the bitlength: mod - v - 1 may not fit
            m = rnd.choice([top + 1, top + 3, 2 * top - 1]) if small else rnd.choice([top + 1, 3 * top])
        return ["M", max(m, 2)]
    k = rnd.choice([1, 1, 1, 1, 2, 3])
    if k == 1:
        s = field()
        if s[0] == "B": s = ["M", 5 if bl > 2 else 3]
    elif rnd.random() < 0.3:
        s = ["R", field(), k]
    else:
        s = ["L", [field() for _ in range(k)]]
    vals = []; bits = []
    for f in _fields(s):
        if f[0] == "B":
            v = rnd.choice([0, 1]); n = 1
        else:
            m = f[1]; n = (m - 1).bit_length()
            v = rnd.choice([m - 1, m, m, m + 1, 0, (1 << n) - 1, rnd.randrange(0, 1 << n), rnd.randrange(0, m)])
            v = max(0, min(v, (1 << n) - 1))
        vals.append(v); bits += [f"L:{(v >> i) & 1}" for i in range(n)]
    if rnd.random() < 0.1:
        bits.append("L:1")                                      # a trailing bit that belongs to nobody
    return {"schema": s, "bits": bits, "mode": "unpack-raw", "p": P if small else common.BN128, "bl": bl, "vals": vals}


MIXED_LAYOUTS = ["plain-leaf-first", "plain-leaf-first", "plain-leaf-first", "secret-leaf-first", "secret-leaf-first",
                 "plain-leaves-around", "random", "all-plain", "all-secret"]


def _nest(s, it):
    """the flat list of leaf values `it` (an iterator) in the structure `unpack` returns for schema s"""
    if s[0] in ("B", "M"): return next(it)
    if s[0] == "L": return [_nest(x, it) for x in s[1]]
    return [_nest(s[1], it) for _ in range(s[2])]


def gen_unpack_mixed_job(rnd, small, k):
    """a COMPOSITE packer schema (PackList / PackRepeat / nested, 2-5 leaves) and a bit list whose leaf segments are plain
    Python ints or raw secrets INDEPENDENTLY of each other: public leaves first and a secret integer field later (a record with
    a public header), secret first and public later, a secret field between public ones, random masks, and the all-plain /
    all-secret controls.  Every SECRET PackIntMod leaf is declared 0 <= value < mod wherever it sits in the list and whatever
    precedes it; plain leaves declare nothing on unpack (their range is checked by `pack`).  Moduli of the secret leaves are
    mostly not powers of two; values mod-1, mod, mod+1, 0, 2^n-1, random."""
    bl = rnd.choice([3, 4, 4, 5]) if small else rnd.choice([8, 16, 32])
    top = 1 << bl
    def field(boolean_ok=True):
        c = rnd.random()
        if boolean_ok and c < 0.15:
            return ["B"]
        if c < 0.8:                                             # not a power of two: the bits can encode values >= mod
            m = rnd.choice([3, 5, 6, 7, 9, 10, 11, 12, 13, 14, 15, 17, 20, 24, 31] if small else [3, 5, 6, 10, 12, 13, 100, 255, 257, 1000, 40000])
            while m > top: m = m // 2 + 1
        elif c < 0.93:
            m = 1 << rnd.randrange(1, min(bl, 15) + 1)
        else:                                                   # wider than the bitlength: mod - v - 1 may not fit
            m = rnd.choice([top + 1, top + 3]) if small else rnd.choice([top + 1, 3 * top])
        return ["M", max(m, 3)]
    shape = rnd.choice(["L", "L", "L", "L3", "R", "LL", "LR", "RL"])
    if shape == "L": s = ["L", [field(), field(False)]]
    elif shape == "L3": s = ["L", [field(), field(), field(False)] + ([field()] if rnd.random() < 0.3 else [])]
    elif shape == "R": s = ["R", field(False), rnd.choice([2, 3])]
    elif shape == "LL": s = ["L", [["L", [field(), field()]], field(False)] if rnd.random() < 0.5 else [field(), ["L", [field(False), field()]]]]
    elif shape == "LR": s = ["L", [["R", field(), 2], field(False)] if rnd.random() < 0.5 else [field(), ["R", field(False), 2]]]
    else: s = ["R", ["L", [field(), field(False)]], 2]
    fields = _fields(s)
    nf = len(fields)
    ints = [i for i, f in enumerate(fields) if f[0] == "M"]
    layout = MIXED_LAYOUTS[k % len(MIXED_LAYOUTS)]
    if layout == "plain-leaf-first":                            # public header, then at least one secret integer field
        mask = [0] + [rnd.choice([0, 1]) for _ in range(nf - 1)]
        later = [i for i in ints if i > 0]
        mask[rnd.choice(later)] = 1
    elif layout == "secret-leaf-first":
        mask = [1] + [rnd.choice([0, 1]) for _ in range(nf - 1)]
        mask[rnd.randrange(1, nf)] = 0
    elif layout == "plain-leaves-around":                       # one secret integer field, everything else public
        mask = [0] * nf
        mask[rnd.choice(ints)] = 1
    elif layout == "random":
        mask = [rnd.choice([0, 1]) for _ in range(nf)]
    else:
        mask = [0 if layout == "all-plain" else 1] * nf
    secret_ints = [i for i in ints if mask[i]]
    # at most one secret field out of range per job (so that the verdict names it), in 60% of the jobs
    out = rnd.choice(secret_ints) if secret_ints and rnd.random() < 0.6 else None
    vals = []; bits = []
    for i, (f, sec) in enumerate(zip(fields, mask)):
        if f[0] == "B":
            v = rnd.choice([0, 1]); n = 1
        else:
            m = f[1]; n = (m - 1).bit_length(); full = (1 << n) - 1
            if i == out:
                v = rnd.choice([m, m, m + 1, full, rnd.randrange(m, full + 1) if m <= full else m])
            elif sec or rnd.random() < 0.8:
                v = rnd.choice([m - 1, m - 1, 0, 1, rnd.randrange(0, m)])
            else:                                               # a public leaf spelling a number >= mod: nothing is declared about it
                v = rnd.choice([m, full])
            v = max(0, min(v, full))
        vals.append(v); bits += [f"{'L' if sec else 'i'}:{(v >> b) & 1}" for b in range(n)]
    if rnd.random() < 0.1:
        bits.append(rnd.choice(["L:1", "i:1"]))                 # a trailing bit that belongs to nobody
    return {"schema": s, "bits": bits, "mode": "unpack-raw", "p": P if small else common.BN128, "bl": bl, "vals": vals,
            "mask": mask, "layout": layout}


def unpack_job(job):
    cons, fixed, unknown, p, hint = job
    try:
        return solve.satisfiable(cons, fixed, unknown, p, hint=hint, limit=200000)
    except solve.Limit:
        return None


def unpack_secret_bits(ctx, ex, extended):
    """declarations made by unpacking: `PackIntMod(mod).unpack(bits, pos)` on raw secret bits declares 0 <= value < mod.
    Run-time accept/reject must equal that relation; with error checking off the emitted system, with the bit wires fixed,
    must be satisfiable exactly when the relation holds (exhaustive search over p = 97; on the large fields: the recorded
    witness must violate a constraint when the relation is false)"""
    import json
    rnd = ctx.rnd
    n = ctx.n(300, 6000) * (2 if extended else 1)
    jobs = [gen_unpack_job(rnd, small=(i % 3 != 2)) for i in range(n)]
    # composite schemas whose leaf segments are plain ints or raw secrets independently (public header + secret field, ...)
    jobs += [gen_unpack_mixed_job(rnd, small=(i % 4 != 3), k=i) for i in range(ctx.n(270, 5400) * (2 if extended else 1))]
    lines = []; mlines = []
    for i, j in enumerate(jobs):
        for ign in (0, 1):
            lines.append(f"K|u{i}_{ign}|{j['bl']}|" + json.dumps(dict(j, ign=ign)))
            mlines.append(f"K|u{i}_{ign}|{j['bl']}|{_schema_str(j['schema'])}|[{','.join(j['bits'])}]|U|{j['p']}|{ign}")
    outs = common.run_workers(lines, script="worker_pack.py")
    ml = common.lean_driver(mlines)
    sat_jobs = []; sat_idx = []
    recs = []
    for i, j in enumerate(jobs):
        on = json.loads(outs[2 * i].split("|", 1)[1]); off = json.loads(outs[2 * i + 1].split("|", 1)[1])
        for d in (on, off):
            if "harness-error" in d:
                raise common.Infra(str(d))
        for d, m, l in ((on, ml[2 * i], lines[2 * i]), (off, ml[2 * i + 1], lines[2 * i + 1])):
            mf = m.split("|")
            if "UNMODELLED" in m:
                ex.unmodelled += 1; continue
            impl = f"ok|{d['bitlen']}|{d['backstr']}|NPRIV={len(d['priv'])}|CONS={' & '.join(d['cons'])}" if d["unpack"] == "ok" \
                else f"err:{d['unpack']}|{d['bitlen']}"
            if "|".join(mf[1:]) != impl:
                ex.disagreements.append({"case": l, "impl": impl[:300], "model": m[:300]})
            else:
                ex.traces_validated += 1
        recs.append((on, off))
        if j["p"] == P and off["unpack"] == "ok":
            fixed = {f"w{k+1}": off["priv"][k] for k in range(off["ninputs"])}
            unknown = [f"w{k+1}" for k in range(off["ninputs"], len(off["priv"]))]
            hint = {f"w{k+1}": v for k, v in enumerate(off["priv"])}
            sat_jobs.append((solve.parse_cons(off["cons"]), fixed, unknown, P, hint)); sat_idx.append(i)
    with mp.Pool(14) as pool:
        res = dict(zip(sat_idx, pool.map(unpack_job, sat_jobs, chunksize=8)))
    for i, (j, (on, off)) in enumerate(zip(jobs, recs)):
        ex.evaluations += 1
        bl = j["bl"]; fields = _fields(j["schema"])
        ex.distinct.add(("unpack", _schema_str(j["schema"]), tuple(j["vals"]), bl))
        fits = lambda v: 0 <= v < (1 << bl)
        mask = j.get("mask") or [1] * len(fields)               # which leaves are handed over as secret bits
        mf = [(f, v) for f, v, sec in zip(fields, j["vals"], mask) if f[0] == "M" and sec]   # plain leaves declare nothing
        bad = [(f, v) for f, v in mf if not v < f[1]]
        rel = not bad                                           # the declared relation: 0 <= value < mod for every field
        # the comparison is made at the global bitlength: a modulus wider than that may be refused although in range
        narrow = [(f, v) for f, v in mf if v < f[1] and not fits(f[1] - v - 1)]
        f0, v0 = bad[0] if bad else (narrow[0] if narrow else (mf[0] if mf else (["M", 0], 0)))
        mclass = "no-integer-field" if f0[1] == 0 else "above-bitlength" if f0[1] > (1 << bl) else "power-of-two" if f0[1] & (f0[1] - 1) == 0 else "not-a-power-of-two"
        vclass = "below" if v0 < f0[1] else "equal-to-modulus" if v0 == f0[1] else "above"
        sig = {"assertion": "unpack", "bits": "secret-raw", "modulus": mclass, "value": vclass, "field": "small" if j["p"] == P else "large"}
        if "mask" in j:
            sig["bits"] = "all-plain" if not any(mask) else "secret-raw-composite" if all(mask) else \
                          "plain-leaves-then-secret" if not mask[0] else "secret-leaves-then-plain"
            ex.count(f"unpack-mixed:{j['layout']}:{sig['bits']}:{'in-range' if rel else 'out-of-range'}")
        rep = {"job": {k: j[k] for k in ("schema", "bits", "mode", "p", "bl", "mask") if k in j}, "field_values": j["vals"], "relation_true": rel,
               "checks_on": {k: on.get(k) for k in ("unpack", "back")}, "checks_off": {k: off.get(k) for k in ("unpack", "back", "unsat")}}
        what = f"PackIntMod.unpack on raw secret bits, schema {_schema_str(j['schema'])}, field values {j['vals']}, bitlength {bl}"
        if "mask" in j:
            what = (f"unpack of a bit list whose leaf segments are plain ints / raw secret bits (leaves secret: {mask}), schema "
                    f"{_schema_str(j['schema'])}, field values {j['vals']}, bitlength {bl}")
        accepted = on["unpack"] == "ok"
        ex.count(f"unpack:{mclass}:{vclass}:{'acc' if accepted else 'rej:' + on['unpack']}")
        if not accepted and on["unpack"] not in ("AssertionError", "ValueError"):
            if rel and not narrow and len(j["bits"]) >= len(sum(([0] * (1 if f[0] == "B" else (f[1] - 1).bit_length()) for f in fields), [])):
                # not a verdict on the relation: unpack broke down on a complete bit list all of whose declarations hold
                ex.violations.append(Violation(dict(sig, dev="unpack-raises", error=on["unpack"]),
                                               f"{what}: unpack raises {on['unpack']} although 0 <= value < mod for every secret field", rep))
            continue
        if accepted and not rel:
            ex.violations.append(Violation(dict(sig, dev="runtime-relation-differs"),
                                           f"{what}: the run-time check accepts, but field {_schema_str(f0)} holds {v0}", rep))
        if not accepted and rel and not narrow:
            ex.violations.append(Violation(dict(sig, dev="runtime-relation-differs"),
                                           f"{what}: the run-time check rejects ({on['unpack']}) although 0 <= value < mod for every field", rep))
        if accepted:
            want = _nest(j["schema"], iter(j["vals"]))
            if on["back"] != want:
                ex.violations.append(Violation(dict(sig, dev="unpacked-value"), f"{what}: unpack returned {on['back']}", rep))
        if off["unpack"] != "ok":
            continue
        if j["p"] == P:
            sat = res.get(i)
            if sat is None:
                ex.count("search:limit"); continue
            ex.count("search:complete"); rep["circuit_satisfiable"] = sat
        else:
            sat = not off["unsat"]          # large field: the recorded witness stands in for the search
        how = "with the bit wires fixed the emitted constraints are satisfiable" if j["p"] == P else \
              "traced with error checking off, every emitted constraint holds on the recorded witness"
        if sat and not rel:
            ex.violations.append(Violation(dict(sig, dev="satisfiable-out-of-range"),
                                           f"{what}: {how} although {'secret ' if 'mask' in j else ''}field {_schema_str(f0)} holds {v0}: "
                                           f"the circuit does not enforce value < mod", rep))
        if rel and not narrow and not sat:
            ex.violations.append(Violation(dict(sig, dev="accepted-but-unsatisfiable"),
                                           f"{what}: in range, but the emitted system is not satisfied / satisfiable", rep))
        if sat != accepted and not (narrow and rel):
            ex.violations.append(Violation(dict(sig, dev="rejected-but-satisfiable" if sat else "accepted-but-unsatisfiable"),
                                           f"{what}: run-time check {'accepts' if accepted else 'rejects'}, emitted system "
                                           f"{'satisfiable' if sat else 'unsatisfiable'}", rep))


def replay(ctx, payload):
    if "job" in payload["replay"]:
        import json
        j = payload["replay"]["job"]
        for ign in (0, 1):
            print(f"checks {'off' if ign else 'on'}: impl :", common.run_workers([f"K|r|{j['bl']}|" + json.dumps(dict(j, ign=ign))], script="worker_pack.py")[0][:1500])
            print("            model:", common.lean_driver([f"K|r|{j['bl']}|{_schema_str(j['schema'])}|[{','.join(j['bits'])}]|U|{j['p']}|{ign}"])[0][:1500])
        return 0
    if "history" in payload["replay"]:
        l = payload["replay"]["history"]
        print("impl :", common.run_workers([l], script="worker_guard.py")[0]); print("model:", common.lean_driver([l])[0])
        return 0
    line = payload["replay"]["case"]
    print("error checking on:"); replay_case(line)
    print("error checking off (the circuit emitted for these operand values):"); replay_case(line.replace(",ign=0|", ",ign=1|"))
    return 0
