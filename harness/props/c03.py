"""C03 — assertions and declared types are enforced inside the circuit."""
import multiprocessing as mp
from .. import common, progcheck, solve
from ..framework import Exploration, Violation
from ..gen import progs
from ..propsbase import *

ASSUMPTIONS = ["each assertion is executed twice on the real code over p = 97 (bitlength 2..5): with error checking on (does the "
               "run-time check accept?) and off (what circuit is emitted for these operand values?); the emitted system is then "
               "searched exhaustively for a satisfying assignment with the operand wires fixed (all auxiliary wires free)",
               "the asserted relation is also evaluated independently from the property text (equal, not equal, <, <=, >, >=, zero, "
               "non-zero, 0 <= v < 2^width, lo <= v < hi, boolean, n-bit)"]
PARTIAL = ["gadget-level theorems are for unguarded states; C03_program (every executed assertion holds under every satisfying assignment) is "
           "for runs inside SoundFragment (Spec/SoundProg.lean: no guarded regions, error checking on, none of the operators recorded unsound "
           "under C02): assertions executed under a guard are covered by the oracle only"]
LEVELS = "S"
P = 97
KINDS = ["assert_lt", "assert_le", "assert_eq", "assert_ne", "assert_gt", "assert_ge", "assert_zero", "assert_nonzero",
         "assert_positive", "assert_positive_w", "assert_range", "to_bits_w", "boolean", "assert_eq_bool", "assert_lt_fxp"]


def relation(kind, bl, a, b, c):
    """the asserted relation, from the property text; None = not specified"""
    fits = lambda v: 0 <= v < (1 << bl)
    if kind == "assert_lt": return a < b and fits(b - a - 1)
    if kind == "assert_le": return a <= b and fits(b - a)
    if kind == "assert_gt": return a > b and fits(a - b - 1)
    if kind == "assert_ge": return a >= b and fits(a - b)
    if kind in ("assert_eq", "assert_eq_bool"): return a == b
    if kind == "assert_ne": return a != b
    if kind == "assert_zero": return a == 0
    if kind == "assert_nonzero": return a % P != 0
    if kind == "assert_positive": return fits(a)
    if kind == "assert_positive_w": return 0 <= a < (1 << b)
    if kind == "to_bits_w": return 0 <= a < (1 << b)
    if kind == "assert_range": return b <= a < c and fits(a - b) and fits(c - a - 1)
    if kind == "boolean": return a in (0, 1)
    return None


def gen_case(rnd, cid):
    bl = rnd.choice([2, 3, 3, 4, 4, 5])
    half = 1 << (bl - 1); full = 1 << bl
    kind = rnd.choice(KINDS)
    a = rnd.randrange(-half, full + 2); b = a + rnd.choice([0, 0, 1, -1, 1, -1, 2, -2, full - 1, full, full + 1, -full])
    c = 0
    ins = [progs.lit_int(a), "mk priv r0"]
    if kind in ("assert_lt", "assert_le", "assert_eq", "assert_ne", "assert_gt", "assert_ge"):
        ko = rnd.choice(["L", "I"])
        ins += [progs.lit_int(b)] + (["mk priv r2"] if ko == "L" else [])
        ins.append(f"call {kind} r1 r{len(ins) - 1}")
    elif kind in ("assert_zero", "assert_nonzero"):
        a = rnd.choice([0, 0, 1, -1, 3, 40, -40]); ins[0] = progs.lit_int(a)   # |a| < p/2: operands are field elements
        ins.append(f"call {kind} r1")
    elif kind == "assert_positive":
        ins.append("call assert_positive r1")
    elif kind == "assert_positive_w":
        b = min(rnd.choice([0, 1, 2, 3, bl - 1, bl, bl + 1, bl + 2]), 5)      # 2^(b+1) <= 97: the width must fit the search field
        a = rnd.choice([0, 1, (1 << b) - 1, 1 << b, (1 << b) + 1, -1, full - 1, full, half])
        ins[0] = progs.lit_int(a)
        ins += [progs.lit_int(b), "call assert_positive r1 r2"]
    elif kind == "to_bits_w":
        b = min(rnd.choice([0, 1, 2, 3, bl - 1, bl, bl + 1, bl + 2]), 5)
        a = rnd.choice([0, 1, (1 << b) - 1, 1 << b, (1 << b) + 1, -1, full - 1, full, half])
        ins[0] = progs.lit_int(a)
        ins += [progs.lit_int(b), "call to_bits r1 r2"]
    elif kind == "assert_range":
        b = a - rnd.choice([0, 0, 1, 2, -1]); c = a + rnd.choice([0, 0, 1, 1, 2, -1])
        ins += [progs.lit_int(b), progs.lit_int(c)]
        if rnd.random() < 0.5:
            ins += ["mk priv r2", "mk priv r3", "call assert_range r1 r4 r5"]
        else:
            ins.append("call assert_range r1 r2 r3")
    elif kind == "boolean":
        a = rnd.choice([0, 1, 2, -1, 3, 40]); ins[0] = progs.lit_int(a)
        ins.append("wrapb r1")
    elif kind == "assert_eq_bool":
        a = rnd.choice([0, 1]); b = rnd.choice([0, 1]); ins = [progs.lit_int(a), "mk privb r0", progs.lit_int(b), "mk privb r2", "call assert_eq r1 r3"]
    elif kind == "assert_lt_fxp":
        a = rnd.randrange(-2, 3); b = rnd.randrange(-2, 3)
        ins = [progs.lit_int(a), "mk privx r0", progs.lit_int(b), "mk privx r2", "call assert_lt r1 r3"]
        kind2 = "assert_lt"
    cfg = {"p": P, "bl": bl, "res": 1 if kind == "assert_lt_fxp" else 0, "ign": 0}
    meta = {"shape": "assert", "op": kind, "kinds": "", "abc": (a, b, c)}
    return progs.Case(cid, cfg, ins, meta)


def sat_job(job):
    cons, fixed, unknown = job
    try:
        for _ in solve.solve(cons, fixed, unknown, P, limit=200000):
            return True
        return False
    except solve.Limit:
        return None


def explore(ctx, extended=False, focus=None):
    ex = Exploration()
    ex.rule = ("every assertion kind (eq, ne, lt, le, gt, ge, zero, non-zero, non-negative with default and explicit width, range, "
               "boolean declaration, n-bit declaration; integer, boolean and fixed-point receivers; secret and constant right "
               "operands) on operand values on both sides of the relation and at its boundaries; per case: accepted by the run-time "
               "check? / emitted system satisfiable with the operands fixed? / relation true?; distinct = (kind, bitlength, operands)")
    n = ctx.n(1200, 32000) * (3 if extended else 1)
    cases = corpus_cases("C03") + [gen_case(ctx.rnd, f"c03_{i}") for i in range(n)]
    on = execute_all(cases)                                   # error checking on: the run-time relation
    off_cases = []
    for c in cases:
        c2 = progs.Case(c.cid + "i", c.cfg, c.instrs, c.meta); c2.cfg["ign"] = 1
        off_cases.append(c2)
    off = execute_all(off_cases, with_model=True)             # checks off: the circuit for these values
    jobs = []; idx = []
    for k, (r1, r0) in enumerate(zip(on, off)):
        account(ex, r1)
        correspond(ex, r1, LEVELS); correspond(ex, r0, LEVELS)
        if not r0.ok:
            continue        # raised even with checks off (type error, non-boolean value for the boolean type, ...)
        cons = solve.parse_cons(r0.cons)
        fixed = {f"x{i+1}": v % P for i, v in enumerate(r0.pub)}
        inputs = set()
        for j, ins in enumerate(r0.case.instrs):
            if ins.startswith("mk ") and j < len(r0.nc):
                lo = r0.nc[j - 1][1] if j > 0 else 0
                if r0.nc[j][1] > lo:
                    inputs.add(lo)
        for i in inputs:
            fixed[f"w{i+1}"] = r0.priv[i] % P
        unknown = [f"w{i+1}" for i in range(len(r0.priv)) if i not in inputs]
        jobs.append((cons, fixed, unknown)); idx.append(k)
    with mp.Pool(14) as pool:
        res = pool.map(sat_job, jobs, chunksize=8)
    for k, sat in zip(idx, res):
        r1, r0 = on[k], off[k]
        kind = r1.case.meta["op"]; a, b, c = r1.case.meta.get("abc", (0, 0, 0)); bl = r1.case.cfg["bl"]
        ex.distinct.add((kind, bl, a, b, c))
        if sat is None:
            ex.count("search:limit"); continue
        ex.count("search:complete")
        accepted = r1.ok
        value_error = (not r1.ok) and r1.errcls in ("AssertionError", "ValueError")
        if not accepted and not value_error:
            continue        # TypeError etc.: not a statement about the relation
        rel = relation(kind, bl, a, b, c)
        sig = {"assertion": kind}
        if kind in ("assert_positive_w", "to_bits_w"):
            sig["width"] = "below-bitlength" if b < bl else ("above-bitlength" if b > bl else "equal")
        rep = {"case": r1.case.line(), "operands": [a, b, c], "accepted_at_runtime": accepted, "circuit_satisfiable": sat,
               "relation_true": rel}
        ex.count(f"outcome:{kind}:{'acc' if accepted else 'rej'}:{'sat' if sat else 'unsat'}")
        if accepted and not sat:
            ex.violations.append(Violation(dict(sig, dev="accepted-but-unsatisfiable"),
                                           f"{kind}{(a, b, c)} at bitlength {bl} is accepted but its constraints are unsatisfiable", rep))
        if (not accepted) and sat:
            ex.violations.append(Violation(dict(sig, dev="rejected-but-satisfiable"),
                                           f"{kind}{(a, b, c)} at bitlength {bl}: the run-time check rejects these operands but the emitted "
                                           f"constraints are satisfiable with them: the circuit enforces a weaker relation", rep))
        if rel is not None and accepted != rel and kind != "assert_lt_fxp":
            ex.violations.append(Violation(dict(sig, dev="runtime-relation-differs"),
                                           f"{kind}{(a, b, c)} at bitlength {bl}: run-time check {'accepts' if accepted else 'rejects'}, "
                                           f"the asserted relation is {'true' if rel else 'false'}", rep))
        if len(ex.samples) < 6:
            ex.samples.append(r1.case.line())
    histories_after_failure(ctx, ex, extended)
    return ex


def histories_after_failure(ctx, ex, extended):
    """an assertion made AFTER a failure inside a guarded function was caught by the caller is an ordinary assertion: it must
    still reject a false relation at run time (and a true one must still pass), whatever exception class the failure had"""
    rnd = ctx.rnd
    lines = []; want = []
    for i in range(ctx.n(120, 1500) * (2 if extended else 1)):
        g = rnd.choice([0, 1]); gk = rnd.choice(["L", "B"])
        fail = rnd.choice(["!", "!b", "lt:-200:127", "az:7", "!"])
        pre = rnd.choice(["", "lt:1:2 ", "az:0 "])
        inner = f"G:{gk}:{g}( {pre}{fail} )"
        if rnd.random() < 0.3:
            inner = f"G:L:1( {inner} )"
        v = rnd.choice([0, 0, 5, -3, 1])
        final = f"az:{v}"
        ok = (v == 0)
        lines.append(f"H|c03h{i}|p={common.BN128},bl=8|T( {inner} ) {final}"); want.append((ok, final, inner))
    out = common.run_workers(lines, script="worker_guard.py")
    ml = common.lean_driver(lines)
    for l, o, m, (ok, final, inner) in zip(lines, out, ml, want):
        f = o.split("|")
        if len(f) < 3 or f[1] == "harness-error":
            raise common.Infra("worker_guard: " + o[:300])
        ex.evaluations += 1; ex.count("history:assertion-after-recovered-failure")
        ex.distinct.add(("hist", inner.split("(")[0], final.split(":")[0], ok))
        got = "|".join(f[:6]); mod = "|".join(m.split("|")[:6])
        if got != mod:
            ex.disagreements.append({"case": l, "impl": o[:300], "model": m[:300]})
        else:
            ex.traces_validated += 1
        raised = f[1] == "raised"
        if raised == ok:
            ex.violations.append(Violation({"assertion": "assert_zero", "dev": "after-recovered-failure", "expected": "pass" if ok else "reject"},
                                           f"after a failure inside a guarded function was caught, the top-level check {final} "
                                           f"{'raises' if raised else 'does not raise'} although its relation is {'true' if ok else 'false'} "
                                           f"(history: T( {inner} ) {final}; state after: {f[2]} {f[3]})", {"history": l}))


def replay(ctx, payload):
    if "history" in payload["replay"]:
        l = payload["replay"]["history"]
        print("impl :", common.run_workers([l], script="worker_guard.py")[0]); print("model:", common.lean_driver([l])[0])
        return 0
    replay_case(payload["replay"]["case"])
    return 0
