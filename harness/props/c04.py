"""C04 — every reported value equals its wire expression on the recorded witness."""
from .. import common, progcheck
from ..framework import Exploration, Violation
from ..gen import progs
from ..propsbase import *

ASSUMPTIONS = ["the oracle evaluates the wire expression of every register holding a secret (also inside lists, tuples, arrays) "
               "on the backend's recorded lists and compares with the reported value modulo p, after every executed case, "
               "including cases that raise later and cases in ignore-errors mode / under false guards",
               "powers with PUBLIC exponents 0 / 1 / 2 (`x ** 0` hands out the constant one of the current region, `x ** 1` the operand object) "
               "inside guarded() regions of every guard value and inside the branch functions of selections `if_then_else(c, f, g)` "
               "(gen/progs.py guarded_case, thunk_case `pow_int`): registers created under a false guard are judged like all others, and so is "
               "the merged result of the selection",
               "the public LinComb.from_bits is called on lists whose elements are secrets with values outside {0,1}: carry-save digits "
               "xi+yi, signed digits, limbs 0..7, small negative integers, mixed with proper bits (gen/progs.py from_bits_digits_case); "
               "the model's fromBits takes arbitrary linear combinations, so these cases are model-backed"]
PARTIAL = []
LEVELS = "VSW"


def region_mode(case, i):
    """kind of the innermost region enclosing instruction i: guarded() region, branch function of a selection, or none"""
    stack = []
    for t in case.instrs[:i]:
        w = t.split()[0]
        if w in ("genter", "fthen", "felse"):
            stack.append("guarded" if w == "genter" else "branch-function")
        elif w in ("gleave", "fmid", "fleave") and stack:
            stack.pop()
    return stack[-1] if stack else "plain"


def explore(ctx, extended=False, focus=None):
    ex = Exploration()
    ex.rule = ("programs from the operator x kind x value-class table, split over the real snarkjs, zkinterface, zkifbellman and zkifbulletproofs backends (own field each); one third in ignore-errors mode, one sixth with guarded "
               "regions (both guard values); non-trivial = emitted a constraint or raised; distinct = (shape, operator set, kinds, "
               "bitlength, mode, error class)")
    n = ctx.n(3000, 60000) * (4 if extended else 1)
    mix = [(5, progs.op_case), (1, progs.unop_case), (2, progs.method_case), (1, progs.ite_case), (2, progs.chain_case),
           (3, progs.guarded_case), (1, progs.array_case), (4, lambda rnd, cid, p: progs.op_case(rnd, cid, "ignore", p=p))]
    mix.append((3, progs.edge_case))
    # from_bits on lists whose elements are secrets with values outside {0,1} (carry-save / signed digits, limbs); comparisons on the
    # width boundary of check_positive under true guards
    mix.append((2, progs.from_bits_digits_case)); mix.append((1, progs.wide_compare_guarded_case))
    # selections whose branches are functions (one branch function always runs under a false guard; its shadow values feed the
    # multiplication hint of the merged, LIVE result)
    mix.append((2, progs.thunk_case))
    for r in execute_backends(ctx.rnd, n, "c04x" if extended else "c04_", mix, corpus_cases("C04")):
        account(ex, r)
        ex.count(f"backend:{r.case.meta.get('backend')}")
        correspond(ex, r, LEVELS)
        for i in r.incoh:
            sig = instr_sig(r.case, r.regs, i)
            sig["backend"] = r.case.meta.get("backend", "snarkjs")
            sig["mode"] = "ignore" if r.case.cfg["ign"] else (region_mode(r.case, i))
            ex.violations.append(Violation(sig, f"register r{i} ({r.case.instrs[i]}) reports {r.regs[i][:80]} but its wire "
                                                f"expression evaluates differently on the recorded witness",
                                           {"case": r.case.line(), "register": i, "backend": r.case.meta.get("backend", "snarkjs")}))
        if len(ex.samples) < 6 and r.cons:
            ex.samples.append(r.case.line())
    return ex


def replay(ctx, payload):
    r = replay_case(payload["replay"]["case"], payload["replay"].get("backend", "snarkjs"))
    if r.incoh:
        print(f"VIOLATION property=C04 replay=(given) incoherent registers {r.incoh}")
        return 1
    return 0
