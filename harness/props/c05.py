"""C05 — traced arithmetic agrees with Python semantics, or raises."""
from .. import common, progcheck, ref
from ..framework import Exploration, Violation
from ..gen import progs
from ..propsbase import *

ASSUMPTIONS = ["reference: harness/ref.py (plain Python ints: //, %, exact /, <<, >>, &|^ on non-negative operands, comparisons as 0/1, "
               "**, abs, selection); operands of kind int / secret int / secret boolean",
               "programs that use the same secret register twice in bit-splitting operations (>>, &, |, ^, ~, to_bits, check_positive, secret "
               "exponent / shift count), the first use inside a guarded region (dead, live) or outside any, the operand inside, on the boundary "
               "of and outside [0, 2^bitlength); registers computed inside a dead region are not specified, everything after it is",
               "augmented assignment (`t = a; t += x` and -=, *=, //=, %=, /=, &=, |=, ^=, <<=, >>=, **=; instruction `iop`) on a second reference of "
               "a secret int / boolean followed by reads of the original: the reference treats values as immutable",
               "powers and shifts with a secret exponent whose exact result lies around the field size (base^e between p/8 and 8p for bases "
               "2, 3, 5, 6, 7, 10, -2, -3; bitlength just wide enough for the exponent): a result in [p/2, p) is an ordinary Python integer and "
               "must come back as such; a congruent value where Python's value is itself below p is classified apart from the recorded "
               "reduction of values outside [0, p)",
               "error checking switched off AND ON AGAIN through the real API (instructions `set ign 1` / `set ign 0` = "
               "pysnark.runtime.ignore_errors(True) / ignore_errors(False); gen/progs.py ignore_toggle_case: off-on, off-<out-of-domain "
               "operations>-on, twice, on only, off twice then on): registers computed while checking is off are unspecified; afterwards the run is "
               "a checks-on run again: in-domain operations give Python's values and an operation outside the documented domain (ordering "
               "comparison whose difference exceeds the bitlength, zero or inexact division, to_bits / >> / & of a too wide or negative "
               "value, a false assertion, assert_positive of a negative value) raises; programs whose configuration starts in ignore mode are "
               "still not judged",
               "selections whose branches are FUNCTIONS, run through the library's own if_then_else(c, f, g) (gen/progs.py thunk_case; both / only "
               "the then / only the else branch a function; c = 0 and 1; bodies with bit decompositions, shifts, bitwise operations, comparisons, "
               "divisions, assertions, nested regions followed by more code of the body): the register of the branch taken and the selected "
               "value are Python's, the registers of the branch not taken are unspecified; model-backed (two guarded regions and a selection)",
               "an exception raised INSIDE a region and CAUGHT by the caller (gen/progs.py caught_region_case: `try: if_then_else(d != 0, lambda: "
               "n // d, 0) except: ...` with d == 0, LinCombBool of a non-boolean value, a false assertion / inexact division in a live branch; "
               "the region is the then / else function of a selection, taken or not, or a guarded() function), followed by ordinary operations: "
               "in-domain operations give Python's values and out-of-domain operations raise, as in any run (direct oracle only: the program "
               "model has no try/except; such cases are counted as unmodelled)",
               "totality is checked on operands inside the documented domain: all operand values, results and comparison differences "
               "satisfy |v| < 2^(bitlength-1); divisors non-zero; exact divisibility for '/'; bitwise/shift operands non-negative, "
               "shift counts and exponents below the bitlength"]
PARTIAL = ["C05_program is for runs inside PyFragment (Spec/PyProg.lean, table Instr.pyExcl); excluded with reason: fixedPoint (C14), "
           "secretLiteral, guardRegion (code under a false guard is inert: C07), ignoreErrors, selectLists (selection between lists under a "
           "secret condition: element-wise; lists of different lengths are refused with ValueError since the repair 1d9e8b8), secretIndexElems (secret-index access composed for int / secret-int elements only), and the "
           "recorded deviations invertSecretInt (C05-invert), boolPow (C05-bool-pow), boolBitwiseConst (C05-bool-bitwise-const), "
           "secretExponentWraps (C05-secret-exponent-mod-p: exactly when x**e, for shifts 2**e, is outside [0,p): C05_powWraps_exact); "
           "x >> n with a negative public n is inside the fragment since the repair of C05-rshift-negative (it raises, as Python does: "
           "C05_rshift_negative_raises)",
           "C05_program_total additionally needs PySupported (table Instr.pyGap; one reason left: kinds = the API raises by type dispatch "
           "alone / both operands plain; secret exponent / shift count, secret-index array access and the assert_* methods are COVERED) and "
           "InDomain (exact bounds pyDomBin / pyDomCall / pyDomIdx on the reference values, the traced run replayed only to tell a secret "
           "exponent / count / index from a public one; negative divisors of //, %, divmod are outside: C05-neg-divisor; secret exponent and "
           "<< count in [0, 2^bl), secret >> count in [0, bl] (the gadget floor-divides by the secret 2^count, a divisor that must be <= 2^bl: "
           "a larger count raises where Python returns 0), secret index in [0, len) with len <= p (a negative secret index raises: C15), "
           "assert_*: the relation holds on the reference values and the range-checked difference fits the bitlength as for the comparison "
           "operator, assert_nonzero / assert_ne invertible mod p; contains the harness domain by C05_domain_of_small, "
           "C05_assert_domain_of_small)"]
LEVELS = "V"
INT_OPS = progs.BINOPS
KINDS = [("L", "L"), ("L", "I"), ("I", "L"), ("B", "B"), ("B", "L"), ("L", "B"), ("B", "I"), ("I", "B")]


def fits(v, bl):
    return abs(v) < (1 << max(bl - 1, 0))


def in_domain(case, R, i, regs):
    """documented domain of instruction i given the reference values R (list of tagged values) and the
    implementation's registers (for the actual operand kinds)"""
    ins = case.instrs[i].split(); bl = case.cfg["bl"]
    if ins[0] == "iop":
        ins = ["bin"] + ins[1:]
    if ins[0] not in ("bin", "un"):
        return False
    rs = [int(t[1:]) for t in ins[2:]]
    vals = []
    for r in rs:
        v = R.regs[r]
        if v[0] != "I" or R.kinds[r] not in ("L", "I", "B"):
            return False
        vals.append(v[1])
    if not all(fits(v, bl) for v in vals):
        return False
    res = R.regs[i]
    if res[0] == "I" and not fits(res[1], bl):
        return False
    if res[0] == "tuple" and not all(x[0][0] == "I" and fits(x[0][1], bl) for x in res[1]):
        return False
    if res[0] in ("?", "RAISE"):
        return False
    op = ins[1]
    if ins[0] == "un":
        if kind_letter(regs[rs[0]]) not in "LB":
            return False
        if op == "invert":
            return kind_letter(regs[rs[0]]) == "B"     # ~x leaves the non-negative range: outside the documented domain
        return True
    a, b = vals
    ka, kb = kind_letter(regs[rs[0]]), kind_letter(regs[rs[1]])
    if ka not in "LIB" or kb not in "LIB":
        return False
    if "B" in (ka, kb) and op not in ("and", "or", "xor", "eq", "ne", "add", "sub", "mul", "lt", "le", "gt", "ge"):
        return False
    if "B" in (ka, kb) and (a not in (0, 1) or b not in (0, 1)):
        return False        # the boolean type documents boolean operands only
    if "B" in (ka, kb) and op in ("and", "or", "xor") and (ka != "B" or (kb == "I" and b not in (0, 1)) or (kb == "L" and b not in (0, 1))):
        return False
    if op in ("lt", "le", "gt", "ge", "eq", "ne"):
        return fits(a - b, bl) and fits(b - a - 1, bl) and fits(a - b - 1, bl)
    if op in ("floordiv", "mod", "divmod"):
        return b > 0 and a >= 0 or (b != 0)      # any non-zero divisor is inside the documented domain
    if op == "truediv":
        return b != 0 and a % b == 0
    if op in ("and", "or", "xor"):
        return a >= 0 and b >= 0
    if op in ("lshift", "rshift"):
        return a >= 0 and 0 <= b < bl
    if op == "pow":
        return 0 <= b < bl
    return True


def explore(ctx, extended=False, focus=None):
    ex = Exploration()
    ex.rule = ("one operator (binary, unary, method, selection) per case on operands of kind int/secret-int/secret-bool in all three "
               "kind combinations, values from {0, +-1, small, inside, boundary of the bitlength range, beyond it, multiples of p}, "
               "plus composed chains; every register compared with the plain-Python reference; non-trivial = emitted a constraint "
               "or raised; distinct = (operator, kinds, bitlength, error class)")
    n = ctx.n(5000, 100000) * (4 if extended else 1)
    mix = [(8, lambda rnd, cid, p: progs.op_case(rnd, cid, "valid", INT_OPS, KINDS, p=p)), (4, progs.edge_case), (2, progs.unop_case),
           (1, progs.ite_case), (2, progs.chain_case), (2, progs.reuse_case), (2, progs.inplace_case), (1, progs.fieldsize_pow_case), (2, progs.ignore_toggle_case),
           # selections whose branches are FUNCTIONS; exceptions raised inside a region (branch function, guarded()) and caught by the caller
           (1, progs.thunk_case), (2, progs.caught_region_case), (1, lambda rnd, cid, p: progs.method_case(rnd, cid, p, ["if_else", "val", "check_zero", "check_nonzero", "to_bits_rt"]))]
    cases = corpus_cases("C05") + progs.generate(ctx.rnd, n, "c05x" if extended else "c05_", mix=mix)
    cases = [c for c in cases if c.cfg["ign"] == 0]
    for r in execute_all(cases):
        account(ex, r)
        correspond(ex, r, LEVELS)
        if augmented_assignment_mutations(ex, r):
            continue        # the registers no longer hold what the reference (immutable values) has
        mr = r.case.meta.get("must_raise")
        if r.case.meta.get("shape") == "ignore-toggle":
            ex.count(f"ignore-toggle:{r.case.meta['kinds']}:{'ends-' + (r.errcls or 'ok')}")
        caught = r.case.meta.get("shape") == "caught-in-region"
        if caught:
            ex.count(f"caught-in-region:{r.case.meta['op']}:{r.case.meta['kinds']}:{'caught-' + r.fields.get('CAUGHT', '').split(':')[-1] if r.fields.get('CAUGHT') else 'nothing-raised'}")
        if mr is not None and (r.ok or r.errpos > mr):
            # error checking was switched back on through ignore_errors(False) before this instruction (or: an exception raised inside a
            # region was caught by the caller before it): it is outside the documented domain and must raise as in any checks-on run
            sig = instr_sig(r.case, r.regs, mr); sig["dev"] = "returns-where-checks-on-raises"
            sig["mode"] = "after-exception-caught-in-region" if caught else "ignore-errors-switched-off-again"
            sig["pattern"] = r.case.meta["kinds"]
            after = f"after the exception raised in a region ({r.case.meta['kinds']}: {r.case.meta['op']}) was caught" if caught else "after `set ign 0` (ignore_errors(False))"
            ex.violations.append(Violation(sig, f"{after} r{mr} ({r.case.instrs[mr]}) returned "
                                                f"{r.regs[mr][:60] if mr < len(r.regs) else '?'} where a run with error checking on raises "
                                                f"({r.case.meta['op']})", {"case": r.case.line(), "instruction": mr}))
            continue
        R = ref.Ref(r.case.cfg)
        R.run([t.split() for t in r.case.instrs])
        deviated = False
        for i, got in enumerate(r.regs):
            d = ref.compare(R.regs[i], R.kinds[i], got)
            if d:
                deviated = True
                sig = instr_sig(r.case, r.regs, i); sig["dev"] = "wrong-value"
                if caught:
                    sig["mode"] = "after-exception-caught-in-region"; sig["pattern"] = r.case.meta["kinds"]
                elif r.case.meta.get("shape") == "thunk":
                    sig["mode"] = "selection-with-branch-functions"; sig["pattern"] = r.case.meta["kinds"].split(":")[0]
                if "X" in sig["operands"] or "F" in sig["operands"]:
                    ex.count("skipped:fixed-point-operand (C14's subject)")
                    break
                try:
                    gv = ref.parse_val(got)[0]
                    cong = R.regs[i][0] == "I" and gv[0] in "ILB" and (gv[1] - R.regs[i][1]) % r.case.cfg["p"] == 0
                    # a Python value outside [0, p) that comes back reduced is one thing (the recorded finding on secret exponents); a
                    # Python value that IS a canonical field element and comes back as another representative is another
                    sig["detail"] = "different" if not cong else "congruent-mod-p" if not 0 <= R.regs[i][1] < r.case.cfg["p"] else "congruent-mod-p:python-value-is-below-p"
                except Exception:
                    sig["detail"] = "different"
                ex.violations.append(Violation(sig, f"r{i} ({r.case.instrs[i]}): {d}; plain Python semantics differ",
                                               {"case": r.case.line(), "register": i, "expected": str(R.regs[i])[:200], "got": got[:200]}))
                break
            if R.regs[i][0] == "RAISE" and R.kinds[i] == "?" and not got.startswith("N"):
                # plain Python raises here (division by zero, inexact '/', negative shift/exponent): a value was returned
                ins = r.case.instrs[i].split()
                if ins[0] in ("bin", "un", "iop") or ins[:2] == ["call", "to_bits"]:
                    sig = instr_sig(r.case, r.regs, i); sig["dev"] = "value-where-python-raises"
                    ex.violations.append(Violation(sig, f"r{i} ({r.case.instrs[i]}) returned {got[:60]} where plain Python raises / the result is undefined",
                                                   {"case": r.case.line(), "register": i}))
                    deviated = True
                    break
        if deviated:
            continue        # everything downstream of a reported deviation runs on values the reference does not have
        if not r.ok and r.errpos is not None and r.errpos < len(r.case.instrs):
            i = r.errpos
            if in_domain(r.case, R, i, r.regs):
                sig = instr_sig(r.case, r.regs, i); sig["dev"] = "raises-in-domain"; sig["error"] = r.errcls
                ins = r.case.instrs[i].split()
                if ins[0] in ("bin", "iop") and ins[1] in ("floordiv", "mod", "divmod"):
                    sig["detail"] = "neg-divisor" if R.regs[int(ins[3][1:])][1] < 0 else "pos-divisor"
                ex.violations.append(Violation(sig, f"{r.case.instrs[i]} raises {r.errcls} on operands inside the documented domain",
                                               {"case": r.case.line(), "instruction": i}))
        if len(ex.samples) < 6 and r.cons:
            ex.samples.append(r.case.line())
    return ex


def replay(ctx, payload):
    r = replay_case(payload["replay"]["case"])
    return 0
