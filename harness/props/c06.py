"""C06 — the constraint system does not depend on the values processed."""
import re
from .. import common, progcheck
from ..framework import Exploration, Violation
from ..gen import progs
from ..propsbase import *

ASSUMPTIONS = ["pairs of runs of the same program text on the real code: the second run re-draws every literal that only feeds a "
               "PrivVal/PubVal-style constructor (inputs; secret conditions of guards and selections flip), half of the time in "
               "ignore-errors mode with values outside the domain; plain ints used as public operands (widths, shift counts, "
               "exponents, constants) are part of the program and stay equal",
               "both runs must complete; pairs where either raises are counted and skipped",
               "a pair in which a revealed value (val()) is fed back as a public operand and differs between the runs is skipped: the "
               "circuit then depends on a public output by design",
               "selections whose branches are functions (gen/progs.py thunk_case: the condition flips between the two runs, both branch "
               "functions are traced in either run)",
               "programs over the statement-based block API (_if/_elif/_else/_endif, _while, _range over a BranchingValues context; rendered by "
               "harness/worker_block.py): several variables first assigned inside an `_if` with `_elif`/`_else` arms (each arm in its own "
               "order, secret values), later blocks and loops that update them, plus the statement programs of C09 (integer and typed); every "
               "program is executed in FOUR FRESH interpreter processes started with PYTHONHASHSEED = 0, 1, 2 and a random value on the same "
               "inputs (whole canonical dump identical: constraints in emission order, witness, wire expressions of the final variables) and "
               "in a fifth process on other secret values (constraints and wire expressions identical); direct oracle only"]
from .c17_twin import ASSUMPTIONS as _TWIN_ASSUMPTIONS
ASSUMPTIONS = ASSUMPTIONS + _TWIN_ASSUMPTIONS
PARTIAL = []
LEVELS = "S"


def free_lits(case):
    """registers holding int literals that are only read by `mk` instructions -> the kind they feed"""
    uses = {}
    for k, t in enumerate(case.instrs):
        w = t.split()
        for tok in w[1:]:
            if re.fullmatch(r"r\d+", tok):
                uses.setdefault(int(tok[1:]), []).append((k, w))
    out = {}
    for k, t in enumerate(case.instrs):
        w = t.split()
        if w[0] == "lit" and w[1].startswith(("i:", "f:")):
            us = uses.get(k, [])
            if us and all(u[1][0] == "mk" and u[1][1] != "const" for u in us):
                out[k] = [u[1][1] for u in us]
    return out, uses


def guard_regs(case, uses):
    g = set()
    for k, t in enumerate(case.instrs):
        w = t.split()
        if w[0] == "mk":
            for (j, u) in uses.get(k, []):
                if u[0] in ("genter", "fthen") or (u[0] in ("ite", "fsel") and u[1] == f"r{k}"):
                    g.add(int(w[2][1:]))
    return g


def twin(case, rnd, invalid):
    fl, uses = free_lits(case)
    g = guard_regs(case, uses)
    ins = list(case.instrs)
    bl = case.cfg["bl"]; p = case.cfg["p"]
    for k, kinds in fl.items():
        if any(kd in ("privb", "pubb") for kd in kinds) or k in g:
            v = rnd.choice([0, 1])
        elif ins[k].startswith("lit f:"):
            m, e = progs.flt_value(rnd, max(bl - case.cfg["res"], 1), case.cfg["res"], False)
            ins[k] = progs.lit_flt(m, e)
            continue
        else:
            v = progs.int_value(rnd, bl, progs.pick_class(rnd, invalid and rnd.random() < 0.6), p)
        ins[k] = progs.lit_int(v)
    c = progs.Case(case.cid + "'", case.cfg, ins, case.meta)
    if invalid:
        c.cfg["ign"] = 1
    return c


def first_difference(a, b, case):
    """index of the first instruction after which the two runs differ in shape"""
    n = min(len(a.regs), len(b.regs))
    for i in range(n):
        if i < len(a.nc) and i < len(b.nc) and a.nc[i] != b.nc[i]:
            return i, f"after it {a.nc[i][0]} constraints/{a.nc[i][1]} private wires vs {b.nc[i][0]}/{b.nc[i][1]}"
        if progcheck.strip_value(a.regs[i]) != progcheck.strip_value(b.regs[i]):
            # a register holding a revealed value (val()) or an input literal may differ
            ins = case.instrs[i].split()
            if ins[0] == "lit" or (ins[0] == "call" and ins[1] == "val"):
                continue
            return i, f"wire expression {progcheck.strip_value(a.regs[i])[:80]} vs {progcheck.strip_value(b.regs[i])[:80]}"
    return None, "constraint coefficients differ"


# ---------------------------------------------------------------- block API, one FRESH INTERPRETER per run
BLOCK_NAMES = ["acc", "total", "lo", "hi", "flag", "cnt", "best", "x9", "tmp", "res", "a", "b", "zeta", "k2", "out", "y"]
HASH_SEEDS = ["0", "1", "2"]


def fresh_vars_prog(rnd):
    """several variables FIRST ASSIGNED inside an `_if` that has `_elif` / `_else` arms (every arm binds all of them, in its own order,
    to secret values), then a block that updates some of them and possibly a loop: the merges at the block exits emit constraints"""
    ninp = rnd.randrange(1, 4)
    new = rnd.sample(BLOCK_NAMES, rnd.randrange(2, 6))
    inp = lambda: ["in", rnd.randrange(ninp)]

    def val():
        c = rnd.random()
        if c < 0.4: return ["add", inp(), ["const", rnd.randrange(0, 5)]]
        if c < 0.7: return ["mul", inp(), ["const", rnd.randrange(1, 4)]]
        if c < 0.85: return ["add", ["var", "x0"], inp()]
        return inp()

    def arm():
        names = list(new); rnd.shuffle(names)
        body = [["assign", nm, val()] for nm in names]
        if rnd.random() < 0.5:
            body.insert(rnd.randrange(len(body) + 1), ["assign", "x0", val()])
        return body
    cond = lambda: [rnd.choice(["lt", "le", "eq", "ne", "gt", "ge"]), inp(), ["const", rnd.randrange(0, 4)]]
    body = [["if", [[cond(), arm()] for _ in range(rnd.choice([1, 1, 2, 3]))], arm()]]
    upd = [["assign", nm, ["add", ["var", nm], ["const", 1]]] for nm in rnd.sample(new, rnd.randrange(1, len(new) + 1))]
    body.append(["if", [[cond(), upd]], None])
    if rnd.random() < 0.5:
        body.append(["for", "i0", ["in", 0], 2, [["assign", new[0], ["add", ["var", new[0]], ["loopvar", "i0"]]]]])
    return {"init": {"x0": rnd.randrange(-2, 5)}, "secret_vars": ["x0"], "inputs": [rnd.randrange(0, 3) for _ in range(ninp)], "stream": "valid",
            "shape": "fresh-variables-in-if", "body": body}


def block_process_runs(ctx, ex, extended):
    """programs over the statement-based block API (harness/worker_block.py renders them as the user writes them), each executed in several
    FRESH interpreter processes started with different string-hash seeds (PYTHONHASHSEED 0, 1, 2 and a random one; the default of an
    interpreter is a random seed per process: key generation and every proof are normally separate processes): same inputs -> the whole
    canonical dump (constraints in emission order, witness, wire expression of every final variable) is identical; one more process runs
    the program on OTHER secret values: constraints and wire expressions identical"""
    import json, random
    import concurrent.futures as cf
    from . import c09
    from . import c09_typed as typed
    rnd = random.Random(ctx.seed * 6113 + 17 + (1 if extended else 0))
    n = ctx.n(160, 4000) * (3 if extended else 1)
    progs_ = []
    for t in c09.templates(rnd)[::3]:
        progs_.append(t)
    while len(progs_) < n:
        r = rnd.random()
        if r < 0.5: p = fresh_vars_prog(rnd)
        elif r < 0.65: p = typed.gen_typed(rnd)
        else: p = c09.gen_prog(rnd, "valid")
        c09.fix_for_bounds(p, rnd)
        progs_.append(p)
    others = []
    for p in progs_:
        q = typed.reroll(p, rnd)
        if p.get("shape") == "fresh-variables-in-if":
            q["inputs"] = [rnd.randrange(0, 3) for _ in q["inputs"]]
        c09.fix_for_bounds(q, rnd)
        others.append(q)
    lines = [f"B|p{i}|16|{json.dumps(p)}" for i, p in enumerate(progs_)]
    lines_o = [f"B|o{i}|16|{json.dumps(p)}" for i, p in enumerate(others)]
    seeds = HASH_SEEDS + [str(rnd.randrange(3, 2 ** 32))]
    jobs = [(h, lines) for h in seeds] + [(str(rnd.randrange(3, 2 ** 32)), lines_o)]

    def run(job):
        h, ls = job
        return common.run_workers(ls, script="worker_block.py", nproc=1, extra_env={"PYTHONHASHSEED": h})
    with cf.ThreadPoolExecutor(len(jobs)) as pool:
        res = list(pool.map(run, jobs))
    for i, p in enumerate(progs_):
        ds = [json.loads(r[i].split("|", 1)[1]) for r in res]
        if any("harness-error" in d for d in ds):
            raise common.Infra("worker_block: " + str([d for d in ds if "harness-error" in d])[:500])
        ex.evaluations += 1
        kinds = "+".join(k for k in ("if", "for", "while", "ite", "sel", "setitem", "range") if f'["{k}"' in json.dumps(p["body"])) or "straight"
        shape = p.get("shape", "typed" if p.get("typed") else "statements")
        ex.count(f"block-process:{shape}")
        apis = [d["api"] for d in ds]
        same, other = apis[:len(seeds)], apis[-1]
        sig = {"api": "block-statements", "shape": shape, "constructs": kinds}
        rep = {"program": p, "hash_seeds": seeds, "source": ds[0].get("src", "")[:1500]}
        st = [a["status"] for a in same]
        if len(set(st)) > 1:
            ex.violations.append(Violation(dict(sig, dev="outcome-depends-on-process"),
                                           f"block API: the same program on the same inputs ends with {st} in interpreters started with PYTHONHASHSEED={seeds}", rep))
            continue
        if st[0] != "ok":
            ex.count("block-process:skipped-raise")
            continue
        ex.distinct.add(("block-process", json.dumps(p["body"])))
        ref = same[0]
        bad = None
        for h, a in zip(seeds[1:], same[1:]):
            if (a["ncons"], a["npriv"]) != (ref["ncons"], ref["npriv"]):
                bad = (h, f"{ref['ncons']} constraints/{ref['npriv']} wires vs {a['ncons']}/{a['npriv']}")
            elif a["canon_state"] != ref["canon_state"]:
                ca, cb = c09.parse_state(ref["canon_state"])["CONS"], c09.parse_state(a["canon_state"])["CONS"]
                la, lb = ca.split(" & "), cb.split(" & ")
                k = next((j for j, (x, y) in enumerate(zip(la, lb)) if x != y), None)
                bad = (h, (f"constraint #{k}: {la[k][:90]} vs {lb[k][:90]}" if k is not None else "the recorded witness differs")
                          + (" (the same multiset of constraints in another order)" if sorted(la) == sorted(lb) and k is not None else ""))
            elif a["var_lcs"] != ref["var_lcs"]:
                k = next(k for k in ref["var_lcs"] if a["var_lcs"].get(k) != ref["var_lcs"][k])
                bad = (h, f"wire expression of final variable {k}: {str(ref['var_lcs'][k])[:80]} vs {str(a['var_lcs'].get(k))[:80]}")
            if bad: break
        if bad:
            ex.violations.append(Violation(dict(sig, dev="constraint-system-depends-on-process"),
                                           f"block API: the same program on the same inputs emits different constraint systems in two fresh interpreters "
                                           f"(PYTHONHASHSEED={seeds[0]} vs {bad[0]}): {bad[1]}", dict(rep, differs_under=bad[0])))
            continue
        ex.traces_validated += 1
        if other["status"] == "ok":
            ex.count("block-process:pair-other-values")
            d = None
            if (other["ncons"], other["npriv"]) != (ref["ncons"], ref["npriv"]):
                d = f"{ref['ncons']} constraints/{ref['npriv']} wires vs {other['ncons']}/{other['npriv']}"
            elif c09.parse_state(other["canon_state"])["CONS"] != c09.parse_state(ref["canon_state"])["CONS"]:
                d = "the constraints differ"
            elif other["var_lcs"] != ref["var_lcs"]:
                d = "the wire expression of a final variable differs"
            if d:
                ex.violations.append(Violation(dict(sig, dev="constraint-system-depends-on-values-or-process"),
                                               f"block API: the same program on other secret values in another interpreter: {d}",
                                               dict(rep, other_program=others[i], other_hash_seed=jobs[-1][0])))


def explore(ctx, extended=False, focus=None):
    ex = Exploration()
    ex.rule = ("for each generated program (operators, methods, selections, chains, guarded regions, arrays) two executions on the "
               "real code with different input values (valid/valid, and valid vs invalid-with-checks-off; secret conditions flip); "
               "shapes (variable counts, constraints with coefficients, wire expressions, guard/ONE) compared directly; the first "
               "run is also compared with the Lean model at level S; distinct = (shape, operator set, kinds, bitlength, twin mode)")
    n = ctx.n(2000, 50000) * (4 if extended else 1)
    mix = [(5, progs.op_case), (1, progs.unop_case), (2, progs.method_case), (1, progs.ite_case), (2, progs.chain_case),
           (3, progs.guarded_case), (2, progs.array_case), (1, progs.thunk_case)]
    base = corpus_cases("C06") + progs.generate(ctx.rnd, n, "c06x" if extended else "c06_", mix=mix)
    twins = [twin(c, ctx.rnd, invalid=(i % 2 == 1)) for i, c in enumerate(base)]
    ra = execute_all(base)
    rb = execute_all(twins, with_model=False)
    # second chance: a pair in which either run raised is re-run with error checking off in BOTH runs (the theorem relates runs
    # whatever their error-suppression flags are); what still raises (type errors, zero divisors) is skipped
    retry = [i for i, (a, b) in enumerate(zip(ra, rb)) if not (a.ok and b.ok) and not a.harness_error and not b.harness_error]
    def ign(c):
        c2 = progs.Case(c.cid + "!", dict(c.cfg), c.instrs, c.meta); c2.cfg["ign"] = 1
        return c2
    ra2 = execute_all([ign(base[i]) for i in retry], with_model=False)
    rb2 = execute_all([ign(twins[i]) for i in retry], with_model=False)
    second = {i: (x, y) for i, x, y in zip(retry, ra2, rb2)}
    for i, (a, b) in enumerate(zip(ra, rb)):
        account(ex, a)
        correspond(ex, a, LEVELS)
        mode = "invalid-ignore" if b.case.cfg["ign"] and not a.case.cfg["ign"] else "valid"
        if b.harness_error:
            raise common.Infra(b.py_raw[:500])
        if i in second and second[i][0].ok and second[i][1].ok:
            a, b = second[i]; mode = "both-ignore"
        if not (a.ok and b.ok):
            ex.count("pair:skipped-raise")
            continue
        # a REVEALED value (the plain int returned by val()) that is fed back as a public operand makes the circuit depend on
        # a public output by design: the pair is comparable only when the fed-back revealed values coincide
        fed = [i for i, t in enumerate(a.case.instrs) if t.startswith("call val")
               and any(re.search(rf"\br{i}\b", u) for u in a.case.instrs[i + 1:])]
        if any(i < len(a.regs) and i < len(b.regs) and a.regs[i] != b.regs[i] for i in fed):
            ex.count("pair:skipped-revealed-feedback")
            continue
        ex.count(f"pair:{mode}")
        m = a.case.meta
        ex.distinct.add((m.get("shape"), m.get("op"), m.get("kinds"), a.case.cfg["bl"], mode))
        sa, sb = a.shape(), b.shape()
        # registers of input literals / revealed values may differ
        free = {i for i, t in enumerate(a.case.instrs) if t.startswith("lit ") or t.startswith("call val")}
        ra_ = [x for i, x in enumerate(sa[3]) if i not in free]; rb_ = [x for i, x in enumerate(sb[3]) if i not in free]
        if (sa[0], sa[1], sa[2], ra_, sa[4], sa[5]) != (sb[0], sb[1], sb[2], rb_, sb[4], sb[5]):
            i, why = first_difference(a, b, a.case)
            sig = instr_sig(a.case, a.regs, i) if i is not None else {"instr": "?", "operands": "?"}
            sig["mode"] = mode
            ex.violations.append(Violation(sig, f"two runs of the same program emit different constraint systems: first difference at "
                                                f"r{i} ({a.case.instrs[i] if i is not None else '?'}): {why}",
                                           {"case_a": a.case.line(), "case_b": b.case.line()}))
        if len(ex.samples) < 4 and a.cons:
            ex.samples.append({"a": a.case.line(), "b": b.case.line()})
    # calls of @snark-decorated functions are not part of the program language: the value-independence of what such a call adds to
    # the constraint system is judged by the twin-run oracle shared with C17 (harness/props/c17_twin.py)
    from . import c17_twin
    c17_twin.twin_runs(ctx, ex, "C06", ctx.n(120, 3000) * (2 if extended else 1))
    block_process_runs(ctx, ex, extended)
    return ex


def replay(ctx, payload):
    if "twin_group" in payload["replay"]:
        from . import c17_twin
        return c17_twin.replay(payload)
    if "hash_seeds" in payload["replay"]:
        import json
        line = f"B|r|16|{json.dumps(payload['replay']['program'])}"
        dumps = []
        for h in payload["replay"]["hash_seeds"]:
            o = common.run_workers([line], script="worker_block.py", nproc=1, extra_env={"PYTHONHASHSEED": h})[0]
            a = json.loads(o.split("|", 1)[1])["api"]
            dumps.append((a.get("status"), a.get("canon_state"), a.get("var_lcs")))
            print(f"PYTHONHASHSEED={h}:", a.get("status"), str(a.get("canon_state"))[:1500])
        if any(d != dumps[0] for d in dumps[1:]):
            print("VIOLATION property=C06 replay=(given) the constraint system depends on the interpreter process")
            return 1
        return 0
    la, lb = payload["replay"]["case_a"], payload["replay"]["case_b"]
    out = common.run_workers([la, lb], nproc=1)
    a = progcheck.Rec(progs.Case("a", {"p": 0, "bl": 0, "res": 0, "ign": 0}, la.split("|")[3].split(";")), out[0])
    b = progcheck.Rec(progs.Case("b", {"p": 0, "bl": 0, "res": 0, "ign": 0}, lb.split("|")[3].split(";")), out[1])
    print(a.shape()[:3]); print(b.shape()[:3])
    return 0
