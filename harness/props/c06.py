"""C06 — the constraint system does not depend on the values processed."""
import re
from .. import common, progcheck
from ..framework import Exploration, Violation
from ..gen import progs
from ..propsbase import *

ASSUMPTIONS = ["pairs of runs of the same program text on the real code: the second run re-draws every literal that only feeds a "
               "PrivVal/PubVal-style constructor (inputs; secret conditions of guards and selections flip), half of the time in "
               "ignore-errors mode with values outside the domain; plain ints used as public operands (widths, shift counts, "
               "exponents, constants) are part of the program and stay equal",
               "both runs must complete; pairs where either raises are counted and skipped",
               "a pair in which a revealed value (val()) is fed back as a public operand and differs between the runs is skipped: the "
               "circuit then depends on a public output by design",
               "selections whose branches are functions (gen/progs.py thunk_case: the condition flips between the two runs, both branch "
               "functions are traced in either run)"]
from .c17_twin import ASSUMPTIONS as _TWIN_ASSUMPTIONS
ASSUMPTIONS = ASSUMPTIONS + _TWIN_ASSUMPTIONS
PARTIAL = []
LEVELS = "S"


def free_lits(case):
    """registers holding int literals that are only read by `mk` instructions -> the kind they feed"""
    uses = {}
    for k, t in enumerate(case.instrs):
        w = t.split()
        for tok in w[1:]:
            if re.fullmatch(r"r\d+", tok):
                uses.setdefault(int(tok[1:]), []).append((k, w))
    out = {}
    for k, t in enumerate(case.instrs):
        w = t.split()
        if w[0] == "lit" and w[1].startswith(("i:", "f:")):
            us = uses.get(k, [])
            if us and all(u[1][0] == "mk" and u[1][1] != "const" for u in us):
                out[k] = [u[1][1] for u in us]
    return out, uses


def guard_regs(case, uses):
    g = set()
    for k, t in enumerate(case.instrs):
        w = t.split()
        if w[0] == "mk":
            for (j, u) in uses.get(k, []):
                if u[0] in ("genter", "fthen") or (u[0] in ("ite", "fsel") and u[1] == f"r{k}"):
                    g.add(int(w[2][1:]))
    return g


def twin(case, rnd, invalid):
    fl, uses = free_lits(case)
    g = guard_regs(case, uses)
    ins = list(case.instrs)
    bl = case.cfg["bl"]; p = case.cfg["p"]
    for k, kinds in fl.items():
        if any(kd in ("privb", "pubb") for kd in kinds) or k in g:
            v = rnd.choice([0, 1])
        elif ins[k].startswith("lit f:"):
            m, e = progs.flt_value(rnd, max(bl - case.cfg["res"], 1), case.cfg["res"], False)
            ins[k] = progs.lit_flt(m, e)
            continue
        else:
            v = progs.int_value(rnd, bl, progs.pick_class(rnd, invalid and rnd.random() < 0.6), p)
        ins[k] = progs.lit_int(v)
    c = progs.Case(case.cid + "'", case.cfg, ins, case.meta)
    if invalid:
        c.cfg["ign"] = 1
    return c


def first_difference(a, b, case):
    """index of the first instruction after which the two runs differ in shape"""
    n = min(len(a.regs), len(b.regs))
    for i in range(n):
        if i < len(a.nc) and i < len(b.nc) and a.nc[i] != b.nc[i]:
            return i, f"after it {a.nc[i][0]} constraints/{a.nc[i][1]} private wires vs {b.nc[i][0]}/{b.nc[i][1]}"
        if progcheck.strip_value(a.regs[i]) != progcheck.strip_value(b.regs[i]):
            # a register holding a revealed value (val()) or an input literal may differ
            ins = case.instrs[i].split()
            if ins[0] == "lit" or (ins[0] == "call" and ins[1] == "val"):
                continue
            return i, f"wire expression {progcheck.strip_value(a.regs[i])[:80]} vs {progcheck.strip_value(b.regs[i])[:80]}"
    return None, "constraint coefficients differ"


def explore(ctx, extended=False, focus=None):
    ex = Exploration()
    ex.rule = ("for each generated program (operators, methods, selections, chains, guarded regions, arrays) two executions on the "
               "real code with different input values (valid/valid, and valid vs invalid-with-checks-off; secret conditions flip); "
               "shapes (variable counts, constraints with coefficients, wire expressions, guard/ONE) compared directly; the first "
               "run is also compared with the Lean model at level S; distinct = (shape, operator set, kinds, bitlength, twin mode)")
    n = ctx.n(2000, 50000) * (4 if extended else 1)
    mix = [(5, progs.op_case), (1, progs.unop_case), (2, progs.method_case), (1, progs.ite_case), (2, progs.chain_case),
           (3, progs.guarded_case), (2, progs.array_case), (1, progs.thunk_case)]
    base = corpus_cases("C06") + progs.generate(ctx.rnd, n, "c06x" if extended else "c06_", mix=mix)
    twins = [twin(c, ctx.rnd, invalid=(i % 2 == 1)) for i, c in enumerate(base)]
    ra = execute_all(base)
    rb = execute_all(twins, with_model=False)
    # second chance: a pair in which either run raised is re-run with error checking off in BOTH runs (the theorem relates runs
    # whatever their error-suppression flags are); what still raises (type errors, zero divisors) is skipped
    retry = [i for i, (a, b) in enumerate(zip(ra, rb)) if not (a.ok and b.ok) and not a.harness_error and not b.harness_error]
    def ign(c):
        c2 = progs.Case(c.cid + "!", dict(c.cfg), c.instrs, c.meta); c2.cfg["ign"] = 1
        return c2
    ra2 = execute_all([ign(base[i]) for i in retry], with_model=False)
    rb2 = execute_all([ign(twins[i]) for i in retry], with_model=False)
    second = {i: (x, y) for i, x, y in zip(retry, ra2, rb2)}
    for i, (a, b) in enumerate(zip(ra, rb)):
        account(ex, a)
        correspond(ex, a, LEVELS)
        mode = "invalid-ignore" if b.case.cfg["ign"] and not a.case.cfg["ign"] else "valid"
        if b.harness_error:
            raise common.Infra(b.py_raw[:500])
        if i in second and second[i][0].ok and second[i][1].ok:
            a, b = second[i]; mode = "both-ignore"
        if not (a.ok and b.ok):
            ex.count("pair:skipped-raise")
            continue
        # a REVEALED value (the plain int returned by val()) that is fed back as a public operand makes the circuit depend on
        # a public output by design: the pair is comparable only when the fed-back revealed values coincide
        fed = [i for i, t in enumerate(a.case.instrs) if t.startswith("call val")
               and any(re.search(rf"\br{i}\b", u) for u in a.case.instrs[i + 1:])]
        if any(i < len(a.regs) and i < len(b.regs) and a.regs[i] != b.regs[i] for i in fed):
            ex.count("pair:skipped-revealed-feedback")
            continue
        ex.count(f"pair:{mode}")
        m = a.case.meta
        ex.distinct.add((m.get("shape"), m.get("op"), m.get("kinds"), a.case.cfg["bl"], mode))
        sa, sb = a.shape(), b.shape()
        # registers of input literals / revealed values may differ
        free = {i for i, t in enumerate(a.case.instrs) if t.startswith("lit ") or t.startswith("call val")}
        ra_ = [x for i, x in enumerate(sa[3]) if i not in free]; rb_ = [x for i, x in enumerate(sb[3]) if i not in free]
        if (sa[0], sa[1], sa[2], ra_, sa[4], sa[5]) != (sb[0], sb[1], sb[2], rb_, sb[4], sb[5]):
            i, why = first_difference(a, b, a.case)
            sig = instr_sig(a.case, a.regs, i) if i is not None else {"instr": "?", "operands": "?"}
            sig["mode"] = mode
            ex.violations.append(Violation(sig, f"two runs of the same program emit different constraint systems: first difference at "
                                                f"r{i} ({a.case.instrs[i] if i is not None else '?'}): {why}",
                                           {"case_a": a.case.line(), "case_b": b.case.line()}))
        if len(ex.samples) < 4 and a.cons:
            ex.samples.append({"a": a.case.line(), "b": b.case.line()})
    # calls of @snark-decorated functions are not part of the program language: the value-independence of what such a call adds to
    # the constraint system is judged by the twin-run oracle shared with C17 (harness/props/c17_twin.py)
    from . import c17_twin
    c17_twin.twin_runs(ctx, ex, "C06", ctx.n(120, 3000) * (2 if extended else 1))
    return ex


def replay(ctx, payload):
    if "twin_group" in payload["replay"]:
        from . import c17_twin
        return c17_twin.replay(payload)
    la, lb = payload["replay"]["case_a"], payload["replay"]["case_b"]
    out = common.run_workers([la, lb], nproc=1)
    a = progcheck.Rec(progs.Case("a", {"p": 0, "bl": 0, "res": 0, "ign": 0}, la.split("|")[3].split(";")), out[0])
    b = progcheck.Rec(progs.Case("b", {"p": 0, "bl": 0, "res": 0, "ign": 0}, lb.split("|")[3].split(";")), out[1])
    print(a.shape()[:3]); print(b.shape()[:3])
    return 0
