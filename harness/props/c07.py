"""C07 — a false guard makes code inert; a true guard is transparent."""
from .. import common, progcheck
from ..framework import Exploration, Violation
from ..gen import progs
from ..propsbase import *
from ..gen import progs_c07x

ASSUMPTIONS = ["bodies are drawn from every operator and assertion with operands valid and invalid for the body (out of range, failing "
               "assertion, inexact and zero division), guard depth 1-3, both guard values at every level, conditions of kind secret int, "
               "secret boolean and plain int; regions are entered through the real runtime.guarded()",
               "nested regions whose INNER condition is a raw secret integer outside {0,1} (5, -2, 2, 3, -1) below valid outer conditions: with a "
               "false outer guard, entering the inner region is dead code and must not raise (add_guard tolerates the value while errors are "
               "suppressed); the entry itself (instruction genter) is judged like any other instruction of the dead region",
               "transparency is checked against the unguarded twin: the same program with the region markers removed",
               "histories (gen/progs_c07x.py): 1-3 regions (false; false nested in true; true nested in false; false then true; true then "
               "false; two false; true; false with a body invalid for itself) are entered and LEFT, then one operation meets a value "
               "that is invalid for it (out-of-range comparison / to_bits / assert_positive, failing assertion, inexact and zero "
               "division, assert_zero / assert_nonzero / assert_range violated) or a valid control, unguarded or inside a fresh region "
               "whose condition is 1: the tail must end exactly as in the twin from which the whole history is blanked (same exception "
               "class at the same instruction, else the same values), every recorded constraint must hold when the run completes, and "
               "the program is model-compared at V+S+W; tail operands are created before the history"]
PARTIAL = ["operand conditions of stepOk include selOk (selection between lists: equal lengths) and asetOk (array write through a secret index: the stored row has the array's row length) since the repairs 1d9e8b8 / d9fc663: a length mismatch is refused with ValueError in EVERY state, guarded or not (C07_length_check_any_state: caused by public structure, not by values under the guard)"]
LEVELS = "VSW"
VALUE_ERRORS = ("AssertionError", "ValueError", "ZeroDivisionError")


def twin_unguarded(case):
    ins = [("lit n" if t.split()[0] in ("genter", "gleave") else t) for t in case.instrs]
    return progs.Case(case.cid + "u", case.cfg, ins, case.meta)


def guard_values(rec, i):
    """values of the guard conditions enclosing instruction i (from the implementation's registers)"""
    vals = []
    for g in in_guard(rec.case, i):
        s = rec.regs[g] if g < len(rec.regs) else ""
        try:
            vals.append(int(s.split(":")[1]))
        except Exception:
            vals.append(None)
    return vals


def history_block(ctx, ex, n):
    """regions entered and left, then code that meets an invalid value (see gen/progs_c07x.py)"""
    ncomb = len(progs_c07x.HISTORIES) * len(progs_c07x.TAILS)
    cases = [progs_c07x.history_case(ctx.rnd, f"c07h_{i}", k=i if i < ncomb else None) for i in range(n)]
    recs = execute_all(cases)
    twins = execute_all([progs_c07x.without_history(c) for c in cases], with_model=False)
    for r, u in zip(recs, twins):
        account(ex, r)
        correspond(ex, r, LEVELS)
        m = r.case.meta
        ex.count(f"history:{m['history']}"); ex.count(f"history-tail:{m['tail']}:{m['place']}")
        ex.distinct.add(("history", m["history"], m["tail"], m["place"], r.case.cfg["bl"], r.errcls))
        if u.harness_error:
            raise common.Infra(u.py_raw[:400])
        s, e = m["span"]
        sig = {"dev": "history-changes-later-code", "history": m["history"], "tail": m["tail"], "place": m["place"]}
        rp = {"case": r.case.line(), "without_history": u.case.line()}
        if not r.ok and s <= r.errpos < e:
            vals = guard_values(r, r.errpos)
            ex.violations.append(Violation(dict(sig, dev="raises-inside-history", error=r.errcls, effective_guard=int(all(v == 1 for v in vals))),
                                           f"{r.case.instrs[r.errpos]} inside the history raises {r.errcls} (guard values {vals})", rp))
            continue
        if (r.errcls, r.errpos) != (u.errcls, u.errpos):
            ex.violations.append(Violation(dict(sig, error_without_history=u.errcls or "none", error_with_history=r.errcls or "none"),
                                           f"after the history `{m['history']}` was entered and left, the tail `{r.case.instrs[m['tail_at']]}` "
                                           f"({m['tail']}, {m['place']}) ends with {r.status}; without the history it ends with {u.status}", rp))
        else:
            for i in range(e, min(len(r.regs), len(u.regs))):
                if progcheck.strip_lc(r.regs[i]) != progcheck.strip_lc(u.regs[i]):
                    ex.violations.append(Violation(dict(sig, dev="history-changes-later-values"),
                                                   f"r{i} ({r.case.instrs[i]}): {progcheck.strip_lc(r.regs[i])[:60]} after the history "
                                                   f"`{m['history']}`, {progcheck.strip_lc(u.regs[i])[:60]} without it", rp))
                    break
        if r.ok and r.unsat:
            k = r.unsat[0]
            ex.violations.append(Violation({"dev": "unsatisfied", "history": m["history"], "tail": m["tail"]},
                                           f"constraint #{k} ({r.cons[k][:100]}) is not satisfied by the recorded witness after the history "
                                           f"`{m['history']}` and the tail `{r.case.instrs[m['tail_at']]}`", rp))
        if r.ok and r.incoh:
            ex.violations.append(Violation({"dev": "incoherent", "history": m["history"], "tail": m["tail"]},
                                           f"r{r.incoh[0]} ({r.case.instrs[r.incoh[0]]}) reports a value that differs from its wire expression", rp))


def explore(ctx, extended=False, focus=None):
    ex = Exploration()
    ex.rule = ("guarded programs (see assumptions) on the real code: (1) under a false effective guard no value-caused exception; "
               "(2) every constraint satisfied by the recorded witness when the run completes; (3) under true guards: same values and "
               "same error class as the unguarded twin; (4) histories: regions entered and left, then an operation on a value invalid "
               "for it, compared with the twin without the history; plus V+S+W correspondence with the model; distinct = (body operators, guard kind, "
               "guard values, bitlength, error class)")
    n = ctx.n(3000, 40000) * (3 if extended else 1)
    cases = corpus_cases("C07") + [progs.guarded_case(ctx.rnd, f"c07_{i}") for i in range(n)]
    for i, c in enumerate(cases):
        if i % 4 == 3 and c.meta.get("shape") != "corpus":
            c.cfg["ign"] = 1        # globally enabled ignore-errors mode: a true guard must stay transparent there too
    recs = execute_all(cases)
    twins = execute_all([twin_unguarded(c) for c in cases], with_model=False)
    for r, u in zip(recs, twins):
        account(ex, r)
        correspond(ex, r, LEVELS)
        m = r.case.meta
        gv = tuple(m.get("gvals", ()))
        ex.count(f"guards:{''.join(map(str, gv))}" if m.get("bad_inner") is None else
                 f"guards:non-boolean-inner-condition:{'under-false-outer' if 0 in gv[:m['bad_inner']] else 'under-true-outer'}")
        ex.distinct.add((m.get("op"), m.get("kinds"), gv, r.case.cfg["bl"], r.errcls))
        # (1) inert
        if r.case.cfg["ign"] == 0 and not r.ok and r.errcls in VALUE_ERRORS and r.errpos < len(r.case.instrs):
            vals = guard_values(r, r.errpos)
            if vals and any(v == 0 for v in vals):
                sig = instr_sig(r.case, r.regs, r.errpos); sig["dev"] = "raises-under-false-guard"; sig["error"] = r.errcls
                ins = r.case.instrs[r.errpos].split()
                if ins[0] == "bin" and ins[1] in ("truediv", "floordiv", "mod", "divmod"):
                    d = r.regs[int(ins[3][1:])]
                    try:
                        sig["detail"] = "zero-divisor" if int(d.split(":")[1]) == 0 else "nonzero-divisor"
                    except Exception:
                        pass
                if r.errcls == "ZeroDivisionError":
                    # backend.fieldinverse(0): some operand (difference) is a non-zero multiple of the field prime
                    sig["detail"] = "multiple-of-modulus"
                ex.violations.append(Violation(sig, f"{r.case.instrs[r.errpos]} raises {r.errcls} although an enclosing guard is false "
                                                    f"(guard values {vals})", {"case": r.case.line()}))
        # (2) satisfied
        if r.case.cfg["ign"] == 0 and r.ok and r.unsat:
            k = r.unsat[0]
            ex.violations.append(Violation({"dev": "unsatisfied", "guards": "".join(map(str, gv))},
                                           f"constraint #{k} ({r.cons[k][:100]}) is not satisfied by the recorded witness (guard values {gv})",
                                           {"case": r.case.line()}))
        if r.ok and r.incoh:
            sig = instr_sig(r.case, r.regs, r.incoh[0]); sig["dev"] = "incoherent"
            ex.violations.append(Violation(sig, f"r{r.incoh[0]} ({r.case.instrs[r.incoh[0]]}) reports a value that differs from its wire expression",
                                           {"case": r.case.line()}))
        # (3) transparent
        if gv and all(v == 1 for v in gv) and not m.get("malformed"):
            if u.harness_error:
                raise common.Infra(u.py_raw[:400])
            if (r.errcls, r.errpos) != (u.errcls, u.errpos):
                sig = instr_sig(r.case, r.regs, min(x for x in (r.errpos, u.errpos) if x is not None))
                sig["dev"] = "true-guard-changes-errors"
                ex.violations.append(Violation(sig, f"under true guards the run ends with {r.status}, unguarded with {u.status}",
                                               {"case": r.case.line(), "unguarded": u.case.line()}))
            else:
                for i, (a, b) in enumerate(zip(r.regs, u.regs)):
                    if r.case.instrs[i].split()[0] in ("genter", "gleave"):
                        continue
                    if progcheck.strip_lc(a) != progcheck.strip_lc(b):
                        sig = instr_sig(r.case, r.regs, i); sig["dev"] = "true-guard-changes-values"
                        ex.violations.append(Violation(sig, f"r{i} ({r.case.instrs[i]}): {progcheck.strip_lc(a)[:60]} under true guards, "
                                                            f"{progcheck.strip_lc(b)[:60]} unguarded", {"case": r.case.line()}))
                        break
        if len(ex.samples) < 6 and r.cons:
            ex.samples.append(r.case.line())
    history_block(ctx, ex, max(2 * len(progs_c07x.HISTORIES) * len(progs_c07x.TAILS), n // 6))
    return ex


def replay(ctx, payload):
    replay_case(payload["replay"]["case"])
    return 0
