"""C08 — guard state is restored on every exit path and nests as a conjunction."""
from .. import common
from ..framework import Exploration, Violation

ASSUMPTIONS = ["histories are executed against the real runtime.guarded()/add_guard()/restore_guard(); after every region entered "
               "through guarded() the harness compares the guard triple (guard value and wire expression, ignore flag, LinComb.ONE; "
               "and the identity of the objects) with the one before the region, whether it ended normally or by an exception",
               "exceptions are raised explicitly at any statement and by traced operations whose values are invalid; they are caught "
               "at any enclosing level by try/except BaseException",
               "the statement-based block API (_if/_while/...) is represented by bare add_guard/restore_guard pairs",
               "every guarded() region of a history is ONE decorator object guarded(cond) decorating ONE function; re-entry events activate "
               "that same decorator object again while it is active, either by recursion of the decorated function (R) or by decorating a "
               "callee with the same decorator object (RS), to any depth, around any other event (raises, failing operations, try/except, "
               "other regions); the triple is probed around these activations as well; a re-entry event outside every guarded() region "
               "just runs its body; `with guarded(cond):` does not exist in the pinned tree and is not driven"]
PARTIAL = ["C08_restore covers regions entered through guarded(); bare add_guard/restore_guard pairs (block API) have the closed counterexample C08_cex_raw_no_unwind (finding C08-block-unwind)",
           "the value of the effective guard at depth >= 2 (conjunction through the bitwise-AND gadget) is validated by the correspondence only; proved: the error-suppression flag nests as a disjunction (C08_ignore_nests) and the outermost guard is the condition (C08_outermost)"]


def gen_events(rnd, depth, allow_raw, budget, ing=0):
    """`ing` = number of enclosing G: regions (a re-entry event has a decorator to re-enter iff ing > 0)"""
    out = []
    n = rnd.randrange(1, 4)
    for _ in range(n):
        if budget[0] <= 0:
            break
        budget[0] -= 1
        c = rnd.random()
        if c < 0.35 and depth < 4:
            k = rnd.choice(["L", "L", "L", "B", "I"])
            v = rnd.choice([0, 1, 1, 0, 1, 2, -1]) if rnd.random() < 0.15 else rnd.choice([0, 1])
            kind = "A" if allow_raw and rnd.random() < 0.3 else "G"
            out.append(f"{kind}:{k}:{v}(")
            out += gen_events(rnd, depth + 1, allow_raw, budget, ing + (kind == "G"))
            out.append(")")
        elif c < 0.5:
            # re-entry of the innermost enclosing decorator where there is one (rarely also where there is none); else try/except
            if depth < 5 and (rnd.random() < 0.5 if ing else rnd.random() < 0.06):
                out.append(rnd.choice(["R(", "R(", "RS("]))
                out += gen_events(rnd, depth + 1, allow_raw, budget, ing)
                out.append(")")
            else:
                out.append("T("); out += gen_events(rnd, depth + 1, allow_raw, budget, ing); out.append(")")
        elif c < 0.62:
            out.append(rnd.choice(["!", "!", "!b"]))
        elif c < 0.85:
            a = rnd.choice([0, 1, 5, 100, 127, 128, 300, -1, -200])
            b = rnd.choice([0, 1, 5, 100, 127, 128, 300, -1, -200])
            out.append(f"lt:{a}:{b}")
        else:
            out.append(f"az:{rnd.choice([0, 0, 1, 3, -2])}")
    return out


def gen_valid(rnd, depth, budget, ing=0):
    """regions, re-entries and in-range operations only: every run completes whatever the guard values"""
    out = []
    for _ in range(rnd.randrange(1, 4)):
        if budget[0] <= 0:
            break
        budget[0] -= 1
        c = rnd.random()
        if c < 0.4 and depth < 3:
            out.append(f"G:L:@(")
            out += gen_valid(rnd, depth + 1, budget, ing + 1)
            out.append(")")
        elif c < 0.55 and ing and depth < 4:
            out.append(rnd.choice(["R(", "RS("]))
            out += gen_valid(rnd, depth + 1, budget, ing)
            out.append(")")
        elif rnd.random() < 0.7:
            out.append(f"lt:{rnd.randrange(0, 60)}:{rnd.randrange(0, 60)}")
        else:
            out.append("az:0")
    return out


def reentries(toks):
    """does the history re-enter an active decorator (a R( / RS( with an enclosing G: region)?"""
    st = []
    for t in toks:
        if t in ("R(", "RS(") and "G" in st:
            return True
        if t.endswith("("):
            st.append(t[0])
        elif t == ")":
            st.pop()
    return False


def reentrant_family():
    """small re-entrant histories run on every seed: guard value x condition kind x way the innermost activation ends x
    re-entry form x depth, alone / under try / nested in another region / sequentially"""
    out = []
    for k, v in [("L", 0), ("L", 1), ("B", 0), ("B", 1), ("I", 1)]:
        for form in ["R(", "RS("]:
            for end in ["", "az:0", "lt:1:2", "!", "!b", "lt:5:300", "az:3"]:
                e = [end] if end else []
                out.append([f"G:{k}:{v}(", form] + e + [")", ")"])
                out.append(["T(", f"G:{k}:{v}(", form] + e + [")", ")", ")", "az:0"])
                out.append([f"G:{k}:{v}(", form, "R("] + e + [")", ")", ")"])
                out.append([f"G:{k}:{v}(", "T(", form] + e + [")", ")", "lt:1:2", ")"])
                out.append(["G:L:1(", f"G:{k}:{v}(", form] + e + [")", ")", "R(", ")", ")"])
                out.append([f"G:{k}:{v}(", form] + e + [")", form, ")", ")"])
    return out


def explore(ctx, extended=False, focus=None):
    ex = Exploration()
    ex.rule = ("random trees of events (guarded() regions with conditions of kind secret-int / secret-bool / int and values 0/1 and "
               "non-boolean, re-entries of the innermost enclosing region's decorator object while it is active - by recursion of the "
               "decorated function or through a callee decorated with the same object, nested to any depth, try/except at any level, "
               "explicit raises, comparison and assert_zero operations with valid and invalid values); regions open below bracket depth 4, "
               "re-entries below 5, try/except bounded by the event budget (<= 13 events) only; two streams: only "
               "guarded() regions, and mixed with bare add_guard/restore_guard pairs; a fixed family of small re-entrant histories "
               "(guard value x kind x exit x re-entry form x depth) is run on every seed; "
               "distinct = distinct token strings; non-trivial = contains a region")
    n = ctx.n(2000, 60000) * (4 if extended else 1)
    lines = []
    hist = []
    fixed = reentrant_family()
    for i in range(len(fixed) + n):
        allow_raw = i % 4 == 3
        if i < len(fixed):
            toks, allow_raw = fixed[i], False
        else:
            toks = gen_events(ctx.rnd, 0, allow_raw, [ctx.rnd.randrange(3, 14)])
        bl = ctx.rnd.choice([4, 8, 8, 16])
        lines.append(f"H|h{i}|p={common.BN128},bl={bl}|{' '.join(toks)}")
        hist.append((toks, allow_raw))
    # pairs: the same history with different guard values must emit the same number of wires and constraints
    pairs = []
    for i in range(n // 4):
        toks = gen_valid(ctx.rnd, 0, [ctx.rnd.randrange(3, 10)])
        if not any(t.startswith("G:") for t in toks):
            continue
        ex.count("pair:" + ("with-re-entry" if reentries(toks) else "without-re-entry"))
        a = [t.replace("@", str(ctx.rnd.choice([0, 1]))) if "@" in t else t for t in toks]
        b = [t.replace("@", str(ctx.rnd.choice([0, 1]))) if "@" in t else t for t in toks]
        pairs.append((f"H|pa{i}|p={common.BN128},bl=8|{' '.join(a)}", f"H|pb{i}|p={common.BN128},bl=8|{' '.join(b)}"))
    w = common.Worker("snarkjs", "worker_guard.py")
    try:
        py = w.run(lines)
        pa = w.run([x[0] for x in pairs]); pb = w.run([x[1] for x in pairs])
    finally:
        w.close()
    for (la, lb), a, b in zip(pairs, pa, pb):
        ex.evaluations += 1
        fa, fb = a.split("|"), b.split("|")
        ex.count("pair:" + ("both-ok" if fa[1] == fb[1] == "ok" else "skipped"))
        if fa[1] == fb[1] == "ok" and (fa[5], fa[6]) != (fb[5], fb[6]):
            ex.violations.append(Violation({"clause": "conjunction-shape"},
                                           f"the same nesting of regions emits {fa[5]},{fa[6]} for one choice of guard values and {fb[5]},{fb[6]} "
                                           f"for another: the effective guard is not the conjunction gadget of all enclosing conditions",
                                           {"line": la, "line_b": lb}))
    ml = common.lean_driver(lines)
    for line, (toks, raw), a, b in zip(lines, hist, py, ml):
        ex.evaluations += 1
        fa = a.split("|")
        if fa[1] == "harness-error":
            raise common.Infra(a[:500])
        depth = 0; md = 0
        for t in toks:
            if t.endswith("("): depth += 1; md = max(md, depth)
            elif t == ")": depth -= 1
        ex.count(f"depth:{md}"); ex.count(f"end:{fa[1]}"); ex.count("stream:" + ("mixed-raw" if raw else "guarded-only"))
        reent = reentries(toks)
        ex.count("re-entry:" + ("yes" if reent else "no"))
        if md > 0:
            ex.distinct.add(" ".join(toks))
        # wire/constraint counts are compared only where no exception was raised or swallowed (the model drops the
        # partial allocations of a failing operation, the real run keeps them)
        k = 7 if (fa[1] == "ok" and "T(" not in toks) else 5
        if fa[:k] != b.split("|")[:k]:
            ex.disagreements.append({"case": line, "impl": "|".join(fa[:7])[:300], "model": b[:300]})
        else:
            ex.traces_validated += 1
        bad = "|".join(fa[7:])[4:] if len(fa) > 7 else ""      # the triples quoted in it contain `|`
        if bad:
            # each entry is tagged by the worker: `reentrant:` = the activation that was not restored is a re-entry or had its
            # decorator re-entered while it was active; `plain:` = a single activation of its decorator
            for entry in bad.split(" ;; "):
                tag = entry.split(":", 1)[0]
                ex.violations.append(Violation({"clause": "restore", "via": "guarded", "reentrant": tag == "reentrant"},
                                               f"guard triple not restored {entry.split(': ', 1)[-1][:260]}", {"line": line}))
        final_dirty = not (fa[2] == "G=N" and fa[3] == "IGN=0")
        if final_dirty:
            has_raw = any(t.startswith("A:") for t in toks)
            ex.violations.append(Violation({"clause": "restore-final", "via": "raw" if has_raw else "guarded", "reentrant": reent},
                                           f"after the whole history the guard state is {fa[2]} {fa[3]}", {"line": line}))
        if md >= 2 and (len(ex.samples) < 3 or (len(ex.samples) < 8 and int(fa[0][1:]) >= len(fixed))):
            ex.samples.append(line.split("|", 2)[2])
    return ex


def replay(ctx, payload):
    w = common.Worker("snarkjs", "worker_guard.py")
    try:
        print(w.run([payload["replay"]["line"]])[0])
    finally:
        w.close()
    return 0
