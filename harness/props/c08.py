"""C08 — guard state is restored on every exit path and nests as a conjunction."""
from .. import common
from ..framework import Exploration, Violation

ASSUMPTIONS = ["histories are executed against the real runtime.guarded()/add_guard()/restore_guard(); after every region entered "
               "through guarded() the harness compares the guard triple (guard value and wire expression, ignore flag, LinComb.ONE; "
               "and the identity of the objects) with the one before the region, whether it ended normally or by an exception",
               "exceptions are raised explicitly at any statement and by traced operations whose values are invalid; they are caught "
               "at any enclosing level by try/except BaseException",
               "the exceptions raised inside regions are of many classes and argument shapes (event `!x:<kind>`, harness/worker_guard.py RAISERS: no "
               "arguments, str / int / None / tuple / bytes / float / exception first argument, several arguments, OSError(errno, text), classes "
               "with their own __str__, StopIteration, AssertionError, BaseException subclasses KeyboardInterrupt / SystemExit / GeneratorExit / an "
               "own one, and ordinary failing Python operations of a body: dict and list lookups, int('x'), 1 // 0, os.stat of a missing file, "
               "bytes.decode, attribute of None), in live and dead regions entered in every way, caught by the caller around the region / "
               "inside an enclosing region / not at all (a fixed family on every seed plus the random histories); besides the triple the "
               "harness notes (evidence histogram only, never a violation: the property is about the guard state) whether the exception the "
               "catcher receives is the one raised; the model has one kind of raise (`!`)",
               "the statement-based block API (_if/_while/...) is represented by bare add_guard/restore_guard pairs in the modelled history "
               "language; in addition the REAL block API (_if/_elif/_else/_endif, _while/_endwhile, _range/_endfor over a BranchingValues "
               "context, rendered as Python source by harness/worker_blockguard.py) is driven with histories whose closing or switching "
               "call raises one of the library's own bookkeeping errors (a name first assigned in only one branch / in a later branch or "
               "iteration only / in an if without else / in a loop body), the caller catches it and goes on; oracle on the real code only "
               "(no model counterpart): the guard triple after the caught error is the one from before the block (values and object "
               "identity), and a later false assertion at a live level is still rejected",
               "block statements with a step that FAILS BETWEEN the library's exit() of one arm / iteration and the enter() of the next, survived "
               "by the caller, who then closes the statement as usual (statement `failclose` of harness/worker_blockguard.py: an `_elif` whose "
               "condition function raises (explicit KeyError, lookup failure, comparison outside the bit length), an `_else` whose guard -2 "
               "add_guard refuses after `_if(1)`, the second evaluation of a `_while` / `_range` condition raising 'conditional write to "
               "undefined variables'; controls: `_elif` refused before anything happens, fault-free `_elif`), each followed by `_endif` / "
               "`_endwhile` / `_endfor` (whose own bookkeeping error is caught too), inside ENCLOSING regions of every kind - guarded(), two "
               "guarded(), the if / elif / else arm of an outer `_if`, `_while`, `for _range` with int and secret stop, `_if` inside guarded(), "
               "`_range` inside `_if` - taken and not taken: the triple after the closing call is the one before the statement (values and "
               "objects), a later false assertion is rejected in a live and tolerated in a dead enclosing region; every (failure point, "
               "enclosure, value) on every seed; Python oracle only",
               "`_breakif` at every place of the real block API: directly in a `_while`/`_range` body and inside the `_if` / `_else` arm of an "
               "`_if(d)` within such a loop, w, d, c in {0,1}, int and secret loop bounds, optionally below guarded(0/1) or a taken / "
               "not-taken `_if`; every (loop form, enclosing region, arm, w, d, c) on every seed plus random ones with 1-3 iterations and a "
               "second direct `_breakif`; a plain-Python model of the nesting kept next to the run (one 0/1 value per open region, an "
               "accepted `_breakif(c)` and-s 1-c into the innermost loop, a refused one - the unchanged tree raises AttributeError when "
               "the innermost open block is not a loop, before touching any state - changes nothing) gives, at 8-10 probe points per "
               "iteration, the conjunction the effective guard VALUE must equal; error suppression = (conjunction false), LinComb.ONE is "
               "the guard, a false assertion is tolerated exactly in dead code; the triple after the loop = the triple before. Python "
               "oracle only (the block API has no model counterpart in C08)",
               "a selection whose branches are FUNCTIONS, through the library's own if_then_else(cond, f, g) (events F: / FT: / FE: = both / only the "
               "then / only the else branch a function; conditions secret boolean 0/1 and non-boolean, secret int, plain int), is a third way "
               "of entering a region: the triple is probed around the call whichever way a branch function ends (normally, by a failing "
               "operation, by an explicit raise - in the branch taken or in the one not taken -, caught by the caller or not), nested in and "
               "around every other event; for the model such a history is read as guarded(c)(f)() followed by guarded(~c)(g)() with a "
               "fresh condition wire for ~c, so it is compared on status and final triple (guard value, flag, value of ONE) only; a fixed family (harness/props/c08.py "
               "selection_family) runs on every seed",
               "histories run with the error-suppression mode SELECTED BY THE USER through pysnark.runtime.ignore_errors(True) before the first "
               "region (configuration ign=1; a quarter of the random histories, the fixed families once more, every fifth block-API history, "
               "a quarter of the `_breakif` histories): the flag is part of the triple and must be on again after every region; the model runs "
               "the history from that initial state (execEv is total in the state)",
               "every guarded() region of a history is ONE decorator object guarded(cond) decorating ONE function; re-entry events activate "
               "that same decorator object again while it is active, either by recursion of the decorated function (R) or by decorating a "
               "callee with the same decorator object (RS), to any depth, around any other event (raises, failing operations, try/except, "
               "other regions); the triple is probed around these activations as well; a re-entry event outside every guarded() region "
               "just runs its body; `with guarded(cond):` does not exist in the pinned tree and is not driven"]
PARTIAL = ["C08_restore covers regions entered through guarded(); bare add_guard/restore_guard pairs (block API) have the closed counterexample C08_cex_raw_no_unwind (finding C08-block-unwind)",
           "the value of the effective guard at depth >= 2 (conjunction through the bitwise-AND gadget) is validated by the correspondence only; proved: the error-suppression flag nests as a disjunction (C08_ignore_nests) and the outermost guard is the condition (C08_outermost)"]


# exceptions of many classes and argument shapes (harness/worker_guard.py RAISERS): explicit raises and ordinary failing Python operations
EXC_KINDS = ["no-args", "class-only", "str", "int", "none", "tuple-arg", "two-args", "int-str", "bytes", "float", "exc-arg", "custom-str",
             "custom-str-noargs", "stop-iteration", "sysexit-int", "sysexit-none", "sysexit-str", "keyboard-interrupt", "generator-exit",
             "base-int", "dict-lookup", "dict-lookup-tuple", "list-index", "int-parse", "zero-div", "os-error", "assert", "assert-int", "decode",
             "attribute"]


def gen_events(rnd, depth, allow_raw, budget, ing=0):
    """`ing` = number of enclosing G: regions (a re-entry event has a decorator to re-enter iff ing > 0)"""
    out = []
    n = rnd.randrange(1, 4)
    for _ in range(n):
        if budget[0] <= 0:
            break
        budget[0] -= 1
        c = rnd.random()
        if c < 0.35 and depth < 4:
            k = rnd.choice(["L", "L", "L", "B", "I"])
            v = rnd.choice([0, 1, 1, 0, 1, 2, -1]) if rnd.random() < 0.15 else rnd.choice([0, 1])
            kind = "A" if allow_raw and rnd.random() < 0.3 else "G"
            if kind == "G" and rnd.random() < 0.25:
                # a selection whose branches are functions: if_then_else(cond, f, g) enters a region for f and one for g by itself
                form = rnd.choice(["F", "F", "FT", "FE"])
                if rnd.random() < 0.85: k = "B"
                out.append(f"{form}:{k}:{v}(")
                if form != "FE": out += gen_events(rnd, depth + 1, allow_raw, budget, ing)
                out.append("/")
                if form != "FT": out += gen_events(rnd, depth + 1, allow_raw, budget, ing)
                out.append(")")
                continue
            out.append(f"{kind}:{k}:{v}(")
            out += gen_events(rnd, depth + 1, allow_raw, budget, ing + (kind == "G"))
            out.append(")")
        elif c < 0.5:
            # re-entry of the innermost enclosing decorator where there is one (rarely also where there is none); else try/except
            if depth < 5 and (rnd.random() < 0.5 if ing else rnd.random() < 0.06):
                out.append(rnd.choice(["R(", "R(", "RS("]))
                out += gen_events(rnd, depth + 1, allow_raw, budget, ing)
                out.append(")")
            else:
                out.append("T("); out += gen_events(rnd, depth + 1, allow_raw, budget, ing); out.append(")")
        elif c < 0.62:
            out.append(rnd.choice(["!", "!", "!b"]) if rnd.random() < 0.4 else "!x:" + rnd.choice(EXC_KINDS))
        elif c < 0.85:
            a = rnd.choice([0, 1, 5, 100, 127, 128, 300, -1, -200])
            b = rnd.choice([0, 1, 5, 100, 127, 128, 300, -1, -200])
            out.append(f"lt:{a}:{b}")
        else:
            out.append(f"az:{rnd.choice([0, 0, 1, 3, -2])}")
    return out


def gen_valid(rnd, depth, budget, ing=0):
    """regions, re-entries and in-range operations only: every run completes whatever the guard values"""
    out = []
    for _ in range(rnd.randrange(1, 4)):
        if budget[0] <= 0:
            break
        budget[0] -= 1
        c = rnd.random()
        if c < 0.4 and depth < 3:
            out.append(f"G:L:@(")
            out += gen_valid(rnd, depth + 1, budget, ing + 1)
            out.append(")")
        elif c < 0.55 and ing and depth < 4:
            out.append(rnd.choice(["R(", "RS("]))
            out += gen_valid(rnd, depth + 1, budget, ing)
            out.append(")")
        elif rnd.random() < 0.7:
            out.append(f"lt:{rnd.randrange(0, 60)}:{rnd.randrange(0, 60)}")
        else:
            out.append("az:0")
    return out


def reentries(toks):
    """does the history re-enter an active decorator (a R( / RS( with an enclosing G: region)?"""
    st = []
    for t in toks:
        if t in ("R(", "RS(") and "G" in st:
            return True
        if t.endswith("("):
            st.append(t[0])
        elif t == ")":
            st.pop()
    return False


def has_selection(toks):
    return any(t.startswith(("F:", "FT:", "FE:")) for t in toks)


def model_tokens(toks):
    """the history as the Lean model reads it: a selection with branch functions `F:B:c( T / E )` is `guarded(c)(f)()` followed by
    `guarded(~c)(g)()` (branching.py), written `G:B:c( T ) G:B:1-c( E )`; the model allocates a second condition wire for ~c, so
    such histories are compared on status and final triple only.  A condition that is no LinCombBool never reaches a branch
    function: a secret int raises RuntimeError, a plain 0/1 returns the function object itself, another int raises ValueError."""
    out = []
    pos = 0

    def seq(pos, stop):
        res = []
        while pos < len(toks) and toks[pos] not in stop:
            t = toks[pos]
            if t.startswith(("F:", "FT:", "FE:")):
                form, k, c = t[:-1].split(":"); c = int(c)
                a, pos = seq(pos + 1, (")", "/"))
                b = []
                if pos < len(toks) and toks[pos] == "/":
                    b, pos = seq(pos + 1, (")",))
                pos += 1
                if k == "B" and c in (0, 1):
                    if form in ("F", "FT"): res += [f"G:B:{c}("] + a + [")"]
                    if form in ("F", "FE"): res += [f"G:B:{1 - c}("] + b + [")"]
                elif k == "I" and c in (0, 1):
                    pass
                else:
                    res.append("!")
            elif t.endswith("("):
                body, pos = seq(pos + 1, (")",))
                res += [t] + body + [")"]; pos += 1
            elif t.startswith("!x:"):
                res.append("!"); pos += 1       # the model has one kind of raise: what is raised is the Python side's subject
            else:
                res.append(t); pos += 1
        return res, pos
    return seq(0, ())[0]


def exception_family():
    """every exception kind x guard value x way of entering the region (guarded() with a secret int / boolean condition, below a taken
    region, the then / else branch function of a selection, a re-entered decorator) x caught by the caller around the region, inside an
    enclosing region, or not at all; later code follows.  Run on every seed."""
    out = []
    for k in EXC_KINDS:
        x = "!x:" + k
        for v in (0, 1):
            out.append(["T(", f"G:L:{v}(", x, ")", ")", "az:0", "lt:1:2"])
            out.append(["G:L:1(", "T(", f"G:B:{v}(", "lt:1:2", x, ")", ")", "lt:1:2", ")", "az:0"])
            out.append(["T(", f"FT:B:{v}(", x, "/", ")", ")", "lt:2:1"])
            out.append(["T(", f"FE:B:{v}(", "/", x, ")", ")", "lt:2:1"])
            out.append(["T(", f"G:L:{v}(", "R(", x, ")", ")", ")", "az:0"])
            out.append([f"G:B:{v}(", x, ")"])
        out.append(["T(", "G:L:1(", "G:L:0(", x, ")", "lt:1:2", ")", ")", "lt:5:300"])
        out.append(["G:L:0(", "T(", "G:L:1(", x, ")", ")", "az:3", ")", "az:0"])
    return out


def selection_family():
    """small histories through if_then_else with branch functions, run on every seed (with and without the user's ignore mode):
    condition value x which branch is a function x how the branch function ends (normally, failing operation, explicit raise) x
    caught by the caller or not x alone / inside a guarded region / followed by further events"""
    out = []
    for v in (0, 1):
        for form in ("F", "FT", "FE"):
            for end in ["", "az:0", "lt:1:2", "!", "!b", "lt:5:300", "az:3"]:
                e = [end] if end else []
                t_ = e if form != "FE" else []; f_ = e if form != "FT" else []
                sel = [f"{form}:B:{v}("] + t_ + ["/"] + f_ + [")"]
                out.append(sel)
                out.append(["T("] + sel + [")", "az:0", "lt:1:2"])
                out.append(["G:L:1(", "T("] + sel + [")", "lt:1:2", ")"])
                out.append(["G:B:1("] + sel + [")", "az:0"])
                out.append(["T(", f"F:B:{v}(", "G:L:0("] + e + [")", "/", "lt:1:2", ")", ")", "lt:2:1"])
    return out


def reentrant_family():
    """small re-entrant histories run on every seed: guard value x condition kind x way the innermost activation ends x
    re-entry form x depth, alone / under try / nested in another region / sequentially"""
    out = []
    for k, v in [("L", 0), ("L", 1), ("B", 0), ("B", 1), ("I", 1)]:
        for form in ["R(", "RS("]:
            for end in ["", "az:0", "lt:1:2", "!", "!b", "lt:5:300", "az:3"]:
                e = [end] if end else []
                out.append([f"G:{k}:{v}(", form] + e + [")", ")"])
                out.append(["T(", f"G:{k}:{v}(", form] + e + [")", ")", ")", "az:0"])
                out.append([f"G:{k}:{v}(", form, "R("] + e + [")", ")", ")"])
                out.append([f"G:{k}:{v}(", "T(", form] + e + [")", ")", "lt:1:2", ")"])
                out.append(["G:L:1(", f"G:{k}:{v}(", form] + e + [")", ")", "R(", ")", ")"])
                out.append([f"G:{k}:{v}(", form] + e + [")", form, ")", ")"])
    return out


# ---------------------------------------------------------------- block API: the closing call itself raises
def _cond(rnd, v=None):
    v = rnd.choice([0, 1]) if v is None else v
    if rnd.random() < 0.7:
        return ["B", v]
    a = rnd.randrange(0, 6)
    return ["C", a, a + 1 + rnd.randrange(0, 3)] if v else ["C", a + rnd.randrange(0, 3), a]


def _sets(rnd, names, loop=None):
    out = []
    for nm in names:
        if loop is not None and nm != "z" :
            out.append(["setk", nm, rnd.randrange(0, 9), loop])
        else:
            out.append(["set", nm, rnd.randrange(0, 9)])
    rnd.shuffle(out)
    return out


def gen_block(rnd, flavour):
    """one block whose closing / switching call may raise a bookkeeping error; `z` exists before the block, `y`, `q` do not.
    flavour: 'bookkeeping' (names assigned inconsistently), 'consistent' (no error), 'body-raise' (user code raises inside the
    open block: the recorded finding C08-block-unwind, kept to show that the two are told apart)"""
    form = rnd.choice(["if", "if", "if", "while", "for"])
    def body_extra():
        if flavour == "body-raise":
            return [rnd.choice([["raise"], ["raise"], ["assert_eq", 5, 7]])]
        return []
    if form == "if":
        narms = rnd.choice([1, 1, 2, 3]); has_else = rnd.random() < 0.7
        nb = narms + (1 if has_else else 0)
        if flavour == "bookkeeping":
            # a new name assigned in some branches but not in all of them (or only in a later one), or without an else
            new = rnd.choice(["y", "q"])
            pat = [rnd.random() < 0.5 for _ in range(nb)]
            if all(pat) and has_else: pat[rnd.randrange(nb)] = False
            if not any(pat): pat[rnd.randrange(nb)] = True
        else:
            new = "y"; allset = rnd.random() < 0.5 and has_else
            pat = [allset] * nb
        bodies = []
        for k in range(nb):
            names = (["z"] if rnd.random() < 0.6 else []) + ([new] if pat[k] else [])
            bodies.append(_sets(rnd, names))
        bodies[rnd.randrange(nb)] += body_extra()
        arms = [[_cond(rnd), bodies[k]] for k in range(narms)]
        return ["if", arms, bodies[narms] if has_else else None], form
    iters = rnd.choice([1, 2, 2, 3])
    names = ["z"] if rnd.random() < 0.8 else []
    body = _sets(rnd, names)
    if flavour == "bookkeeping":
        body += [["setk", rnd.choice(["y", "q"]), rnd.randrange(0, 9), rnd.randrange(0, iters)]]
    body += body_extra()
    if form == "while":
        return ["while", _cond(rnd), iters, body], form
    if rnd.random() < 0.5:
        return ["for", iters, None, body], form
    return ["for", ["S", rnd.randrange(1, iters + 1)], iters, body], form


def gen_block_history(rnd):
    flavour = rnd.choice(["bookkeeping"] * 6 + ["consistent"] * 2 + ["body-raise"])
    blk, form = gen_block(rnd, flavour)
    inner = [["try", [blk]], ["later"], ["set", "z", 3]]
    if rnd.random() < 0.3:
        b2, _ = gen_block(rnd, "consistent")
        inner.append(["try", [b2]])
    live = True
    wrap = rnd.choice(["none", "none", "guarded", "if", "else", "while", "guarded2"])
    if wrap == "none":
        prog = inner
    elif wrap in ("guarded", "guarded2"):
        v = rnd.choice([0, 1, 1]); live = v == 1
        prog = [["guarded", _cond(rnd, v), inner]]
        if wrap == "guarded2":
            v2 = rnd.choice([0, 1, 1]); live = live and v2 == 1
            prog = [["guarded", _cond(rnd, v2), prog]]
    elif wrap == "if":
        v = rnd.choice([0, 1, 1]); live = v == 1
        prog = [["if", [[_cond(rnd, v), inner]], [["set", "z", 1]]]]
    elif wrap == "else":
        v = rnd.choice([0, 0, 1]); live = v == 0
        prog = [["if", [[_cond(rnd, v), [["set", "z", 1]]]], inner]]
    else:
        v = rnd.choice([0, 1, 1]); live = v == 1
        prog = [["while", _cond(rnd, v), 1, inner]]
    prog = [["set", "z", rnd.randrange(0, 9)]] + prog + [["try", [["assert_eq", 5, 7]]], ["assert_eq", 4, 4]]
    return prog, {"flavour": flavour, "form": form, "wrap": wrap, "live": live}


ERRCLASS = [("did not set value", "did-not-set"), ("spurious value", "spurious"), ("and no else branch", "no-else"),
            ("conditional write to undefined", "undefined-write")]


def block_histories(ctx, ex, extended):
    """block-API histories whose closing / switching call raises; oracle on the real code only"""
    import json
    rnd = ctx.rnd
    n = ctx.n(500, 8000) * (3 if extended else 1)
    jobs = [gen_block_history(rnd) for _ in range(n)]
    for i, (prog, meta) in enumerate(jobs):
        meta["ign"] = 1 if i % 5 == 4 else 0          # every fifth history runs after the user's ignore_errors(True)
    lines = [f"BG|bg{i}|p={common.BN128},bl=8{',ign=1' if meta['ign'] else ''}|" + json.dumps(prog) for i, (prog, meta) in enumerate(jobs)]
    outs = common.run_workers(lines, script="worker_blockguard.py", nproc=4)
    for line, (prog, meta), o in zip(lines, jobs, outs):
        f = o.split("|", 7)
        if len(f) < 8 or f[1] == "harness-error":
            raise common.Infra("worker_blockguard: " + o[:400])
        ex.evaluations += 1
        rep = json.loads(f[7])
        ex.count(f"block:{meta['form']}:{meta['flavour']}:wrap-{meta['wrap']}"); ex.count(f"block:user-ignore-mode:{'on' if meta['ign'] else 'off'}")
        imode = "user-on" if meta["ign"] else "off"
        first_bad = None
        for pr in rep["probes"]:
            err = next((c for k, c in ERRCLASS if pr["exc"] and k in pr["exc"]), "none" if not pr["exc"] else "other")
            ex.count(f"block-probe:{pr['tag']}:{err}:{'restored' if pr['restored'] else 'NOT-restored'}")
            if pr["tag"] == "closing-call":
                ex.distinct.add(("block", meta["form"], meta["wrap"], pr["call"], err, json.dumps(prog)))
            if not pr["restored"] and first_bad is None:
                first_bad = (pr, err)
        payload = {"line": line, "source": rep["source"], "probes": rep["probes"], "later": rep["later"]}
        if first_bad:
            pr, err = first_bad
            what = (f"block API: after {pr['call'] or 'user code'} raised {pr['exc']!r} and the caller caught it, the guard triple is "
                    f"{pr['after']} (before the try: {pr['before']}){' (same values, different objects)' if pr['objects_differ_only'] else ''}")
            if pr["tag"] == "open-region":
                # an exception propagating out of an OPEN block: the recorded finding (same signature as the bare-pair histories)
                ex.violations.append(Violation({"clause": "restore-final", "via": "raw", "api": "block-statements", "raised_by": "body"}, what, payload))
            else:
                ex.violations.append(Violation({"clause": "restore", "via": "block-closing-call" if pr["tag"] == "closing-call" else "block-" + pr["tag"],
                                                "call": pr["call"], "error": err, "ignore_mode": imode}, what, payload))
            continue        # everything after the first unrestored probe runs in a polluted state
        if meta["live"] and not meta["ign"] and rep["later"] and rep["later"][0] != "rejected":
            ex.violations.append(Violation({"clause": "later-assertion", "via": "block-closing-call"},
                                           "block API: after the caught error a false assertion PrivVal(5).assert_eq(7) at a live level is accepted", payload))
        if not (f[2] == "G=N" and f[3] == f"IGN={meta['ign']}"):
            ex.violations.append(Violation({"clause": "restore-final", "via": "block-closing-call", "status": f[1].split(":")[0], "ignore_mode": imode},
                                           f"block API: the history ends with status {f[1]} and guard state {f[2]} {f[3]}"
                                           + (" (run after the user's ignore_errors(True))" if meta["ign"] else ""), payload))
        if len(ex.samples) < 10 and meta["flavour"] == "bookkeeping" and any(p_["tag"] == "closing-call" for p_ in rep["probes"]) \
                and not any(s_.startswith("BG|") for s_ in ex.samples):
            ex.samples.append(line)



# ---------------------------------------------------------------- block API: a failed switching call, survived, then the closing call
FAIL_KINDS = [("if", "elif-thunk-raises"), ("if", "elif-thunk-lookup"), ("if", "elif-condition-overflows"), ("if", "else-guard-rejected"),
              ("if", "elif-not-callable"), ("if", "elif-ok"), ("while", "undefined-write:y"), ("for", "undefined-write:y"),
              ("for-secret", "undefined-write:q")]
ENCLOSURES = ["none", "guarded", "guarded2", "if", "else", "elif", "while", "for-int", "for-secret", "if-in-guarded", "for-in-if"]


def failclose_program(form, kind, wrap, v, rnd=None):
    """a block statement with a step that fails between exit() and enter(), survived by the caller and closed as usual, inside an
    ENCLOSING region of kind `wrap` whose condition has value v (1 = taken); later code of the enclosing region follows: a false
    assertion must still be rejected in a live enclosing region and tolerated in a dead one"""
    B = lambda x: ["B", x] if rnd is None or rnd.random() < 0.7 else (["C", 1, 3] if x else ["C", 3, 1])
    names = ["z"] if rnd is None or rnd.random() < 0.8 else []
    c = B(rnd.choice([0, 1]) if rnd else 1)
    if form == "for": c = 2
    if form == "for-secret": c = ["S", rnd.choice([1, 2]) if rnd else 2]
    stmt = ["failclose", form.split("-")[0], kind, c, names]
    inner = [stmt, ["later"], ["set", "z", 3]]
    if rnd is not None and rnd.random() < 0.3:
        f2, k2 = rnd.choice(FAIL_KINDS)
        inner.append(failclose_program(f2, k2, "none", 1, rnd)[0][1])         # a second such statement at the same level
    live = True
    if wrap == "none": prog = inner
    elif wrap == "guarded": prog = [["guarded", B(v), inner]]; live = v == 1
    elif wrap == "guarded2":
        v2 = rnd.choice([0, 1, 1]) if rnd else 1
        prog = [["guarded", B(v2), [["guarded", B(v), inner]]]]; live = v == 1 and v2 == 1
    elif wrap == "if": prog = [["if", [[B(v), inner]], [["set", "z", 1]]]]; live = v == 1
    elif wrap == "else": prog = [["if", [[B(1 - v), [["set", "z", 1]]]], inner]]; live = v == 1
    elif wrap == "elif": prog = [["if", [[B(0), [["set", "z", 1]]], [B(v), inner]], [["set", "z", 2]]]]; live = v == 1
    elif wrap == "while": prog = [["while", B(v), 1, inner]]; live = v == 1
    elif wrap == "for-int": prog = [["for", 1, None, inner]]; live = True
    elif wrap == "for-secret": prog = [["for", ["S", v], 1, inner]]; live = v == 1           # stop 0: the only iteration is not live
    elif wrap == "if-in-guarded": prog = [["guarded", B(1), [["if", [[B(v), inner]], [["set", "z", 1]]]]]]; live = v == 1
    elif wrap == "for-in-if": prog = [["if", [[B(v), [["for", 1, None, inner]]]], [["set", "z", 1]]]]; live = v == 1
    else: raise ValueError(wrap)
    return [["set", "z", 2]] + prog + [["try", [["assert_eq", 5, 7]]], ["assert_eq", 4, 4]], live


def failclose_histories(ctx, ex, extended):
    """every (failure point, enclosing region, value of its condition) on every seed, plus random ones (second statement, comparison
    conditions, no pre-existing name); every fourth after the user's ignore_errors(True).  Python oracle only."""
    import json
    rnd = ctx.rnd
    jobs = []
    for form, kind in FAIL_KINDS:
        for wrap in ENCLOSURES:
            for v in ((1,) if wrap in ("none", "for-int") else (1, 0)):
                prog, live = failclose_program(form, kind, wrap, v)
                jobs.append((prog, {"form": form, "kind": kind, "wrap": wrap, "live": live, "ign": 0}))
    nfix = len(jobs)
    for i in range(ctx.n(150, 4000) * (3 if extended else 1)):
        form, kind = rnd.choice(FAIL_KINDS); wrap = rnd.choice(ENCLOSURES); v = rnd.choice([0, 1])
        if wrap in ("none", "for-int"): v = 1
        prog, live = failclose_program(form, kind, wrap, v, rnd)
        jobs.append((prog, {"form": form, "kind": kind, "wrap": wrap, "live": live, "ign": 1 if i % 4 == 3 else 0}))
    jobs += [(prog, dict(meta, ign=1)) for prog, meta in jobs[:nfix:4]]
    lines = [f"BG|fc{i}|p={common.BN128},bl=8{',ign=1' if meta['ign'] else ''}|" + json.dumps(prog) for i, (prog, meta) in enumerate(jobs)]
    outs = common.run_workers(lines, script="worker_blockguard.py", nproc=4)
    for line, (prog, meta), o in zip(lines, jobs, outs):
        f = o.split("|", 7)
        if len(f) < 8 or f[1] == "harness-error":
            raise common.Infra("worker_blockguard: " + o[:400])
        ex.evaluations += 1
        rep = json.loads(f[7])
        imode = "user-on" if meta["ign"] else "off"
        region = "none" if meta["wrap"] == "none" else ("live" if meta["live"] else "dead")
        payload = {"line": line, "source": rep["source"], "probes": rep["probes"], "later": rep["later"]}
        ex.distinct.add(("failclose", json.dumps(prog), meta["ign"]))
        bad = False
        for pr in rep["probes"]:
            if not pr["tag"].startswith("closed-"):
                continue
            ex.count(f"block-failclose:{pr['call']}:wrap-{meta['wrap']}:{region}:{pr['tag']}:{'restored' if pr['restored'] else 'NOT-restored'}")
            if not pr["restored"] and not bad:
                bad = True
                ex.violations.append(Violation({"clause": "restore", "via": "block-" + pr["tag"], "call": pr["call"].split(":")[0],
                                                "enclosing": meta["wrap"], "enclosing_region": region, "ignore_mode": imode},
                                               f"block API: inside an enclosing region ({meta['wrap']}, {region}) a block statement whose switching call "
                                               f"failed ({pr['exc']}) was survived by the caller and closed as usual: the guard triple after the closing "
                                               f"call is {pr['after']} (before the statement: {pr['before']})"
                                               f"{' (same values, different objects)' if pr['objects_differ_only'] else ''}", payload))
        if bad:
            continue
        ex.traces_validated += 1
        if f[1] != "ok":
            ex.violations.append(Violation({"clause": "restore", "via": "block-closed-after-failed-switch", "dev": "history-raises", "enclosing": meta["wrap"],
                                            "ignore_mode": imode}, f"block API: the history ends with {f[1]}", payload))
            continue
        if not meta["ign"] and rep["later"]:
            want = "rejected" if meta["live"] else "accepted"
            if rep["later"][0] != want:
                ex.violations.append(Violation({"clause": "later-assertion", "via": "block-closed-after-failed-switch", "enclosing": meta["wrap"],
                                                "enclosing_region": region},
                                               f"block API: after the closed statement, later code of the {region} enclosing region ({meta['wrap']}): a false "
                                               f"assertion PrivVal(5).assert_eq(7) is {rep['later'][0]} (must be {want})", payload))
        if not (f[2] == "G=N" and f[3] == f"IGN={meta['ign']}"):
            ex.violations.append(Violation({"clause": "restore-final", "via": "block-closed-after-failed-switch", "ignore_mode": imode},
                                           f"block API: the history ends with guard state {f[2]} {f[3]}", payload))


def breakif_program(loop, wrap, place, w, d, c, iters=2, direct=None, rnd=None):
    """`_breakif(c)` inside the `place` arm of an `_if(d)` within a loop of condition `w`, optionally below guarded(g) / a taken
    or not-taken `_if`; probes at every point where the set of enclosing conditions changes"""
    B = lambda v: ["B", v] if rnd is None or rnd.random() < 0.7 else (["C", 1, 3] if v else ["C", 3, 1])
    arm = [["probe", "arm-before-break"], ["breakif", B(c)], ["probe", "arm-after-break"], ["set", "z", 4], ["probe", "arm-end"]]
    other = [["probe", "other-arm"], ["set", "z", 5]]
    iff = ["if", [[B(d), arm if place == "if-arm" else other]], other if place == "if-arm" else arm]
    body = [["probe", "loop-top"], iff, ["probe", "after-endif"]]
    if direct is not None:
        body += [["breakif", B(direct)], ["probe", "after-direct-break"]]
    body += [["set", "z", 6], ["probe", "iteration-end"]]
    if loop == "while": lp = ["while", B(w), iters, body]
    elif loop == "for-int": lp = ["for", iters, None, body]
    else: lp = ["for", ["S", (iters if w else 0)], iters, body]          # secret stop: w = 0 -> no live iteration
    inner = [["probe", "before-loop"], ["try", [lp]], ["probe", "after-loop"]]
    if wrap == "none": prog = inner
    elif wrap in ("guarded1", "guarded0"): prog = [["guarded", B(int(wrap[-1])), inner]]
    elif wrap in ("if1", "if0"): prog = [["if", [[B(int(wrap[-1])), inner]], [["set", "z", 1]]]]
    else: raise ValueError(wrap)
    return [["set", "z", 2]] + prog + [["probe", "end"]]


def breakif_family():
    """every (loop form, enclosing region, arm, w, d, c), run on every seed"""
    out = []
    for loop in ("while", "for-int", "for-secret"):
        for wrap in ("none", "guarded1", "guarded0"):
            for place in ("if-arm", "else-arm"):
                for w in (0, 1):
                    for d in (0, 1):
                        for c in (0, 1):
                            if loop == "for-int" and w == 0: continue
                            out.append((breakif_program(loop, wrap, place, w, d, c),
                                        {"loop": loop, "wrap": wrap, "place": place, "wdc": f"{w}{d}{c}", "direct": None}))
    return out


def conjunction_histories(ctx, ex, extended):
    """`_breakif` inside `_if`/`_else` arms within `_while`/`_range` loops: at every probe the effective guard is the conjunction of
    the enclosing conditions given by a plain-Python model of the nesting (worker_blockguard.py); the unchanged tree refuses such a
    `_breakif` (AttributeError, nothing changes), which the model follows; a run that goes on must satisfy the conjunction rule"""
    import json
    rnd = ctx.rnd
    jobs = breakif_family()
    for _ in range(ctx.n(250, 5000) * (3 if extended else 1)):
        loop = rnd.choice(["while", "while", "for-int", "for-secret"]); wrap = rnd.choice(["none", "none", "guarded1", "guarded0", "if1", "if0"])
        place = rnd.choice(["if-arm", "else-arm"]); w, d, c = (rnd.choice([0, 1, 1]) for _ in range(3))
        if loop == "for-int": w = 1
        direct = rnd.choice([None, None, 0, 1])
        jobs.append((breakif_program(loop, wrap, place, w, d, c, iters=rnd.choice([1, 2, 3]), direct=direct, rnd=rnd),
                     {"loop": loop, "wrap": wrap, "place": place, "wdc": f"{w}{d}{c}", "direct": direct}))
    nfam = len(breakif_family())
    for i, (prog, meta) in enumerate(jobs):
        meta["ign"] = 1 if i >= nfam and i % 4 == 3 else 0
    # the fixed family once more after the user's ignore_errors(True) (every third member)
    jobs += [(prog, dict(meta, ign=1)) for prog, meta in jobs[:nfam:3]]
    lines = [f"BG|cj{i}|p={common.BN128},bl=8{',ign=1' if meta['ign'] else ''}|" + json.dumps(prog) for i, (prog, meta) in enumerate(jobs)]
    outs = common.run_workers(lines, script="worker_blockguard.py", nproc=4)
    for line, (prog, meta), o in zip(lines, jobs, outs):
        f = o.split("|", 7)
        if len(f) < 8 or f[1] == "harness-error":
            raise common.Infra("worker_blockguard: " + o[:400])
        ex.evaluations += 1
        rep = json.loads(f[7])
        uign = bool(meta["ign"])
        ex.count(f"breakif:user-ignore-mode:{'on' if uign else 'off'}")
        ex.distinct.add(("breakif", json.dumps(prog), uign))
        outcome = "accepted" if "accepted" in rep["breakif"][:1] else "refused" if rep["breakif"] else "not-reached"
        ex.count(f"breakif:{meta['loop']}:{meta['place']}:wrap-{meta['wrap']}:{outcome}")
        payload = {"line": line, "source": rep["source"], "conjunction_probes": rep["cprobes"], "breakif": rep["breakif"], "status": f[1]}
        sig = {"clause": "conjunction", "via": "block-breakif", "place": meta["place"], "loop": meta["loop"].split("-")[0],
               "ignore_mode": "user-on" if uign else "off"}
        if f[1] != "ok":
            ex.violations.append(Violation(dict(sig, dev="raises", error=f[1].split(":")[-1]),
                                           f"block API: `_breakif` inside the {meta['place']} of an `_if` within a {meta['loop']} loop "
                                           f"(w,d,c = {meta['wdc']}, {meta['wrap']}): the run ends with {f[1]}", payload))
            continue
        ex.traces_validated += 1
        bad = None
        for pr in rep["cprobes"]:
            dead = pr["expect"] == 0
            if pr["guard"] != pr["expect"]: bad = ("guard", pr, f"effective guard value {pr['guard']}, conjunction of the enclosing conditions {pr['expect']}")
            elif pr["ign"] != (dead or uign):
                bad = ("error-suppression", pr, f"error suppression is {pr['ign']} where the conjunction is {pr['expect']}"
                                                + (" and the user has switched it on through ignore_errors(True)" if uign else ""))
            elif not pr["one_is_guard"]: bad = ("one", pr, "LinComb.ONE is not the guard in effect")
            elif (pr["false_assertion"] == "tolerated") != (dead or uign):
                bad = ("false-assertion", pr, f"a false assertion is {pr['false_assertion']} where the conjunction is {pr['expect']}")
            if bad: break
        if bad:
            q, pr, msg = bad
            ex.violations.append(Violation(dict(sig, quantity=q, where=pr["label"], breakif=outcome),
                                           f"block API: `_breakif` ({outcome}) inside the {meta['place']} of an `_if` within a {meta['loop']} loop, "
                                           f"w,d,c = {meta['wdc']}, enclosing region {meta['wrap']}: at probe `{pr['label']}` (nesting "
                                           f"{pr['nesting']}) {msg}", payload))
            continue
        unrestored = [pr for pr in rep["probes"] if not pr["restored"]]
        if unrestored:
            pr = unrestored[0]
            ex.violations.append(Violation(dict(sig, quantity="restore", breakif=outcome),
                                           f"block API: after the loop with a `_breakif` ({outcome}) in an {meta['place']} the guard triple is "
                                           f"{pr['after']} (before the loop: {pr['before']})", payload))
        elif not (f[2] == "G=N" and f[3] == f"IGN={int(uign)}"):
            ex.violations.append(Violation(dict(sig, quantity="restore-final", breakif=outcome),
                                           f"block API: the history ends with guard state {f[2]} {f[3]}", payload))


def explore(ctx, extended=False, focus=None):
    ex = Exploration()
    ex.rule = ("random trees of events (guarded() regions with conditions of kind secret-int / secret-bool / int and values 0/1 and "
               "non-boolean, re-entries of the innermost enclosing region's decorator object while it is active - by recursion of the "
               "decorated function or through a callee decorated with the same object, nested to any depth, try/except at any level, "
               "explicit raises, comparison and assert_zero operations with valid and invalid values); regions open below bracket depth 4, "
               "re-entries below 5, try/except bounded by the event budget (<= 13 events) only; two streams: only "
               "guarded() regions, and mixed with bare add_guard/restore_guard pairs; a fixed family of small re-entrant histories "
               "(guard value x kind x exit x re-entry form x depth) is run on every seed; "
               "distinct = distinct token strings; non-trivial = contains a region")
    n = ctx.n(2000, 60000) * (4 if extended else 1)
    lines = []
    hist = []
    fam = reentrant_family(); sel = selection_family()
    # the fixed families run with error checking on, and once more after the USER switched it off (ignore_errors(True) before the
    # history): the user's mode is part of the triple every region must bring back
    excf = exception_family()
    fixed = [(t, 0) for t in fam + sel + excf] + [(t, 1) for t in fam[::3] + sel + excf[::5]]
    mlines = []
    for i in range(len(fixed) + n):
        allow_raw = i % 4 == 3
        if i < len(fixed):
            (toks, ign0), allow_raw = fixed[i], False
        else:
            toks = gen_events(ctx.rnd, 0, allow_raw, [ctx.rnd.randrange(3, 14)])
            ign0 = 1 if ctx.rnd.random() < 0.25 else 0
        bl = ctx.rnd.choice([4, 8, 8, 16])
        cfg = f"p={common.BN128},bl={bl}" + (",ign=1" if ign0 else "")
        lines.append(f"H|h{i}|{cfg}|{' '.join(toks)}")
        mlines.append(f"H|h{i}|{cfg}|{' '.join(model_tokens(toks))}")
        hist.append((toks, allow_raw, ign0))
    # pairs: the same history with different guard values must emit the same number of wires and constraints
    pairs = []
    for i in range(n // 4):
        toks = gen_valid(ctx.rnd, 0, [ctx.rnd.randrange(3, 10)])
        if not any(t.startswith("G:") for t in toks):
            continue
        ex.count("pair:" + ("with-re-entry" if reentries(toks) else "without-re-entry"))
        a = [t.replace("@", str(ctx.rnd.choice([0, 1]))) if "@" in t else t for t in toks]
        b = [t.replace("@", str(ctx.rnd.choice([0, 1]))) if "@" in t else t for t in toks]
        pairs.append((f"H|pa{i}|p={common.BN128},bl=8|{' '.join(a)}", f"H|pb{i}|p={common.BN128},bl=8|{' '.join(b)}"))
    w = common.Worker("snarkjs", "worker_guard.py")
    try:
        py = w.run(lines)
        pa = w.run([x[0] for x in pairs]); pb = w.run([x[1] for x in pairs])
    finally:
        w.close()
    for (la, lb), a, b in zip(pairs, pa, pb):
        ex.evaluations += 1
        fa, fb = a.split("|"), b.split("|")
        ex.count("pair:" + ("both-ok" if fa[1] == fb[1] == "ok" else "skipped"))
        if fa[1] == fb[1] == "ok" and (fa[5], fa[6]) != (fb[5], fb[6]):
            ex.violations.append(Violation({"clause": "conjunction-shape"},
                                           f"the same nesting of regions emits {fa[5]},{fa[6]} for one choice of guard values and {fb[5]},{fb[6]} "
                                           f"for another: the effective guard is not the conjunction gadget of all enclosing conditions",
                                           {"line": la, "line_b": lb}))
    ml = common.lean_driver(mlines)
    for line, (toks, raw, ign0), a, b in zip(lines, hist, py, ml):
        ex.evaluations += 1
        fa = a.split("|")
        if fa[1] == "harness-error":
            raise common.Infra(a[:500])
        depth = 0; md = 0
        for t in toks:
            if t.endswith("("): depth += 1; md = max(md, depth)
            elif t == ")": depth -= 1
        ex.count(f"depth:{md}"); ex.count(f"end:{fa[1]}"); ex.count("stream:" + ("mixed-raw" if raw else "guarded-only"))
        reent = reentries(toks)
        ex.count("re-entry:" + ("yes" if reent else "no"))
        for t in toks:
            if t.startswith("!x:"): ex.count("raise:" + t[3:])
        selh = has_selection(toks)
        ex.count("selection-with-branch-functions:" + ("yes" if selh else "no")); ex.count("user-ignore-mode:" + ("on" if ign0 else "off"))
        imode = "user-on" if ign0 else "off"
        if md > 0:
            ex.distinct.add(" ".join(toks))
        # wire/constraint counts are compared only where no exception was raised or swallowed (the model drops the
        # partial allocations of a failing operation, the real run keeps them)
        k = 7 if (fa[1] == "ok" and "T(" not in toks and not selh) else 5
        fb = b.split("|")
        if selh:
            # the model's reading of a selection allocates one more condition wire (for ~c): wire numbers in a guard that is still
            # installed at the end (bare add_guard regions after it) are shifted; status, guard VALUE, flag and ONE's value are compared
            strip = lambda t: t.split(":")[0] if "=" in t else t
            fa_c, fb_c = [strip(t) for t in fa[:5]], [strip(t) for t in fb[:5]]
        else:
            fa_c, fb_c = fa[:k], fb[:k]
        if fa_c != fb_c:
            ex.disagreements.append({"case": line, "impl": "|".join(fa[:7])[:300], "model": b[:300]})
        else:
            ex.traces_validated += 1
        bad = "|".join(fa[7:])[4:] if len(fa) > 7 else ""      # the triples quoted in it contain `|`
        if bad:
            # each entry is tagged by the worker: `reentrant:` = the activation that was not restored is a re-entry or had its
            # decorator re-entered while it was active; `plain:` = a single activation of its decorator
            for entry in bad.split(" ;; "):
                tag = entry.split(":", 1)[0]
                if tag == "exception":
                    # the exception the caller caught is not the one that was raised in the region (another object / changed arguments)
                    _, where, base, first, dev = entry.split(":")[:5]
                    # NOT a violation of C08 (the property is about the guard state, and the triple is judged separately below / above):
                    # recorded in the evidence histogram only
                    ex.count(f"exception-altered-on-the-way:{dev.strip()}")
                    continue
                if tag == "selection":
                    sig = {"clause": "restore", "via": "if_then_else-branch-function", "ignore_mode": imode}
                else:
                    sig = {"clause": "restore", "via": "guarded", "reentrant": tag == "reentrant", "ignore_mode": imode}
                ex.violations.append(Violation(sig, f"guard triple not restored {entry.split(': ', 1)[-1][:260]}"
                                                    + (" [history run after the user's ignore_errors(True)]" if ign0 else ""), {"line": line}))
        final_dirty = not (fa[2] == "G=N" and fa[3] == f"IGN={ign0}")
        if final_dirty:
            has_raw = any(t.startswith("A:") for t in toks)
            ex.violations.append(Violation({"clause": "restore-final", "via": "raw" if has_raw else "if_then_else-branch-function" if selh else "guarded",
                                            "reentrant": reent, "ignore_mode": imode},
                                           f"after the whole history the guard state is {fa[2]} {fa[3]}"
                                           + (f" (the user had selected IGN={ign0} before it)" if ign0 else ""), {"line": line}))
        if md >= 2 and (len(ex.samples) < 3 or (len(ex.samples) < 8 and int(fa[0][1:]) >= len(fixed))):
            ex.samples.append(line.split("|", 2)[2])
    block_histories(ctx, ex, extended)
    failclose_histories(ctx, ex, extended)
    conjunction_histories(ctx, ex, extended)
    return ex


def replay(ctx, payload):
    if payload["replay"]["line"].startswith("BG|"):
        import json
        o = common.run_workers([payload["replay"]["line"]], script="worker_blockguard.py", nproc=1)[0]
        f = o.split("|", 7)
        print("|".join(f[:7]))
        if len(f) > 7:
            rep = json.loads(f[7]); print(rep.pop("source")); print(json.dumps(rep, indent=1))
        return 0
    w = common.Worker("snarkjs", "worker_guard.py")
    try:
        print(w.run([payload["replay"]["line"]])[0])
    finally:
        w.close()
    return 0
