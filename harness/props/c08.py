"""C08 — guard state is restored on every exit path and nests as a conjunction."""
from .. import common
from ..framework import Exploration, Violation

ASSUMPTIONS = ["histories are executed against the real runtime.guarded()/add_guard()/restore_guard(); after every region entered "
               "through guarded() the harness compares the guard triple (guard value and wire expression, ignore flag, LinComb.ONE; "
               "and the identity of the objects) with the one before the region, whether it ended normally or by an exception",
               "exceptions are raised explicitly at any statement and by traced operations whose values are invalid; they are caught "
               "at any enclosing level by try/except BaseException",
               "the statement-based block API (_if/_while/...) is represented by bare add_guard/restore_guard pairs"]
PARTIAL = ["C08_restore covers regions entered through guarded(); bare add_guard/restore_guard pairs (block API) have the closed counterexample C08_cex_raw_no_unwind (finding C08-block-unwind)",
           "the value of the effective guard at depth >= 2 (conjunction through the bitwise-AND gadget) is validated by the correspondence only; proved: the error-suppression flag nests as a disjunction (C08_ignore_nests) and the outermost guard is the condition (C08_outermost)"]


def gen_events(rnd, depth, allow_raw, budget):
    out = []
    n = rnd.randrange(1, 4)
    for _ in range(n):
        if budget[0] <= 0:
            break
        budget[0] -= 1
        c = rnd.random()
        if c < 0.35 and depth < 4:
            k = rnd.choice(["L", "L", "L", "B", "I"])
            v = rnd.choice([0, 1, 1, 0, 1, 2, -1]) if rnd.random() < 0.15 else rnd.choice([0, 1])
            kind = "A" if allow_raw and rnd.random() < 0.3 else "G"
            out.append(f"{kind}:{k}:{v}(")
            out += gen_events(rnd, depth + 1, allow_raw, budget)
            out.append(")")
        elif c < 0.5:
            out.append("T("); out += gen_events(rnd, depth + 1, allow_raw, budget); out.append(")")
        elif c < 0.62:
            out.append(rnd.choice(["!", "!", "!b"]))
        elif c < 0.85:
            a = rnd.choice([0, 1, 5, 100, 127, 128, 300, -1, -200])
            b = rnd.choice([0, 1, 5, 100, 127, 128, 300, -1, -200])
            out.append(f"lt:{a}:{b}")
        else:
            out.append(f"az:{rnd.choice([0, 0, 1, 3, -2])}")
    return out


def gen_valid(rnd, depth, budget):
    """regions and in-range operations only: every run completes whatever the guard values"""
    out = []
    for _ in range(rnd.randrange(1, 4)):
        if budget[0] <= 0:
            break
        budget[0] -= 1
        if rnd.random() < 0.45 and depth < 3:
            out.append(f"G:L:@(")
            out += gen_valid(rnd, depth + 1, budget)
            out.append(")")
        elif rnd.random() < 0.7:
            out.append(f"lt:{rnd.randrange(0, 60)}:{rnd.randrange(0, 60)}")
        else:
            out.append("az:0")
    return out


def explore(ctx, extended=False, focus=None):
    ex = Exploration()
    ex.rule = ("random trees of events (guarded() regions with conditions of kind secret-int / secret-bool / int and values 0/1 and "
               "non-boolean, try/except at any level, explicit raises, comparison and assert_zero operations with valid and invalid "
               "values), depth <= 4; two streams: only guarded() regions, and mixed with bare add_guard/restore_guard pairs; "
               "distinct = distinct token strings; non-trivial = contains a region")
    n = ctx.n(2000, 60000) * (4 if extended else 1)
    lines = []
    hist = []
    for i in range(n):
        allow_raw = i % 4 == 3
        toks = gen_events(ctx.rnd, 0, allow_raw, [ctx.rnd.randrange(3, 14)])
        bl = ctx.rnd.choice([4, 8, 8, 16])
        lines.append(f"H|h{i}|p={common.BN128},bl={bl}|{' '.join(toks)}")
        hist.append((toks, allow_raw))
    # pairs: the same history with different guard values must emit the same number of wires and constraints
    pairs = []
    for i in range(n // 4):
        toks = gen_valid(ctx.rnd, 0, [ctx.rnd.randrange(3, 10)])
        if not any(t.startswith("G:") for t in toks):
            continue
        a = [t.replace("@", str(ctx.rnd.choice([0, 1]))) if "@" in t else t for t in toks]
        b = [t.replace("@", str(ctx.rnd.choice([0, 1]))) if "@" in t else t for t in toks]
        pairs.append((f"H|pa{i}|p={common.BN128},bl=8|{' '.join(a)}", f"H|pb{i}|p={common.BN128},bl=8|{' '.join(b)}"))
    w = common.Worker("snarkjs", "worker_guard.py")
    try:
        py = w.run(lines)
        pa = w.run([x[0] for x in pairs]); pb = w.run([x[1] for x in pairs])
    finally:
        w.close()
    for (la, lb), a, b in zip(pairs, pa, pb):
        ex.evaluations += 1
        fa, fb = a.split("|"), b.split("|")
        ex.count("pair:" + ("both-ok" if fa[1] == fb[1] == "ok" else "skipped"))
        if fa[1] == fb[1] == "ok" and (fa[5], fa[6]) != (fb[5], fb[6]):
            ex.violations.append(Violation({"clause": "conjunction-shape"},
                                           f"the same nesting of regions emits {fa[5]},{fa[6]} for one choice of guard values and {fb[5]},{fb[6]} "
                                           f"for another: the effective guard is not the conjunction gadget of all enclosing conditions",
                                           {"line": la, "line_b": lb}))
    ml = common.lean_driver(lines)
    for line, (toks, raw), a, b in zip(lines, hist, py, ml):
        ex.evaluations += 1
        fa = a.split("|")
        if fa[1] == "harness-error":
            raise common.Infra(a[:500])
        depth = 0; md = 0
        for t in toks:
            if t.endswith("("): depth += 1; md = max(md, depth)
            elif t == ")": depth -= 1
        ex.count(f"depth:{md}"); ex.count(f"end:{fa[1]}"); ex.count("stream:" + ("mixed-raw" if raw else "guarded-only"))
        if md > 0:
            ex.distinct.add(" ".join(toks))
        # wire/constraint counts are compared only where no exception was raised or swallowed (the model drops the
        # partial allocations of a failing operation, the real run keeps them)
        k = 7 if (fa[1] == "ok" and "T(" not in toks) else 5
        if fa[:k] != b.split("|")[:k]:
            ex.disagreements.append({"case": line, "impl": "|".join(fa[:7])[:300], "model": b[:300]})
        else:
            ex.traces_validated += 1
        bad = fa[7][4:] if len(fa) > 7 else ""
        if bad:
            ex.violations.append(Violation({"clause": "restore", "via": "guarded"},
                                           f"guard triple not restored {bad[:200]}", {"line": line}))
        final_dirty = not (fa[2] == "G=N" and fa[3] == "IGN=0")
        if final_dirty:
            has_raw = any(t.startswith("A:") for t in toks)
            ex.violations.append(Violation({"clause": "restore-final", "via": "raw" if has_raw else "guarded"},
                                           f"after the whole history the guard state is {fa[2]} {fa[3]}", {"line": line}))
        if len(ex.samples) < 6 and md >= 2:
            ex.samples.append(line.split("|", 2)[2])
    return ex


def replay(ctx, payload):
    w = common.Worker("snarkjs", "worker_guard.py")
    try:
        print(w.run([payload["replay"]["line"]])[0])
    finally:
        w.close()
    return 0
