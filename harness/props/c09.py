"""C09 — oblivious if/elif/else, while and for compute what native control flow computes."""
import json
from .. import common
from ..framework import Exploration, Violation

ASSUMPTIONS = ["each structured program is rendered as Python source twice and exec'd in the worker: with the library's constructs "
               "(_if/_elif/_else/_endif, _range/_endfor, _while/_breakif/_endwhile, if_then_else with callables) on secret values — "
               "`while _while(c, ctx=_) and k < M:` on one line, ctx passed explicitly — and with native control flow on plain ints",
               "variables are all defined before the first block (the 'variable first set inside a branch' rules of BranchingValues "
               "are exercised by a few corpus programs only)"]
PARTIAL = []


def gen_expr(rnd, vars_, ninp, depth=0, loopvars=()):
    c = rnd.random()
    if depth > 1 or c < 0.35:
        k = rnd.random()
        if k < 0.45: return ["var", rnd.choice(vars_)]
        if k < 0.65 and ninp: return ["in", rnd.randrange(ninp)]
        if k < 0.75 and loopvars: return ["loopvar", rnd.choice(loopvars)]
        return ["const", rnd.randrange(-3, 6)]
    op = rnd.choice(["add", "add", "sub", "mul"])
    a = gen_expr(rnd, vars_, ninp, depth + 1, loopvars)
    b = gen_expr(rnd, vars_, ninp, depth + 1, loopvars) if op != "mul" else ["const", rnd.randrange(0, 4)]
    return [op, a, b]


def gen_cond(rnd, vars_, ninp, loopvars=()):
    # the left side always contains a secret (a tracked variable or an input): the property is about secret conditions
    a = ["var", rnd.choice(vars_)] if rnd.random() < 0.5 else ["in", rnd.randrange(ninp)]
    if rnd.random() < 0.4:
        a = [rnd.choice(["add", "sub"]), a, gen_expr(rnd, vars_, ninp, 1, loopvars)]
    return [rnd.choice(["lt", "le", "eq", "ne", "gt", "ge"]), a, ["const", rnd.randrange(-2, 5)]]


def gen_block(rnd, vars_, ninp, depth, budget, loopvars=()):
    out = []
    for _ in range(rnd.randrange(1, 3)):
        if budget[0] <= 0:
            break
        budget[0] -= 1
        c = rnd.random()
        if c < 0.45 or depth >= 2:
            if rnd.random() < 0.15 and ninp >= 2:
                # an exact division that is only valid when the enclosing condition holds is generated separately (see gen_prog)
                pass
            e = gen_expr(rnd, vars_, ninp, 0, loopvars)
            if '"var"' not in json.dumps(e) and '"in"' not in json.dumps(e):
                e = ["add", ["in", rnd.randrange(ninp)], e]      # tracked variables stay secret
            out.append(["assign", rnd.choice(vars_), e])
        elif c < 0.75:
            arms = [[gen_cond(rnd, vars_, ninp, loopvars), gen_block(rnd, vars_, ninp, depth + 1, budget, loopvars)]
                    for _ in range(rnd.choice([1, 1, 2, 3]))]
            els = gen_block(rnd, vars_, ninp, depth + 1, budget, loopvars) if rnd.random() < 0.6 else None
            out.append(["if", arms, els])
        elif c < 0.87:
            lv = f"i{depth}"
            mx = rnd.randrange(1, 5)
            out.append(["for", lv, ["in", rnd.randrange(ninp)] if ninp else ["const", 2], mx,
                        gen_block(rnd, vars_, ninp, depth + 1, budget, loopvars + (lv,))])
        elif c < 0.95:
            out.append(["while", gen_cond(rnd, vars_, ninp, loopvars), rnd.randrange(1, 4),
                        gen_block(rnd, vars_, ninp, depth + 1, budget, loopvars),
                        gen_cond(rnd, vars_, ninp, loopvars) if rnd.random() < 0.5 else None])
        else:
            # the condition of a lazily evaluated selection always involves a secret input (the property is about secret conditions)
            out.append(["ite", rnd.choice(vars_), [rnd.choice(["lt", "le", "eq", "ne", "gt", "ge"]), ["in", rnd.randrange(ninp)], ["const", rnd.randrange(-2, 5)]],
                        gen_expr(rnd, vars_, ninp, 1, loopvars),
                        gen_expr(rnd, vars_, ninp, 1, loopvars)])
    return out


def fix_for_bounds(prog, rnd):
    """for-loops take their bound from an input: make that input a valid bound 0..(smallest max it is used with)"""
    caps = {}
    def walk(stmts):
        for s in stmts:
            if s[0] == "for":
                if s[2][0] == "in":
                    caps[s[2][1]] = min(caps.get(s[2][1], s[3]), s[3])
                walk(s[4])
            elif s[0] == "if":
                for c, b in s[1]: walk(b)
                if s[2]: walk(s[2])
            elif s[0] == "while":
                walk(s[3])
    walk(prog["body"])
    for k, mx in caps.items():
        prog["inputs"][k] = rnd.randrange(0, mx + 1)


def gen_prog(rnd):
    nv = rnd.randrange(1, 4); ninp = rnd.randrange(1, 4)
    vars_ = [f"x{i}" for i in range(nv)]
    prog = {"init": {v: rnd.randrange(-3, 6) for v in vars_}, "secret_vars": list(vars_),        # all tracked variables are secret: every condition is a secret condition
            "inputs": [rnd.randrange(-2, 6) for _ in range(ninp)]}
    prog["body"] = gen_block(rnd, vars_, ninp, 0, [rnd.randrange(2, 8)])
    fix_for_bounds(prog, rnd)
    return prog


def uses(prog, kind):
    return kind in json.dumps(prog["body"])


def explore(ctx, extended=False, focus=None):
    ex = Exploration()
    ex.rule = ("random structured programs over 1-3 tracked variables and 1-3 secret inputs: assignments, if/elif/else chains, for "
               "loops with a secret bound capped by a public maximum, while loops with optional break conditions, lazily evaluated "
               "selections, nested to depth 3; each executed with the library's constructs and with native control flow; twice with "
               "different inputs to compare the number of constraints; distinct = distinct program texts; non-trivial = has a block")
    n = ctx.n(250, 6000) * (3 if extended else 1)
    progs_ = [gen_prog(ctx.rnd) for _ in range(n)]
    lines = [f"B|b{i}|16|{json.dumps(p)}" for i, p in enumerate(progs_)]
    # second run with other input values / initial values (same text): constraint counts must agree
    twins = []
    for p in progs_:
        q = json.loads(json.dumps(p))
        q["inputs"] = [ctx.rnd.randrange(-2, 6) for _ in q["inputs"]]
        q["init"] = {k: ctx.rnd.randrange(-3, 6) for k in q["init"]}
        fix_for_bounds(q, ctx.rnd)
        twins.append(q)
    lines2 = [f"B|t{i}|16|{json.dumps(p)}" for i, p in enumerate(twins)]
    outs = common.run_workers(lines, script="worker_block.py")
    outs2 = common.run_workers(lines2, script="worker_block.py")
    for p, o, o2 in zip(progs_, outs, outs2):
        ex.evaluations += 1
        d = json.loads(o.split("|", 1)[1]); d2 = json.loads(o2.split("|", 1)[1])
        if "harness-error" in d:
            raise common.Infra(str(d))
        kinds = [k for k in ("if", "for", "while", "ite") if uses(p, f'["{k}"')]
        for k in kinds: ex.count(f"construct:{k}")
        if kinds:
            ex.distinct.add(json.dumps(p["body"]))
        nat, api = d["native"], d["api"]
        ex.count(f"native:{nat['status']}"); ex.count(f"api:{api['status']}")
        sig_kind = "+".join(kinds) or "straight"
        rep = {"program": p, "source": d.get("src", "")[:1500]}
        if nat["status"] == "ok" and api["status"] != "ok":
            ex.violations.append(Violation({"dev": "raises", "error": api["status"], "constructs": sig_kind},
                                           f"the oblivious version raises {api['status']} ({api.get('msg', '')[:80]}) where native control flow completes",
                                           rep))
            continue
        if nat["status"] != "ok" or api["status"] != "ok":
            continue
        ex.traces_validated += 1
        bad = [k for k, v in nat["vars"].items() if k in api["vars"] and api["vars"][k][1] != v]
        missing = [k for k in nat["vars"] if k not in api["vars"]]
        if bad or missing:
            k = (bad or missing)[0]
            ex.violations.append(Violation({"dev": "wrong-value", "constructs": sig_kind},
                                           f"variable {k}: oblivious version {api['vars'].get(k)} vs native {nat['vars'][k]}", rep))
        if api.get("unsat"):
            ex.violations.append(Violation({"dev": "unsatisfied", "constructs": sig_kind},
                                           f"constraint #{api['unsat'][0]} of the oblivious version is not satisfied by the recorded witness", rep))
        if api.get("stack") or api.get("guard"):
            ex.violations.append(Violation({"dev": "dangling-guard", "constructs": sig_kind},
                                           "after the program a guard / an open block context is left behind", rep))
        a2 = d2.get("api", {})
        if a2.get("status") == "ok" and (a2["ncons"], a2["npriv"]) != (api["ncons"], api["npriv"]):
            ex.violations.append(Violation({"dev": "shape-depends-on-values", "constructs": sig_kind},
                                           f"the same program emits {api['ncons']} constraints/{api['npriv']} wires on one input and "
                                           f"{a2['ncons']}/{a2['npriv']} on another", dict(rep, other_inputs=twins[progs_.index(p)]["inputs"])))
        if len(ex.samples) < 4 and kinds:
            ex.samples.append(d.get("src", "")[:600])
    return ex


def replay(ctx, payload):
    line = f"B|r|16|{json.dumps(payload['replay']['program'])}"
    print(common.run_workers([line], script="worker_block.py")[0][:3000])
    return 0
