"""C09 — oblivious if/elif/else, while and for compute what native control flow computes.

Three ties per generated program:
  * direct oracle on the real code: the program rendered with the library's block constructs on secret values against
    the same program rendered with native control flow on plain ints (harness/worker_block.py), plus satisfaction of every
    emitted constraint, no dangling guard, and equal constraint/wire counts on a second input vector;
  * model-vs-code correspondence: the same program is sent to the Lean model (Driver/ProtoBlock.lean, the interpreter the
    C09 theorems are about) and its final variables (names, order, values, wire expressions), every constraint in emission
    order, every witness value and the final guard state are compared with the real run;
  * spec-vs-native: the model side also runs Spec/Native.lean (the reference semantics of the theorems) and its final values
    are compared with the native Python run.
"""
import json, random, re
from .. import common
from ..framework import Exploration, Violation
from . import c09_typed as typed

ASSUMPTIONS = ["context lookup: besides the default rendering (local `_`, every call with `ctx=_`) programs are rendered as FUNCTIONS whose own context has "
               "the local name `__` / `ctx2` / `bv` / `_` and whose block calls carry NO `ctx=` (the library finds the context in the caller's frame), "
               "defined in a module that has / has not a global context `_` of its own (as in examples/branch2.py; it holds plain values under the "
               "same variable names), and called by module-level code from inside a taken / not-taken `_if` block of that module context (which then "
               "holds a secret of its own); controls with `ctx=` passed; the function's final variables are compared with the native twin as for "
               "every program, the module context must end with its own values and no open block; the called-inside-a-block form adds wires "
               "of the module-level code and is judged by the direct oracle only (harness/props/c09.py CTX_MODES, harness/worker_block.py CTX)",
               "each structured program is rendered as Python source twice and exec'd in the worker: with the library's constructs "
               "(_if/_elif/_else/_endif, _range/_endfor, _while/_breakif/_endwhile, if_then_else with values and with callables) on secret values — "
               "`while _while(c, ctx=_) and k < M:` on one line, ctx passed explicitly — and with native control flow on plain values; the Lean "
               "model interprets the same program (sent as prefix-notation text) and decides statically which `_while` call opens a loop "
               "(the library uses the caller's line number)",
               "conditions are LinCombBool-valued expressions (comparisons, ~ & | of booleans, tracked boolean variables); a raw LinComb 0/1 passed as a "
               "block condition is rejected by the library at merge time (RuntimeError, checked by a fixed probe on every run) and is outside the property",
               "for-loop bounds are drawn in 0..max (the domain of _range(bound, max=...)); a 5 % stream takes a bound out of its cap and is compared "
               "model-vs-code only, except negative bounds, which are the known finding C09-negative-bound",
               "`_range(bound, max=M, checkstopmax=True)` (the loop asserts at its end that the bound did not exceed the maximum): a fifth of the "
               "generated for loops / named range objects and a fixed family (loop at top level, inside a taken or not-taken `if`, nested, "
               "inside a `while`, one range object for two loops) whose first input vector has the bound EQUAL to the maximum with every "
               "enclosing branch taken; for-loop bounds of every program are drawn at the cap itself 30 % of the time; the constraint system is "
               "compared across the three input vectors as for every program; these programs are outside the Lean statement language "
               "(Model/Branching.lean has no checkstopmax): direct oracle only, counted as unmodelled",
               "a malformed stream (variable bound in only some arms / inside a loop / else dropped) is compared model-vs-code only: "
               "the library reports these as RuntimeError by design",
               "comparison operands must fit the bit length (16 here): a run in which the library's own range check raises ValueError is counted "
               "as out-of-domain, not as a deviation",
               "lists have value semantics in the model (element assignment replaces the element of the tracked variable); the generator never updates in "
               "place a list object that is reachable under two names (aliased variables, references taken before a block) except in the fixed program of the "
               "known finding C09-list-inplace-through-reference; `ref` statements and the `range` objects bound to a name (bound = an input) have no "
               "counterpart in the model line",
               "the typed generator uses tracked booleans as booleans wherever they are in scope, also after blocks, in the later arms of a chain, in loop "
               "bodies and in loop/break conditions (a selection between two booleans is a boolean: repaired finding C09-boolean-demoted, fixed program "
               "BOOL_PROBE, C09_boolean_kept_regression); it compares integers with integers only, and keeps list lengths fixed",
               "list lengths: a selection between lists of different lengths — in particular a block, a loop round, a later arm or a nested block that "
               "rebinds a tracked list (replaces a row of a list of lists) by one of another length — can not be expressed by an element-wise merge: "
               "the library must REFUSE it (ValueError raised by if_then_else before anything is merged; repaired finding C09-list-length-truncated, "
               "C09_length_mismatch_refused), where native Python simply rebinds.  The stream `lenchange` (typed.gen_lenchange: 18 shapes, a short "
               "typed program that ends with one such statement; its own random stream, appended after the other programs) and the fixed probe LEN "
               "expect exactly that refusal on every input vector; a run that completes instead (the old zip() truncation to min(len)) is a violation, "
               "with the native twin's value next to the truncated one; the model raises the same error at the same point (correspondence on the status)"]
PARTIAL = [{"theorem": "C09_refines", "excludes": "nothing inside the statement language (tracked variables of integer, boolean, fixed-point and nested-list kind, mixed-kind "
            "merges, element assignment, value-level and thunked selection, if/elif/else, for, while, any nesting, all values): when the traced run completes "
            "(the library's own range/usage checks — including the refusal, ValueError, of a selection between lists of different lengths, which is what a block "
            "that rebinds a tracked list to another length runs into — and the model's UNMODELLED stops for operand kinds on which the library itself deviates "
            "from Python — LinComb < LinCombFxp, fixed point times fixed point — are what makes a run fail) and the initial "
            "fixed-point values are multiples of 2^-resolution, the native run does not fail and, unless it reaches a for loop whose bound is outside 0..max, "
            "ends with the same variables standing for the same numbers"},
           {"theorem": "C09_refines_int", "excludes": "corollary for integer variables and inputs"},
           {"theorem": "C09_guard_restored", "excludes": "nothing: every completed run / statement, whatever the guard and the conditions are"},
           {"theorem": "C09_untouched", "excludes": "object identity is claimed for secret integers and lists of them only: a boolean or fixed-point variable is re-created by the "
            "snapshot (copy.deepcopy) and comes out of the merge as a new object — C09_untouched_value states what is kept for those (the number, booleans stay "
            "0/1: under a true guard; the types: whatever the guard is)"},
           {"theorem": "C09_kind_kept", "excludes": "nothing for variables holding secrets (every tracked variable of the statement language does): a variable that a statement "
            "or block does not assign keeps its types (LinComb / LinCombBool / LinCombFxp, lists element-wise), whatever the guard is and wherever the conditions go; "
            "C09_boolean_usable: hence a tracked boolean is accepted as the condition of a later block; variables assigned inside an arm take the kind of the merge"},
           {"theorem": "C09_length_mismatch_refused", "excludes": "nothing: if_then_else on two lists of different lengths raises ValueError for every condition, "
            "elements, state and guard, before anything is merged; C09_length_mismatch_refused_sel: the statement `_.x = if_then_else(c, t, f)`; "
            "C09_length_mismatch_refused_exit: BranchContext.exit() when the arm / loop round rebound a tracked list to another length (stated for the first "
            "variable of the dictionary in the first arm of a context, all variables bound before the block; the closed runs of C09_length_mismatch_regression "
            "cover later arms, loops, lazily evaluated branches and rows of nested lists)"},
           {"theorem": "C09_never_truncated", "excludes": "nothing: a selection that completes returns a value with the list structure (every length at every nesting "
            "depth) of both operands; C09_never_truncated_exit: the same for every variable merged with its snapshot at a block exit"},
           {"theorem": "C09_length_mismatch_regression", "excludes": "closed regression runs of the repaired finding C09-list-length-truncated: block, loop round "
            "(also with bound 0), value-level and thunked selection, a row of a list of lists — all refused with ValueError whichever way the condition goes, "
            "native values listed; the same block with a list of the same length completes with the native values"},
           {"theorem": "C09_sat", "excludes": "nothing (any prime modulus, any bit length and resolution, run started without a guard)"},
           {"theorem": "C09_oblivious", "excludes": "nothing (two completed runs from states of the same shape, initial values of the same shape)"},
           {"theorem": "C09_cex_negative_bound", "excludes": "closed counterexample: a negative secret bound runs max rounds where range(bound) runs none"},
           {"theorem": "C09_boolean_kept_regression", "excludes": "closed regression example of the repaired finding C09-boolean-demoted: an untouched tracked LinCombBool "
            "leaves a block as a LinCombBool (same constraint count as before the repair) and is then used as the condition of a second block, which gives the native result"}]
TRUSTED_EXTRA = ["harness/worker_block.py renders the structured program as Python source for the real run; Driver/ProtoBlock.lean parses the same "
                 "program for the model (parser not verified; a parse difference shows up as a correspondence disagreement)",
                 "object identity (`truev is falsev` in if_then_else) is modelled by identity stamps on scalars (deep copies of LinCombBool/LinCombFxp: a stamp "
                 "that equals nothing); identity of LIST objects is not modelled (value semantics); the model stops with UNMODELLED if two objects with one stamp "
                 "ever differ (never observed; counted in unmodelled_cases)",
                 "Spec/Native.lean identifies Python ints, bools and the floats that stand for fixed-point values with exact numbers (multiples of 2^-resolution); "
                 "it is compared with the native Python run on every generated program"]

CMPS = ["lt", "le", "eq", "ne", "gt", "ge"]


# ------------------------------------------------------------------ generator
def gen_expr(rnd, vars_, ninp, depth=0, loopvars=()):
    c = rnd.random()
    if depth > 1 or c < 0.35:
        k = rnd.random()
        if k < 0.45: return ["var", rnd.choice(vars_)]
        if k < 0.65 and ninp: return ["in", rnd.randrange(ninp)]
        if k < 0.75 and loopvars: return ["loopvar", rnd.choice(loopvars)]
        return ["const", rnd.randrange(-3, 6)]
    op = rnd.choice(["add", "add", "sub", "mul"])
    a = gen_expr(rnd, vars_, ninp, depth + 1, loopvars)
    if op == "mul" and rnd.random() < 0.15:
        b = gen_expr(rnd, vars_, ninp, 2, loopvars)       # secret * secret: one constraint
    elif op == "mul":
        b = ["const", rnd.randrange(0, 4)]
    else:
        b = gen_expr(rnd, vars_, ninp, depth + 1, loopvars)
    return [op, a, b]


def has_secret(e):
    s = json.dumps(e)
    return '"var"' in s or '"in"' in s


def secret_expr(rnd, vars_, ninp, depth, loopvars):
    """value of a tracked variable: always involves a secret (tracked variables hold secret integers)"""
    e = gen_expr(rnd, vars_, ninp, depth, loopvars)
    if not has_secret(e):
        e = ["add", ["in", rnd.randrange(ninp)], e]
    elif e[0] in ("var", "in") and rnd.random() < 0.6:
        e = ["add", e, ["const", rnd.randrange(0, 3)]]      # keep some bare names: `_.x = _.y` aliases the object
    return e


def gen_cond(rnd, vars_, ninp, loopvars=()):
    # one side always contains a secret (a tracked variable or an input): the property is about secret conditions
    a = ["var", rnd.choice(vars_)] if rnd.random() < 0.5 else ["in", rnd.randrange(ninp)]
    if rnd.random() < 0.4:
        a = [rnd.choice(["add", "sub"]), a, gen_expr(rnd, vars_, ninp, 1, loopvars)]
    k = rnd.random()
    if k < 0.7:
        b = ["const", rnd.randrange(-2, 5)]
    elif k < 0.85:
        b = gen_expr(rnd, vars_, ninp, 1, loopvars)          # secret vs secret
    else:
        b = ["loopvar", rnd.choice(loopvars)] if loopvars else ["const", rnd.randrange(-2, 5)]
    if rnd.random() < 0.12:
        return [rnd.choice(CMPS), b, a]          # (often) a plain value on the left: the reflected comparison method
    return [rnd.choice(CMPS), a, b]


class G:
    def __init__(self, rnd, ninp, nextvar, maxdepth):
        self.rnd = rnd; self.ninp = ninp; self.nextvar = nextvar; self.maxdepth = maxdepth
        self.budget = rnd.randrange(3, 10)
        self.ranges = []          # `_range` objects bound to a name: (name, input index, max), used by several loops
        self.range_opts = {}      # name -> options of that `_range` object

    def fresh(self):
        v = f"x{self.nextvar}"; self.nextvar += 1
        return v

    def block(self, vars_, depth, loopvars=(), allow_new=True, n=None):
        """vars_: variables bound at this point (a copy is passed down; bindings made in nested blocks do not leak except
        through the new-variable template, which binds in every arm)"""
        rnd = self.rnd
        vars_ = list(vars_)
        out = []
        for _ in range(n if n is not None else rnd.randrange(1, 4)):
            if self.budget <= 0:
                break
            self.budget -= 1
            c = rnd.random()
            if c < 0.40 or depth >= self.maxdepth:
                out.append(["assign", rnd.choice(vars_), secret_expr(rnd, vars_, self.ninp, 0, loopvars)])
            elif c < 0.47 and allow_new:
                # a variable first bound at this level (plain assignment / lazily evaluated selection)
                nv = self.fresh()
                if rnd.random() < 0.5:
                    out.append(["assign", nv, secret_expr(rnd, vars_, self.ninp, 0, loopvars)])
                else:
                    out.append(self.ite(nv, vars_, loopvars))
                vars_.append(nv)
            elif c < 0.58 and allow_new:
                nv = self.fresh()
                out.append(self.newvar_if(nv, vars_, depth, loopvars))
                vars_.append(nv)
            elif c < 0.76:
                arms = [[gen_cond(rnd, vars_, self.ninp, loopvars), self.block(vars_, depth + 1, loopvars, allow_new=False)]
                        for _ in range(rnd.choice([1, 1, 2, 3, 4]))]
                els = self.block(vars_, depth + 1, loopvars, allow_new=False) if rnd.random() < 0.6 else None
                out.append(["if", arms, els])
            elif c < 0.86:
                lv = f"i{depth}"
                mx = rnd.randrange(1, 5)
                k = rnd.randrange(self.ninp)
                shared = None
                csm = rnd.random() < 0.2            # `checkstopmax=True`: the loop ends with the stop-exceeds-max assertion
                if rnd.random() < 0.4:
                    # one `_range(...)` object bound to a name and iterated by several loops, nested and in sequence
                    # (Python's `range` supports both); the bound is an input, so evaluating it once changes nothing
                    if self.ranges and rnd.random() < 0.7:
                        shared, k, mx = rnd.choice(self.ranges)
                    else:
                        shared = f"r{len(self.ranges)}"; self.ranges.append((shared, k, mx))
                        if csm: self.range_opts[shared] = {"checkstopmax": True}
                st = ["for", lv, ["in", k], mx, self.block(vars_, depth + 1, loopvars + (lv,), allow_new=False)]
                out.append(st + [shared] if shared else st + [None, {"checkstopmax": True}] if csm else st)
            elif c < 0.95:
                out.append(["while", gen_cond(rnd, vars_, self.ninp, loopvars), rnd.randrange(0, 4),
                            self.block(vars_, depth + 1, loopvars, allow_new=False),
                            gen_cond(rnd, vars_, self.ninp, loopvars) if rnd.random() < 0.5 else None])
            else:
                out.append(self.ite(rnd.choice(vars_), vars_, loopvars))
        return out

    def ite(self, target, vars_, loopvars):
        rnd = self.rnd
        # the condition of a lazily evaluated selection always involves a secret input
        return ["ite", target, [rnd.choice(CMPS), ["in", rnd.randrange(self.ninp)], ["const", rnd.randrange(-2, 5)]],
                gen_expr(rnd, vars_, self.ninp, 1, loopvars), gen_expr(rnd, vars_, self.ninp, 1, loopvars)]

    def define(self, nv, vars_, depth, loopvars):
        """a block that binds nv on every path"""
        rnd = self.rnd
        pre = self.block(vars_, depth + 1, loopvars, allow_new=False, n=rnd.randrange(0, 2))
        if depth + 1 < self.maxdepth and rnd.random() < 0.3:
            d = [self.newvar_if(nv, vars_, depth + 1, loopvars)]
        else:
            d = [["assign", nv, secret_expr(rnd, vars_, self.ninp, 1, loopvars)]]
        post = [["assign", nv, ["add", ["var", nv], ["const", rnd.randrange(1, 3)]]]] if rnd.random() < 0.3 else []
        return pre + d + post

    def newvar_if(self, nv, vars_, depth, loopvars):
        """if/elif/else in which every arm binds the new variable nv (the nodefvals rules of BranchContext.exit)"""
        rnd = self.rnd
        arms = [[gen_cond(rnd, vars_, self.ninp, loopvars), self.define(nv, vars_, depth, loopvars)]
                for _ in range(rnd.choice([1, 1, 2, 3]))]
        return ["if", arms, self.define(nv, vars_, depth, loopvars)]


def walk(stmts, f):
    for s in stmts:
        f(s)
        if s[0] == "for":
            walk(s[4], f)
        elif s[0] == "if":
            for c, b in s[1]: walk(b, f)
            if s[2]: walk(s[2], f)
        elif s[0] == "while":
            walk(s[3], f)


def fix_for_bounds(prog, rnd, outside=False):
    """for-loops take their bound from an input: make that input a valid bound 0..(smallest max it is used with)"""
    caps = {}
    def see(s):
        if s[0] == "for" and s[2][0] == "in":
            caps[s[2][1]] = min(caps.get(s[2][1], s[3]), s[3])
    walk(prog["body"], see)
    for k, mx in caps.items():
        # the cap itself is where a loop is still live when it ends: drawn on purpose, not only by chance
        prog["inputs"][k] = mx if rnd.random() < 0.3 else rnd.randrange(0, mx + 1)
    if outside and caps:
        k = rnd.choice(sorted(caps))
        prog["inputs"][k] = rnd.choice([-1, -2, caps[k] + 1, caps[k] + 2])
        if prog["inputs"][k] < 0:
            prog["feature"] = "negative-for-bound"
    return bool(caps)


def make_malformed(prog, rnd):
    """break one of the library's documented usage rules; returns a tag or None"""
    ifs = []
    walk(prog["body"], lambda s: ifs.append(s) if s[0] == "if" else None)
    loops = []
    walk(prog["body"], lambda s: loops.append(s) if s[0] in ("for", "while") else None)
    k = rnd.random()
    if k < 0.35 and ifs:
        s = rnd.choice(ifs)
        if s[2] is not None:
            s[2] = None if rnd.random() < 0.5 else [st for st in s[2] if st[0] != "assign"] or None
            return "else-dropped"
    if k < 0.7 and ifs:
        s = rnd.choice(ifs)
        arm = rnd.choice(s[1])
        arm[1].append(["assign", "x9", ["add", ["in", 0], ["const", 1]]])
        return "bound-in-one-arm"
    if loops:
        s = rnd.choice(loops)
        (s[4] if s[0] == "for" else s[3]).append(["assign", "x9", ["add", ["in", 0], ["const", 1]]])
        return "bound-in-loop"
    return None


def gen_prog(rnd, stream="valid"):
    nv = rnd.randrange(1, 4); ninp = rnd.randrange(1, 4)
    vars_ = [f"x{i}" for i in range(nv)]
    prog = {"init": {v: rnd.randrange(-3, 6) for v in vars_}, "secret_vars": list(vars_),        # all tracked variables are secret: every condition is a secret condition
            "inputs": [rnd.randrange(-2, 6) for _ in range(ninp)]}
    g = G(rnd, ninp, nv, rnd.choice([2, 3, 3]))
    prog["body"] = g.block(vars_, 0)
    prog["body"] = [["range", nm, ["in", k], mx] + ([g.range_opts[nm]] if nm in g.range_opts else []) for nm, k, mx in g.ranges] + prog["body"]
    prog["stream"] = stream
    if not fix_for_bounds(prog, rnd, outside=(stream == "uncapped")) and stream == "uncapped":
        prog["stream"] = "valid"           # no for loop: nothing to take out of its cap
    if stream == "malformed":
        prog["malformed"] = make_malformed(prog, rnd)
    return prog


TEMPLATES = [
    # nested while-in-for (the repaired `_while` directly inside an oblivious for loop), for-in-if, break, elif chain, new variable
    {"init": {"x0": 1, "x1": 0}, "inputs": [2, 3],
     "body": [["for", "i0", ["in", 0], 3, [["while", ["lt", ["var", "x1"], ["in", 1]], 2, [["assign", "x1", ["add", ["var", "x1"], ["const", 1]]]],
                                            ["ge", ["var", "x1"], ["const", 4]]],
                                           ["assign", "x0", ["add", ["var", "x0"], ["loopvar", "i0"]]]]]]},
    {"init": {"x0": 4}, "inputs": [1, 2],
     "body": [["if", [[["gt", ["var", "x0"], ["const", 3]], [["for", "i1", ["in", 1], 3, [["assign", "x0", ["add", ["var", "x0"], ["const", 2]]]]]]],
                      [["eq", ["in", 0], ["const", 1]], [["assign", "x0", ["sub", ["var", "x0"], ["const", 1]]]]],
                      [["lt", ["in", 0], ["const", 0]], [["assign", "x0", ["mul", ["var", "x0"], ["const", 2]]]]]],
               [["assign", "x0", ["add", ["in", 0], ["const", 0]]]]]]},
    {"init": {"x0": 2}, "inputs": [3],
     "body": [["if", [[["lt", ["in", 0], ["const", 2]], [["assign", "x1", ["add", ["var", "x0"], ["const", 1]]]]],
                      [["lt", ["in", 0], ["const", 4]], [["assign", "x1", ["in", 0]]]]],
               [["assign", "x1", ["var", "x0"]]]],
              ["assign", "x0", ["add", ["var", "x1"], ["var", "x0"]]]]},
    {"init": {"x0": 0}, "inputs": [5],
     "body": [["while", ["lt", ["var", "x0"], ["in", 0]], 3, [["assign", "x0", ["add", ["var", "x0"], ["const", 2]]]], ["eq", ["var", "x0"], ["const", 4]]],
              ["assign", "x0", ["var", "x0"]]]},
    # one `_range` object iterated by two nested loops and again by a later loop
    {"init": {"x0": 0, "x1": 0}, "inputs": [2],
     "body": [["range", "r0", ["in", 0], 3],
              ["for", "i0", ["in", 0], 3, [["for", "i1", ["in", 0], 3, [["assign", "x0", ["add", ["var", "x0"], ["const", 1]]]], "r0"],
                                           ["assign", "x1", ["add", ["var", "x1"], ["loopvar", "i0"]]]], "r0"],
              ["for", "i0", ["in", 0], 3, [["assign", "x1", ["add", ["var", "x1"], ["const", 1]]]], "r0"]]},
    # aliasing: `_.x1 = _.x0` outside and again inside a block (the `truev is falsev` shortcut of if_then_else)
    {"init": {"x0": 3, "x1": 1}, "inputs": [1],
     "body": [["assign", "x1", ["var", "x0"]], ["if", [[["eq", ["in", 0], ["const", 1]], [["assign", "x1", ["var", "x0"]], ["assign", "x0", ["mul", ["var", "x0"], ["const", 1]]]]]], None]]},
]


def templates(rnd):
    out = []
    for t in TEMPLATES:
        for _ in range(3):
            p = json.loads(json.dumps(t))
            p["secret_vars"] = list(p["init"]); p["stream"] = "valid"
            p["inputs"] = [rnd.randrange(-1, 5) for _ in p["inputs"]]
            p["init"] = {k: rnd.randrange(-2, 5) for k in p["init"]}
            fix_for_bounds(p, rnd)
            out.append(p)
    return out


CSM = {"checkstopmax": True}
INC0 = ["assign", "x0", ["add", ["var", "x0"], ["const", 1]]]
CHECKSTOP = [
    # (inputs with the bound AT the maximum and every enclosing branch taken, body)
    ([3], [["for", "i0", ["in", 0], 3, [["assign", "x0", ["add", ["var", "x0"], ["loopvar", "i0"]]]], None, CSM]]),
    ([2, 1], [["if", [[["ge", ["in", 1], ["const", 1]], [["for", "i1", ["in", 0], 2, [INC0], None, CSM]]]], [INC0]]]),
    ([2, 0], [["if", [[["ge", ["in", 1], ["const", 1]], [INC0]]], [["for", "i1", ["in", 0], 2, [INC0], None, CSM]]]]),
    ([2, 3], [["for", "i0", ["in", 0], 2, [["for", "i1", ["in", 1], 3, [INC0], None, CSM]], None, CSM]]),
    ([1, 2], [["while", ["lt", ["var", "x0"], ["const", 40]], 2, [["for", "i1", ["in", 1], 2, [INC0], None, CSM]], None]]),
    ([2], [["range", "r0", ["in", 0], 2, CSM], ["for", "i0", ["in", 0], 2, [INC0], "r0"], ["for", "i0", ["in", 0], 2, [INC0], "r0"]]),
    ([4, 1, 1], [["if", [[["eq", ["in", 1], ["const", 1]], [["if", [[["eq", ["in", 2], ["const", 1]], [["for", "i2", ["in", 0], 4, [INC0], None, CSM]]]], None]]]], None]]),
    ([1], [["for", "i0", ["in", 0], 1, [INC0], None, CSM]]),
]


def checkstop_progs(rnd):
    """`checkstopmax=True` loops whose FIRST input vector has the bound equal to the maximum and every enclosing branch taken
    (the twins re-draw the inputs): the constraint system must be the same on all of them"""
    out = []
    for inputs, body in CHECKSTOP:
        out.append({"init": {"x0": rnd.randrange(0, 4)}, "secret_vars": ["x0"], "inputs": list(inputs), "stream": "valid",
                    "body": json.loads(json.dumps(body))})
    return out


def uses(prog, kind):
    return kind in json.dumps(prog["body"])


# ------------------------------------------------------------------ program text for the Lean driver
def vnum(name):
    return int(name[1:])


def expr_tok(e):
    t = e[0]
    if t == "var": return f"v{vnum(e[1])}"
    if t == "in": return f"i{e[1]}"
    if t == "fin": return f"f{e[1]}"
    if t == "const": return f"c{e[1]}"
    if t == "loopvar": return f"l{vnum(e[1])}"
    if t in ("add", "sub", "mul"):
        return {"add": "+", "sub": "-", "mul": "*"}[t] + " " + expr_tok(e[1]) + " " + expr_tok(e[2])
    if t in CMPS:
        return f"{t} {expr_tok(e[1])} {expr_tok(e[2])}"
    if t == "not": return "not " + expr_tok(e[1])
    if t in ("and", "or"): return f"{t} {expr_tok(e[1])} {expr_tok(e[2])}"
    if t == "list": return "[ " + " ".join(expr_tok(x) for x in e[1]) + (" " if e[1] else "") + "]"
    if t == "item": return f"@ v{vnum(e[1])} {e[2]}"
    if t == "item2": return f"@ @ v{vnum(e[1])} {e[2]} {e[3]}"
    if t == "copy": return expr_tok(e[1])          # native twin only
    raise ValueError(t)


def cond_tok(c):
    return expr_tok(c)


def block_tok(stmts):
    toks = [stmt_tok(s) for s in stmts]
    toks = [t for t in toks if t]
    return "{ " + " ".join(toks) + (" " if toks else "") + "}"


def stmt_tok(s):
    t = s[0]
    if t == "assign":
        return f"A v{vnum(s[1])} {expr_tok(s[2])}"
    if t == "setitem":
        return f"P v{vnum(s[1])} {s[2]} {expr_tok(s[3])}"
    if t == "setitem2":
        return f"P v{vnum(s[1])} {s[2]},{s[3]} {expr_tok(s[4])}"
    if t == "sel":
        return f"Q v{vnum(s[1])} {cond_tok(s[2])} {expr_tok(s[3])} {expr_tok(s[4])}"
    if t == "range":
        return ""          # `r = _range(inp[k], max=M)`: the loops over `r` carry bound and maximum themselves (the bound is an input)
    if t == "ref":
        return ""          # a second name for a list object: no effect on the library's state; the model has value semantics
    if t == "ite":
        return f"T v{vnum(s[1])} {cond_tok(s[2])} {expr_tok(s[3])} {expr_tok(s[4])}"
    if t == "if":
        arms, els = s[1], s[2]
        out = f"I {cond_tok(arms[0][0])} {block_tok(arms[0][1])}"
        for c, b in arms[1:]:
            out += f" F {cond_tok(c)} {block_tok(b)}"
        out += f" L {block_tok(els)}" if els is not None else " E"
        return out
    if t == "for":
        return f"R l{vnum(s[1])} {expr_tok(s[2])} {s[3]} {block_tok(s[4])}"
    if t == "while":
        return f"W {cond_tok(s[1])} {s[2]} {block_tok(s[3])} " + ("N" if s[4] is None else "B " + cond_tok(s[4]))
    raise ValueError(t)


def init_tok(kind, v):
    if isinstance(v, list):
        return "[ " + " ".join(init_tok("int", x) for x in v) + " ]"
    return {"int": f"i{v}", "bool": f"b{v}", "fxp": f"x{v}/2"}[kind]          # fixed point: the float v / 4


def model_line(cid, prog, bl=16):
    kinds = prog.get("kinds", {})
    init = " ".join(f"{vnum(k)} {init_tok(kinds.get(k, 'int'), v)}" for k, v in prog["init"].items())
    fin = ",".join(f"{m}/2" for m in prog.get("finputs", []))
    return f"BL|{cid}|p={common.BN128},bl={bl}|{init}|{','.join(map(str, prog['inputs']))}|{fin}|{block_tok(prog['body'])}"


def num_str(x):
    """the worker's exact value of a variable (a Fraction as text, lists element-wise) as Driver/ProtoBlock.lean prints it"""
    return "[" + ",".join(num_str(y) for y in x) + "]" if isinstance(x, list) else x


def parse_model(out):
    f = out.split("|")
    if len(f) < 2:
        return {"status": "bad", "raw": out[:200]}
    if f[1] != "ok":
        d = {"status": f[1]}
        for x in f[2:]:
            if "=" in x:
                k, v = x.split("=", 1); d[k] = v
        return d
    d = {"status": "ok", "vars": f[2]}
    for x in f[3:]:
        k, v = x.split("=", 1); d[k] = v
    return d


def parse_state(s):
    return dict(x.split("=", 1) for x in s.split("|"))


def diff_model(api, m):
    """model vs real run, levels V (variables), S (constraints, guard state), W (witness)"""
    if api["status"] != "ok" or m["status"] != "ok":
        a = "ok" if api["status"] == "ok" else "err:" + api["status"]
        return None if a == m["status"] else [("V", f"status impl={a} model={m['status']}")]
    out = []
    if api["canon_vars"] != m["vars"]:
        av = api["canon_vars"].split(";"); mv = m["vars"].split(";")
        k = next((i for i, (x, y) in enumerate(zip(av, mv)) if x != y), min(len(av), len(mv)))
        out.append(("V", f"variables differ at #{k}: impl={av[k][:100] if k < len(av) else None} model={mv[k][:100] if k < len(mv) else None}"))
    st = parse_state(api["canon_state"])
    for k in ("G", "IGN", "ONE"):
        if st[k] != m[k]:
            out.append(("S", f"{k}: impl={st[k][:80]} model={m[k][:80]}"))
    if st["CONS"] != m["CONS"]:
        ac = st["CONS"].split(" & "); mc = m["CONS"].split(" & ")
        k = next((i for i, (x, y) in enumerate(zip(ac, mc)) if x != y), min(len(ac), len(mc)))
        out.append(("S", f"{len(ac)} vs {len(mc)} constraints, first difference at #{k}: impl={ac[k][:100] if k < len(ac) else None} "
                         f"model={mc[k][:100] if k < len(mc) else None}"))
    if st["PRIV"] != m["PRIV"] or st["PUB"] != m["PUB"]:
        out.append(("W", "witness values differ"))
    if m.get("STACK", "0") != str(api.get("stack", 0)):
        out.append(("S", f"open contexts impl={api.get('stack')} model={m.get('STACK')}"))
    return out or None


# a negative secret bound: `range(bound)` is empty, the oblivious loop runs all `max` rounds (known finding C09-negative-bound)
NEG_BOUND = {"init": {"x0": 3}, "secret_vars": ["x0"], "inputs": [-1], "stream": "uncapped", "feature": "negative-for-bound",
             "body": [["for", "i0", ["in", 0], 2, [["assign", "x0", ["add", ["var", "x0"], ["const", 1]]]]]]}

# a tracked boolean used as a block condition after it has lived through a block (regression program of the repaired finding
# C09-boolean-demoted: before the repair the merge at the block exit turned it into a plain LinComb and the second block raised
# RuntimeError('Wrong type for if_then_else condition')); C09_boolean_kept_regression is the same run in the model.  It is one of the
# fixed programs (direct oracle, native twin, model correspondence) and is also reported on its own when the library raises
BOOL_PROBE = {"typed": True, "stream": "typed", "kinds": {"x0": "bool", "x1": "int"}, "init": {"x0": 1, "x1": 5}, "secret_vars": ["x0", "x1"],
              "inputs": [0], "finputs": [],
              "body": [["if", [[["eq", ["in", 0], ["const", 1]], [["assign", "x1", ["add", ["var", "x1"], ["const", 1]]]]]], None],
                       ["if", [[["var", "x0"], [["assign", "x1", ["add", ["var", "x1"], ["const", 1]]]]]], None]]}

RAW_PROBE = {"init": {"x0": 3}, "secret_vars": ["x0"], "inputs": [1], "rawcond": True,
             "body": [["if", [[["eq", ["in", 0], ["const", 1]], [["assign", "x0", ["add", ["var", "x0"], ["const", 1]]]]]], None]]}


# how a program names and finds its context (harness/worker_block.py CTX): the default is the local `_` passed as `ctx=_` to every call
CTX_MODES = [{"name": "__", "ctx_arg": False, "module_ctx": True}, {"name": "ctx2", "ctx_arg": False, "module_ctx": True},
             {"name": "bv", "ctx_arg": False, "module_ctx": True}, {"name": "__", "ctx_arg": False, "module_ctx": False},
             {"name": "_", "ctx_arg": False, "module_ctx": True}, {"name": "_", "ctx_arg": False, "module_ctx": False},
             {"name": "ctx2", "ctx_arg": True, "module_ctx": True},
             {"name": "__", "ctx_arg": False, "nested": 1}, {"name": "ctx2", "ctx_arg": False, "nested": 1},
             {"name": "_", "ctx_arg": False, "nested": 1}, {"name": "bv", "ctx_arg": True, "nested": 1}]


def ctx_label(p):
    cm = p.get("ctxmode")
    if not cm:
        return None
    name = "underscore" if cm["name"] == "_" else "other-local-name"
    return (f"{name}:{'ctx-argument' if cm.get('ctx_arg') else 'found-in-caller-frame'}:"
            + ("called-inside-block-of-module-context" if "nested" in cm else "module-has-own-context" if cm.get("module_ctx") else "no-module-context"))


# ------------------------------------------------------------------ exploration
def explore(ctx, extended=False, focus=None):
    ex = Exploration()
    ex.rule = ("two streams, both sent to the real code, to its native twin and to the Lean model: (typed, 30 %) 3-5 tracked variables of integer / boolean / "
               "fixed-point / list / list-of-lists kind, assignments that change the kind inside arms, element assignment with one and two indices inside "
               "taken and not-taken arms and loop rounds, rows replaced, value-level if_then_else on mixed kinds and on (nested) lists, boolean conditions "
               "from variables and ~ & |, references to list objects; (integer) "
               "random structured programs over 1-3 tracked variables and 1-3 secret inputs: assignments (incl. bare-name aliasing and secret*secret), "
               "if/elif/else chains (1-4 arms), variables first bound inside every arm of an if/elif/else (nested), for loops with a secret bound capped "
               "by a public maximum, while loops (cap 0-3) with optional break conditions, lazily evaluated selections, secret-vs-secret and "
               "reflected comparisons, `_range` objects bound to a name and iterated by nested and sequential loops, nested to depth 3, plus fixed nesting "
               "templates (while-in-for, for-in-if, elif chain, aliasing, shared range); after these a stream of max(18, n/12) programs that end with a selection "
               "between lists of different lengths (18 shapes: block, else/elif arm, loop round, nested, value-level and thunked selection, rows, aliasing), "
               "which must be refused with ValueError on all three input vectors and by the model; 8 % malformed "
               "and 5 % out-of-cap programs compared model-vs-code only; each valid program executed with the library's constructs and with native "
               "control flow, twice with different inputs to compare the number of constraints, and by the Lean model (values, constraints, "
               "witness); distinct = distinct program texts; non-trivial = has a block")
    n = ctx.n(420, 8000) * (3 if extended else 1)
    progs_ = templates(ctx.rnd) + typed.fixed_progs(ctx.rnd) + [json.loads(json.dumps(typed.LEAK))]
    for p in progs_:
        fix_for_bounds(p, ctx.rnd)
    progs_.append(json.loads(json.dumps(NEG_BOUND)))
    progs_.append(json.loads(json.dumps(BOOL_PROBE)))
    progs_ += checkstop_progs(ctx.rnd)        # inputs fixed on purpose: bound = maximum, every enclosing branch taken
    while len(progs_) < n:
        r = ctx.rnd.random()
        if r < 0.30:
            p = typed.gen_typed(ctx.rnd); fix_for_bounds(p, ctx.rnd)
            progs_.append(p)
        else:
            progs_.append(gen_prog(ctx.rnd, "malformed" if r < 0.36 else "uncapped" if r < 0.40 else "valid"))
    # selections between lists of different lengths (to be refused): own random stream, after everything else, so that the
    # programs and twins above are what they were before this stream existed
    lrnd = random.Random(ctx.seed * 7919 + 9 + (1 if extended else 0))
    nlen = max(len(typed.LEN_FORMS), n // 12)
    for k in range(nlen):
        p = typed.gen_lenchange(lrnd, typed.LEN_FORMS[k] if k < len(typed.LEN_FORMS) else None)      # every shape at least once
        fix_for_bounds(p, lrnd)
        progs_.append(p)
    # programs that are FUNCTIONS with their own context under a local name, block calls WITHOUT `ctx=` (the library finds the context in
    # the caller's frame), in a module that may have a global context `_` of its own (examples/branch2.py), possibly called from inside an
    # open block of that module context: own random stream, after everything else
    crnd = random.Random(ctx.seed * 7919 + 23 + (1 if extended else 0))
    base = [json.loads(json.dumps(t)) for t in templates(crnd)]
    for k in range(max(len(CTX_MODES) * 2, n // 6)):
        if k < len(CTX_MODES) * 2:
            p = json.loads(json.dumps(base[k % len(base)])); cm = dict(CTX_MODES[k % len(CTX_MODES)])
        else:
            p = typed.gen_typed(crnd) if crnd.random() < 0.3 else gen_prog(crnd, "valid")
            cm = dict(crnd.choice(CTX_MODES))
        if "nested" in cm and crnd.random() < 0.2:
            cm["nested"] = 0
        fix_for_bounds(p, crnd)
        p["ctxmode"] = cm
        progs_.append(p)
    lines = [f"B|b{i}|16|{json.dumps(p)}" for i, p in enumerate(progs_)]
    # the same program text on two more vectors of secret values (inputs and initial values re-drawn, so conditions flip and
    # branch values coincide or not): the constraint system and the wire expression of every final variable must not change
    NTW = 2
    twins = []
    for p in progs_:
        for _ in range(NTW):
            q = typed.reroll(p, ctx.rnd)
            fix_for_bounds(q, ctx.rnd)
            twins.append(q)
    lines2 = [f"B|t{i}|16|{json.dumps(p)}" for i, p in enumerate(twins)]
    outs = common.run_workers(lines, script="worker_block.py")
    outs2 = common.run_workers(lines2, script="worker_block.py")
    # `checkstopmax=True` is outside the Lean statement language: those programs are judged by the direct oracle only
    modelled = [i for i, p in enumerate(progs_) if not uses(p, '"checkstopmax"') and "nested" not in (p.get("ctxmode") or {})]
    okb, outb, _ = common.lake_build(["PysnarkModel.Driver.ProtoBlock"])      # the driver module of this property (no-op when up to date)
    if not okb:
        # the model (or its driver) no longer builds: the tie is broken; the direct oracle still runs
        ex.disagreements.append({"case": "lake build PysnarkModel.Driver.ProtoBlock", "diff": [("X", outb[-800:])]})
        modelled = []
    mres = common.lean_driver([model_line(f"b{i}", progs_[i]) for i in modelled])
    mouts = {i: o for i, o in zip(modelled, mres)}
    # the documented condition type: a raw LinComb condition must be rejected (RuntimeError at merge time)
    probe = json.loads(common.run_workers([f"B|probe|16|{json.dumps(RAW_PROBE)}"], script="worker_block.py")[0].split("|", 1)[1])
    ex.count(f"raw-lincomb-condition:{probe.get('api', {}).get('status')}")
    bprobe = json.loads(common.run_workers([f"B|bprobe|16|{json.dumps(BOOL_PROBE)}"], script="worker_block.py")[0].split("|", 1)[1])
    bmodel = parse_model(common.lean_driver([model_line("bprobe", BOOL_PROBE)])[0]) if okb else {"status": "skipped"}
    ex.count(f"boolean-condition-after-block:impl={bprobe.get('api', {}).get('status')}:native={bprobe.get('native', {}).get('status')}:model={bmodel['status']}")
    if bprobe.get("api", {}).get("status") not in ("ok", None) and bprobe.get("native", {}).get("status") == "ok":
        # the repaired finding C09-boolean-demoted is back: the model (C09_boolean_usable) and the native twin run this program
        ex.violations.append(Violation({"dev": "raises", "error": str(bprobe["api"]["status"]), "feature": "boolean-condition-after-block"},
                                       f"a tracked boolean used as a block condition after an earlier block raises {bprobe['api']['status']} where native "
                                       f"control flow completes and the model runs ({bmodel['status']}): the merge at a block exit must return a LinCombBool "
                                       f"for a tracked LinCombBool (if_then_else on two booleans)",
                                       {"program": BOOL_PROBE}))
    # a block that rebinds a tracked list to a list of another length (fixed replay of the repaired finding C09-list-length-truncated):
    # the merge at the block exit must refuse (ValueError) whichever way the condition goes; a run that completes zipped the lists
    LEN_PROBE = "LEN"
    lp = common.run_workers([f"B|lenprobe|16|{json.dumps(LEN_PROBE)}"], script="worker_block.py")[0].split("|", 1)[1]
    try:
        lpd = json.loads(lp)
    except Exception:
        lpd = {}
    if "harness-error" in lpd or "taken" not in lpd:
        raise common.Infra("LEN probe: " + str(lpd)[:300])
    for way, native in (("taken", [7, 8, 9]), ("not_taken", [1, 2])):
        got = lpd.get(way)
        ex.count(f"list-length-change:{way}={got.get('error') if isinstance(got, dict) else got}")
        if isinstance(got, dict) and got.get("error") == "ValueError":
            continue
        if isinstance(got, dict):
            ex.violations.append(Violation({"dev": "raises", "error": got.get("error"), "feature": "list-length-change"},
                                           f"`if c: l = [7, 8, 9]` on a tracked list of two elements raises {got.get('error')} ({got.get('msg')}), not the "
                                           f"documented ValueError of a selection between lists of different lengths", {"probe": "LEN", "observed": lpd}))
        else:
            ex.violations.append(Violation({"dev": "wrong-value" if got != native else "not-refused", "feature": "list-length-change"},
                                           f"`if c: l = [7, 8, 9]` on a tracked list of two elements ends with {got} for c = {1 if way == 'taken' else 0} "
                                           f"(native {native}) instead of being refused with ValueError: the merge zips the two lists and silently truncates",
                                           {"probe": "LEN", "observed": lpd}))
    if probe.get("api", {}).get("status") != "RuntimeError":
        ex.notes.append(f"a raw LinComb block condition is no longer rejected: {probe.get('api')}")
    for i, (p, o) in enumerate(zip(progs_, outs)):
        ex.evaluations += 1
        d = json.loads(o.split("|", 1)[1])
        d2s = [json.loads(x.split("|", 1)[1]) for x in outs2[NTW * i:NTW * i + NTW]]
        mo = mouts.get(i)
        if "harness-error" in d or any("harness-error" in x for x in d2s):
            raise common.Infra(str(d)[:600] + str([x for x in d2s if "harness-error" in x])[:600])
        kinds = [k for k in ("if", "for", "while", "ite", "sel", "setitem", "setitem2", "ref", "range") if uses(p, f'["{k}"')]
        for k in kinds: ex.count(f"construct:{k}")
        ex.count(f"stream:{p['stream']}" + (f":{p.get('malformed')}" if p["stream"] == "malformed" else ""))
        if kinds:
            ex.distinct.add(json.dumps(p["body"]))
        nat, api = d["native"], d["api"]
        ex.count(f"native:{nat['status']}"); ex.count(f"api:{api['status']}")
        sig_kind = "+".join(kinds) or "straight"
        rep = {"program": p, "source": d.get("src", "")[:1500]}
        if p.get("typed"):
            for k in sorted(set(p["kinds"].values())): ex.count(f"kind:{k}")
        # ---- model vs code (programs of the Lean statement language)
        m = parse_model(mo) if mo is not None else {"status": "skipped"}
        if mo is not None and (m["status"] in ("bad", "bad-program", "bad-case") or mo.endswith("bad-line")):
            raise common.Infra("lean driver: " + mo[:300])
        ex.count(f"model:{m['status']}")
        if mo is None:
            if uses(p, '"checkstopmax"'):
                ex.unmodelled += 1; ex.count("construct:for-checkstopmax")
            elif "nested" in (p.get("ctxmode") or {}):
                ex.unmodelled += 1
        elif m["status"] == "err:UNMODELLED":
            ex.unmodelled += 1
        else:
            rep["model_line"] = model_line("r", p)
            dm = diff_model(api, m)
            if dm:
                ex.disagreements.append({"case": model_line(f"b{i}", p), "diff": dm[:3], "impl_status": api["status"], "model_status": m["status"]})
            else:
                ex.traces_validated += 1
            # Spec/Native.lean against the native Python run
            if nat["status"] == "ok" and m.get("NAT") not in (None, "uncapped"):
                want = ";".join(f"{vnum(k)}={num_str(v)}" for k, v in sorted(nat["num"].items(), key=lambda kv: vnum(kv[0])))
                if m["NAT"] != want:
                    ex.disagreements.append({"case": model_line(f"b{i}", p), "diff": [("N", f"Spec/Native={m['NAT'][:120]} python={want[:120]}")]})
            if m.get("NAT") == "uncapped":
                ex.count("spec-native:uncapped-loop-reached")
        # ---- a selection between lists of different lengths must be refused (on every input vector), never merged
        if p["stream"] == "lenchange":
            for who, nx, ax, pq in [("", nat, api, p)] + [(f" (input vector #{j + 2})", x.get("native", {}), x.get("api", {}), twins[NTW * i + j]) for j, x in enumerate(d2s)]:
                lsig = {"feature": "list-length-change", "stream": "lenchange"}
                lrep = dict(rep, program=pq, lenform=p.get("lenform"))
                if nx.get("status") != "ok":
                    ex.count("length-change:native-" + str(nx.get("status")))       # (not generated: the native twin completes)
                elif ax.get("status") == "ValueError" and "lists of different lengths" in ax.get("msg", ""):
                    ex.count("length-change:refused")
                elif ax.get("status") == "ValueError" and re.search(r"is not a \d+-bit integer", ax.get("msg", "")):
                    ex.count("out-of-domain:comparison-operand-exceeds-bitlength")
                elif ax.get("status") == "ok":
                    bad = [k for k, v in nx["num"].items() if ax["num"].get(k) != v]
                    ex.violations.append(Violation(dict(lsig, dev="wrong-value" if bad else "not-refused"),
                                                   f"a selection between lists of different lengths ({p.get('lenform')}) is merged instead of refused" + who +
                                                   (f": variable {bad[0]} ends as {ax['num'].get(bad[0])}, native {nx['num'][bad[0]]} (zip() keeps min(len) elements)"
                                                    if bad else ": the values happen to be the native ones on this input"), lrep))
                else:
                    ex.violations.append(Violation(dict(lsig, dev="raises", error=ax.get("status")),
                                                   f"a selection between lists of different lengths ({p.get('lenform')}) raises {ax.get('status')} "
                                                   f"({ax.get('msg', '')[:80]}), not the ValueError of the length check" + who, lrep))
            continue
        # ---- direct oracle: only for programs inside the documented domain
        if p["stream"] not in ("valid", "typed") and p.get("feature") != "negative-for-bound":
            continue
        sig = {"constructs": sig_kind}
        if uses(p, '"checkstopmax"'):
            sig["checkstopmax"] = True
        if p.get("feature"):
            sig["feature"] = p["feature"]
        if p.get("typed"):
            sig["typed"] = True
        if p.get("ctxmode"):
            sig["context"] = ctx_label(p); ex.count("context:" + sig["context"])
            rep["context"] = p["ctxmode"]
            mc = api.get("module_ctx")
            if api["status"] == "ok" and mc is not None and not mc["ok"]:
                ex.violations.append(Violation(dict(sig, dev="module-context-changed"),
                                               f"the function's blocks worked on its own context `{p['ctxmode']['name']}`, but the MODULE's context `_` ends with "
                                               f"{mc['vars']} (expected {mc['want']}), open blocks {mc['stack']}", rep))
            if p["ctxmode"].get("nested") == 0:
                # the function ran inside a block of the module context that is NOT taken: its values are dead; only the module context
                # (above) and the bookkeeping are judged
                if api["status"] == "ok" and (api.get("stack") or api.get("guard")):
                    ex.violations.append(Violation(dict(sig, dev="dangling-guard"), "after the program a guard / an open block context is left behind", rep))
                continue
        if nat["status"] == "ok" and api["status"] == "ValueError" and re.search(r"is not a \d+-bit integer", api.get("msg", "")):
            ex.count("out-of-domain:comparison-operand-exceeds-bitlength")      # the library's documented range check, not a deviation
            continue
        if nat["status"] == "ok" and api["status"] != "ok":
            ex.violations.append(Violation(dict(sig, dev="raises", error=api["status"]),
                                           f"the oblivious version raises {api['status']} ({api.get('msg', '')[:80]}) where native control flow completes",
                                           rep))
            continue
        if nat["status"] != "ok" or api["status"] != "ok":
            continue
        bad = [k for k, v in nat["num"].items() if k in api["num"] and api["num"][k] != v]
        missing = [k for k in nat["num"] if k not in api["num"]] + [k for k in api["num"] if k not in nat["num"]]
        badref = [k for k, v in nat["refs"].items() if api["refs"].get(k) != v]
        if bad or missing:
            k = (bad or missing)[0]
            ex.violations.append(Violation(dict(sig, dev="wrong-value"),
                                           f"variable {k}: oblivious version {api['num'].get(k)} vs native {nat['num'].get(k)}", rep))
        if badref:
            k = badref[0]
            ex.violations.append(Violation(dict(sig, dev="wrong-value-through-reference"),
                                           f"list reference {k} taken before a block: oblivious version {api['refs'].get(k)} vs native {nat['refs'].get(k)}", rep))
        if api.get("unsat"):
            ex.violations.append(Violation(dict(sig, dev="unsatisfied"),
                                           f"constraint #{api['unsat'][0]} of the oblivious version is not satisfied by the recorded witness", rep))
        if api.get("incoh"):
            ex.violations.append(Violation(dict(sig, dev="incoherent"),
                                           f"final value of {api['incoh'][0]} differs from its wire expression evaluated on the recorded witness", rep))
        if api.get("stack") or api.get("guard"):
            ex.violations.append(Violation(dict(sig, dev="dangling-guard"),
                                           "after the program a guard / an open block context is left behind", rep))
        for j, d2 in enumerate(d2s):
            a2 = d2.get("api", {})
            if a2.get("status") != "ok":
                continue
            ex.count("oblivious-pairs")
            tw = twins[NTW * i + j]
            other = {"other_inputs": tw["inputs"], "other_init": tw["init"], "other_finputs": tw.get("finputs", [])}
            if a2.get("unsat") or a2.get("incoh"):
                ex.violations.append(Violation(dict(sig, dev="unsatisfied" if a2.get("unsat") else "incoherent"),
                                               "on a second input vector a constraint is not satisfied / a final value is not coherent with its wire expression",
                                               dict(rep, program=tw)))
            if (a2["ncons"], a2["npriv"]) != (api["ncons"], api["npriv"]):
                ex.violations.append(Violation(dict(sig, dev="shape-depends-on-values"),
                                               f"the same program emits {api['ncons']} constraints/{api['npriv']} wires on one input and "
                                               f"{a2['ncons']}/{a2['npriv']} on another", dict(rep, **other)))
            elif parse_state(a2["canon_state"])["CONS"] != parse_state(api["canon_state"])["CONS"]:
                ex.violations.append(Violation(dict(sig, dev="shape-depends-on-values"),
                                               "the same program emits different constraints on two input vectors", dict(rep, **other)))
            elif a2["var_lcs"] != api["var_lcs"]:
                k = next(k for k in api["var_lcs"] if a2["var_lcs"].get(k) != api["var_lcs"][k])
                ex.violations.append(Violation(dict(sig, dev="shape-depends-on-values"),
                                               f"kind / wire expression of final variable {k} depends on the inputs: {str(api['var_lcs'][k])[:80]} vs "
                                               f"{str(a2['var_lcs'].get(k))[:80]}", dict(rep, **other)))
            # the native twin on the second vector as well
            n2 = d2.get("native", {})
            mc2 = a2.get("module_ctx")
            if mc2 is not None and not mc2["ok"]:
                ex.violations.append(Violation(dict(sig, dev="module-context-changed"),
                                               f"on a second input vector the MODULE's context `_` ends with {mc2['vars']} (expected {mc2['want']})", dict(rep, program=tw)))
            if n2.get("status") == "ok" and (n2["num"] != a2["num"] or n2["refs"] != a2["refs"]) and not p.get("feature"):
                k = next((k for k in n2["num"] if a2["num"].get(k) != n2["num"][k]), "ref")
                ex.violations.append(Violation(dict(sig, dev="wrong-value"),
                                               f"variable {k}: oblivious version {a2['num'].get(k)} vs native {n2['num'].get(k)}", dict(rep, program=tw)))
        if len(ex.samples) < 4 and kinds:
            ex.samples.append(d.get("src", "")[:600])
    return ex


def replay(ctx, payload):
    rp = payload.get("replay") or {}
    prog = rp.get("program")
    if prog is None and payload.get("correspondence_disagreements"):
        print("correspondence disagreement; model line:", payload["correspondence_disagreements"][0].get("case"))
        ml = payload["correspondence_disagreements"][0]["case"]
        print("model:", common.lean_driver([ml])[0][:3000])
        return 0
    if prog is None and rp.get("probe") == "LEN":
        # the fixed program of the repaired finding C09-list-length-truncated (worker_block.py runs it on the real code both ways)
        print("impl :", common.run_workers([f"B|r|16|{json.dumps('LEN')}"], script="worker_block.py")[0][:3000])
        for c in (1, 0):
            ml = f"BL|r{c}|p={common.BN128},bl=16|0 [ i1 i2 ]|{c}||{{ I eq i0 c1 {{ A v0 [ + i0 c6 + i0 c7 + i0 c8 ] }} E }}"
            print(f"model (c = {c}):", common.lean_driver([ml])[0][:3000])
        return 0
    line = f"B|r|16|{json.dumps(prog)}"
    print("impl :", common.run_workers([line], script="worker_block.py")[0][:3000])
    print("model:", common.lean_driver([model_line("r", prog)])[0][:3000])
    return 0
