"""Typed stream of C09: tracked variables of boolean, fixed-point, list and list-of-lists kind next to secret integers,
value-level `if_then_else(cond, a, b)` on mixed kinds, in-place element updates of tracked lists (one and two indices), and
references to a list object taken before a block and read after the program.  These programs are part of the Lean statement
language (Model/Branching.lean: `TVal`); they are compared with the model (V+S+W), checked against the native twin, for
satisfaction/coherence, and for independence of the constraint system from the inputs.  `ref` statements (a second name
for a list object, read after the program) have no counterpart in the model, which ignores them: the model has value
semantics for lists, and the generator never updates in place a list object that is reachable under two names.

List lengths: the typed stream keeps every list at its length (two elements, two rows).  `gen_lenchange` is the scenario class
for the other case: a program that ends with one statement in which `if_then_else` meets two lists of DIFFERENT lengths (a block /
loop round / later arm / nested block that rebinds a tracked list or replaces a row, a selection on values or on lazily evaluated
branches).  Native Python rebinds; the library must REFUSE (ValueError before anything is merged: repaired finding
C09-list-length-truncated; the model raises `Err.value` at the same point, `C09_length_mismatch_refused`)."""
import json

CMPS = ["lt", "le", "eq", "ne", "gt", "ge"]


class TG:
    def __init__(self, rnd):
        self.rnd = rnd
        self.ninp = rnd.randrange(1, 4); self.nfin = rnd.randrange(1, 3)
        self.n = 0
        self.kinds = {}
        self.noset = set()          # lists whose object may be shared (a reference was taken / aliased): no in-place update
        self.budget = rnd.randrange(4, 10)
        self.refs = 0

    def new(self, kind):
        v = f"x{self.n}"; self.n += 1; self.kinds[v] = kind
        return v

    def of(self, kind):
        return [v for v, k in self.kinds.items() if k == kind]

    # ---- expressions
    def int_expr(self, depth=0, lvs=()):
        r = self.rnd; c = r.random()
        if depth > 1 or c < 0.4:
            k = r.random(); ints = self.of("int"); lists = self.of("list")
            if k < 0.4 and ints: return ["var", r.choice(ints)]
            if k < 0.6: return ["in", r.randrange(self.ninp)]
            if k < 0.7 and lists: return ["item", r.choice(lists), r.randrange(2)]
            mats = self.of("mat")
            if k < 0.78 and mats: return ["item2", r.choice(mats), r.randrange(2), r.randrange(2)]
            if k < 0.8 and lvs: return ["loopvar", r.choice(lvs)]
            return ["const", r.randrange(-3, 6)]
        op = r.choice(["add", "add", "sub", "mul"])
        a = self.int_expr(depth + 1, lvs)
        b = ["const", r.randrange(0, 4)] if op == "mul" else self.int_expr(depth + 1, lvs)
        return [op, a, b]

    def secret_int(self, lvs=()):
        e = self.int_expr(0, lvs)
        s = json.dumps(e)
        if '"var"' not in s and '"in"' not in s and '"item' not in s:
            e = ["add", ["in", self.rnd.randrange(self.ninp)], e]
        return e

    def cond(self, lvs=(), boolvar=True):
        r = self.rnd
        bools = self.of("bool")
        if boolvar and bools and r.random() < 0.25:
            return ["var", r.choice(bools)]
        fx = self.of("fxp")
        if fx and r.random() < 0.15:
            # a fixed-point number on the left of a comparison (the other side is converted): against a constant, another
            # fixed-point number or a secret integer; `LinComb < LinCombFxp` (integer on the left) is the recorded C14 deviation
            right = r.choice([["const", r.randrange(-2, 4)], ["var", r.choice(fx)], ["fin", r.randrange(self.nfin)], ["in", r.randrange(self.ninp)]])
            return [r.choice(CMPS), ["var", r.choice(fx)], right]
        a = ["in", r.randrange(self.ninp)] if r.random() < 0.5 or not self.of("int") else ["var", r.choice(self.of("int"))]
        return [r.choice(CMPS), a, ["const", r.randrange(-2, 5)]]

    def bool_expr(self, depth=0, lvs=()):
        r = self.rnd; c = r.random()
        if depth > 0 or c < 0.6:
            return self.cond(lvs)
        if c < 0.8:
            return ["not", self.bool_expr(depth + 1, lvs)]
        return [r.choice(["and", "and", "or"]), self.bool_expr(depth + 1, lvs), self.bool_expr(depth + 1, lvs)]

    def fxp_expr(self, depth=0):
        r = self.rnd; c = r.random(); fx = self.of("fxp")
        if depth > 1 or c < 0.45:
            if fx and r.random() < 0.6: return ["var", r.choice(fx)]
            return ["fin", r.randrange(self.nfin)]
        if c < 0.75:
            return [r.choice(["add", "sub"]), self.fxp_expr(depth + 1), self.fxp_expr(depth + 1)]
        if c < 0.9:
            return ["mul", self.fxp_expr(depth + 1), ["const", r.randrange(0, 4)]]
        return ["add", self.fxp_expr(depth + 1), ["const", r.randrange(-2, 3)]]

    def list_expr(self, lvs=()):
        return ["list", [self.secret_int(lvs), self.secret_int(lvs)]]

    def mat_expr(self, lvs=()):
        """a list of lists built from fresh list literals (no row object is shared with anything)"""
        return ["list", [self.list_expr(lvs), self.list_expr(lvs)]]

    def expr_of(self, kind, lvs=()):
        return {"int": self.secret_int, "bool": self.bool_expr, "list": self.list_expr, "mat": self.mat_expr}[kind](lvs=lvs) if kind != "fxp" else self.fxp_expr()

    # ---- statements
    def sel(self):
        """_.x = if_then_else(cond, a, b) on evaluated branch values of (possibly) different kinds"""
        r = self.rnd
        lists = self.of("list")
        if len(lists) >= 2 and r.random() < 0.35:
            a, b = r.sample(lists, 2)
            c = self.cond()
            x = r.choice(lists) if r.random() < 0.3 else self.new("list")
            self.noset.add(x)
            return ["sel", x, c, ["copy", ["var", a]], ["copy", ["var", b]]]
        mats = self.of("mat")
        if len(mats) >= 2 and r.random() < 0.3:
            a, b = r.sample(mats, 2)
            c = self.cond()
            x = self.new("mat")
            return ["sel", x, c, ["copy", ["var", a]], ["copy", ["var", b]]]
        ka, kb = r.choice([("fxp", "fxp"), ("fxp", "bool"), ("bool", "fxp"), ("fxp", "int"), ("int", "fxp"), ("bool", "bool"),
                           ("bool", "int"), ("int", "bool"), ("fxp", "const"), ("const", "fxp"), ("bool", "const"), ("int", "int")])
        def mk(k):
            return ["const", r.randrange(0, 3)] if k == "const" else self.expr_of(k)
        c = self.cond(); a = mk(ka); b = mk(kb)
        kind = merge_kind(ka, kb)          # a selection between two booleans is a boolean, fixed point wins, else a plain secret
        x = self.new(kind)
        return ["sel", x, c, a, b]

    def assign(self, inblock, lvs=(), inloop=False):
        r = self.rnd
        x = r.choice(list(self.kinds))
        k = self.kinds[x]
        if k == "list":
            if r.random() < 0.5 and x not in self.noset:
                return ["setitem", x, r.randrange(2), self.secret_int(lvs)], None
            others = [l for l in self.of("list") if l != x]
            # not inside a loop: the body runs again, and an element update in a later round would go through the shared object
            if others and not inloop and r.random() < 0.3:
                y = r.choice(others); self.noset.update((x, y))
                return ["assign", x, ["var", y]], None             # `_.m = _.l`: both names share one list object
            return ["assign", x, self.list_expr(lvs)], None
        if k == "mat":
            c = r.random()
            if c < 0.6 and x not in self.noset:
                # in-place write through two indices: `_.m[i][j] = e`
                return ["setitem2", x, r.randrange(2), r.randrange(2), self.secret_int(lvs)], None
            if c < 0.8 and x not in self.noset:
                return ["setitem", x, r.randrange(2), self.list_expr(lvs)], None      # a row replaced by a new list
            return ["assign", x, self.mat_expr(lvs)], None
        nk = k
        if inblock and not inloop and r.random() < 0.35:
            nk = r.choice([q for q in ("int", "bool", "fxp") if q != k])      # the arm changes the kind of the variable
        return ["assign", x, self.expr_of(nk, lvs)], (x, nk)

    def arm(self, lvs=(), inloop=False):
        body = []; changed = {}
        for _ in range(self.rnd.randrange(1, 3)):
            st, ch = self.assign(True, lvs, inloop)
            # an arm that makes `x` an integer: the remaining statements of the arm see the new kind
            body.append(st)
            if ch:
                changed[ch[0]] = ch[1]; self.kinds[ch[0]] = ch[1]
        return body, changed

    def after_block(self, before, changes):
        """kinds after a block: every arm ends with the merge `if_then_else(cond, value in the arm, snapshot)`; a variable the
        arm did not rebind is merged with its own snapshot and keeps its kind (booleans included: a selection between two
        booleans is a boolean), fixed point wins, a boolean merged with an integer is a plain secret"""
        cur = dict(before)
        for ch in changes:
            cur = after_arm(cur, ch)
        self.kinds.update(cur)

    def stmt(self, depth):
        r = self.rnd; c = r.random()
        if c < 0.25 or depth > 0:
            return self.assign(False)[0]
        if c < 0.45:
            return self.sel()
        if c < 0.5 and self.of("list") and self.refs < 2:
            l = r.choice(self.of("list")); self.noset.add(l); self.refs += 1
            return ["ref", f"r{self.refs}", l]
        if c < 0.55:
            k = r.choice(["bool", "fxp", "list", "int", "mat"])
            e = self.expr_of(k)
            return ["assign", self.new(k), e]
        before = dict(self.kinds)
        # a tracked boolean lives through every block as a boolean (merged with its own snapshot): the later arms of a chain
        # (whose conditions are evaluated after the earlier arms were closed), loop bodies from the second round on, loop and
        # break conditions use it as one; `cur` follows the kinds through the merges at the arm exits
        if c < 0.8:
            arms = []; changes = []; cur = dict(before)
            for i in range(r.choice([1, 1, 2, 3])):
                self.kinds = dict(cur)
                cd = self.cond()
                body, ch = self.arm()
                arms.append([cd, body]); changes.append(ch)
                cur = after_arm(cur, ch)
            els = None
            if r.random() < 0.6:
                self.kinds = dict(cur)
                els, ch = self.arm(); changes.append(ch)
            self.kinds = dict(before)
            self.after_block(before, changes)
            return ["if", arms, els]
        # loop bodies do not change kinds (`assign(inloop=True)`), so every round sees the kinds of the first one
        if c < 0.9:
            body, _ = self.arm(lvs=("i0",), inloop=True)
            self.after_block(before, [])
            return ["for", "i0", ["in", r.randrange(self.ninp)], r.randrange(1, 4), body]
        cd = self.cond()
        body, _ = self.arm(inloop=True)
        brk = self.cond() if r.random() < 0.4 else None
        self.after_block(before, [])
        return ["while", cd, r.randrange(1, 3), body, brk]

    def prog(self):
        r = self.rnd
        init = {}
        for k in ["int"] + [r.choice(["bool", "fxp", "list", "int", "mat", "mat"]) for _ in range(r.randrange(2, 5))]:
            x = self.new(k)
            init[x] = init_value(r, k)
        kinds0 = dict(self.kinds)
        body = []
        while self.budget > 0:
            self.budget -= 1
            body.append(self.stmt(0))
        return {"typed": True, "stream": "typed", "kinds": kinds0, "init": init, "secret_vars": list(init),
                "inputs": [r.randrange(-2, 6) for _ in range(self.ninp)], "finputs": [r.randrange(-8, 12) for _ in range(self.nfin)], "body": body}


def merge_kind(a, b):
    """kind of `if_then_else(cond, a, b)` on scalars: fixed point wins (the other branch is converted), two booleans give a
    boolean, everything else a plain secret integer"""
    return "fxp" if "fxp" in (a, b) else "bool" if a == b == "bool" else "int"


def after_arm(cur, changed):
    """kinds after the merge at the exit of an arm that rebound the variables in `changed` (lists keep their kind)"""
    return {x: (k if k in ("list", "mat") else merge_kind(changed.get(x, k), k)) for x, k in cur.items()}


def init_value(r, k):
    if k == "int": return r.randrange(-3, 6)
    if k == "bool": return r.randrange(2)
    if k == "fxp": return r.randrange(-8, 12)
    if k == "list": return [r.randrange(-2, 6), r.randrange(-2, 6)]
    if k == "mat": return [[r.randrange(-2, 6), r.randrange(-2, 6)], [r.randrange(-2, 6), r.randrange(-2, 6)]]
    raise ValueError(k)


def gen_typed(rnd):
    return TG(rnd).prog()


def reroll(prog, rnd):
    """the same program on other secret values (init, inputs): conditions flip, branch values coincide or not"""
    q = json.loads(json.dumps(prog))
    q["inputs"] = [rnd.randrange(-2, 6) for _ in q["inputs"]]
    q["finputs"] = [rnd.randrange(-8, 12) for _ in q.get("finputs", [])]
    for k in q["init"]:
        kd = q.get("kinds", {}).get(k, "int")
        q["init"][k] = init_value(rnd, kd)
    return q


LEN_FORMS = ["if", "if-else", "in-else", "in-elif", "for", "while", "if-in-if", "if-in-for", "for-in-if", "sel", "sel-swapped", "ite", "ite-swapped",
             "row", "row-in-for", "rows", "alias", "mat-sel"]


def gen_lenchange(rnd, form=None):
    """a (short) typed program followed by ONE statement that makes `if_then_else` meet two lists of different lengths, after which
    the program ends: the oblivious version must raise ValueError whichever way the conditions go (the merge is made either way),
    the native twin completes.  `feature` = list-length-change, `lenform` = the shape of the last statement."""
    g = TG(rnd)
    g.budget = rnd.randrange(0, 4)
    p = g.prog()
    form = form or rnd.choice(LEN_FORMS)
    body = p["body"]
    r = rnd

    def fresh(kind, e):
        """a new variable bound to the (already generated) expression; registered afterwards, so `e` can not mention it"""
        x = g.new(kind)
        body.append(["assign", x, e])
        return x

    def target(kind):
        """an existing variable of that kind that is certainly one object under one name, or (half of the time) a new one"""
        have = [v for v in g.of(kind) if v not in g.noset]
        return r.choice(have) if have and r.random() < 0.5 else fresh(kind, g.expr_of(kind))

    def other(lvs=(), n=None):
        """a list literal whose length is not 2"""
        n = r.choice([0, 1, 3, 3, 4]) if n is None else n
        return ["list", [g.secret_int(lvs) for _ in range(n)]]

    def noise(lvs=(), after=False):
        """an unrelated integer assignment next to the rebinding (after it: no list is read, the target has its new length)"""
        ints = g.of("int")
        if not ints or r.random() >= 0.4:
            return []
        e = ["add", ["in", r.randrange(g.ninp)], ["var", r.choice(ints)]] if after else g.secret_int(lvs)
        return [["assign", r.choice(ints), e]]

    def arm(st, lvs=()):
        return noise(lvs) + [st] + noise(lvs, after=True)

    def samelen(x):
        """a statement that keeps the list `x` at its length"""
        return ["setitem", x, r.randrange(2), g.secret_int()] if x not in g.noset and r.random() < 0.5 else ["assign", x, g.list_expr()]

    if form in ("row", "row-in-for", "rows", "mat-sel"):
        M = target("mat")
    else:
        L = target("list")
    if form in ("for", "while", "if-in-for", "for-in-if", "row-in-for"):
        # a second round would read the target at its new length (natively an IndexError): the loop body does not read it
        tv = M if form == "row-in-for" else L
        g.kinds[tv] = "o" + g.kinds[tv]
    c = g.cond()
    if form == "if":
        last = ["if", [[c, arm(["assign", L, other()])]], None]
    elif form == "if-else":
        last = ["if", [[c, arm(["assign", L, other()])]], arm(samelen(L))]
    elif form == "in-else":
        last = ["if", [[c, arm(samelen(L))]], arm(["assign", L, other()])]
    elif form == "in-elif":
        last = ["if", [[c, arm(samelen(L))], [g.cond(), arm(["assign", L, other()])]], None if r.random() < 0.5 else arm(samelen(L))]
    elif form == "for":
        last = ["for", "i0", ["in", r.randrange(g.ninp)], r.randrange(1, 4), arm(["assign", L, other(("i0",))], ("i0",))]
    elif form == "while":
        last = ["while", c, r.randrange(1, 3), arm(["assign", L, other()]), g.cond() if r.random() < 0.4 else None]
    elif form == "if-in-if":
        last = ["if", [[c, noise() + [["if", [[g.cond(), arm(["assign", L, other()])]], None]]]], None if r.random() < 0.5 else arm(samelen(L))]
    elif form == "if-in-for":
        last = ["for", "i0", ["in", r.randrange(g.ninp)], r.randrange(1, 3), [["if", [[g.cond(("i0",)), arm(["assign", L, other(("i0",))], ("i0",))]], None]]]
    elif form == "for-in-if":
        last = ["if", [[c, [["for", "i0", ["in", r.randrange(g.ninp)], r.randrange(1, 3), arm(["assign", L, other(("i0",))], ("i0",))]]]], None]
    elif form in ("sel", "sel-swapped"):
        a, b = other(), ["copy", ["var", L]]
        last = ["sel", g.new("olist"), c] + ([a, b] if form == "sel" else [b, a])
    elif form in ("ite", "ite-swapped"):
        a, b = other(), ["var", L]
        last = ["ite", g.new("olist"), c] + ([a, b] if form == "ite" else [b, a])
    elif form == "row":
        last = ["if", [[c, arm(["setitem", M, r.randrange(2), other()])]], None]
    elif form == "row-in-for":
        last = ["for", "i0", ["in", r.randrange(g.ninp)], r.randrange(1, 3), arm(["setitem", M, r.randrange(2), other(("i0",))], ("i0",))]
    elif form == "rows":
        last = ["if", [[c, arm(["assign", M, ["list", [g.list_expr() for _ in range(r.choice([1, 3]))]]])]], None]
    elif form == "mat-sel":
        # two rows each; one ROW of the first operand has another length
        a = ["list", [g.list_expr(), other()] if r.random() < 0.5 else [other(), g.list_expr()]]
        last = ["sel", g.new("omat"), c, a, ["copy", ["var", M]]]
    elif form == "alias":
        # `_.l = _.k` inside the block, `k` a tracked list of another length (kind `olist`: never indexed by later expressions)
        K = fresh("olist", other())
        last = ["if", [[c, arm(["assign", L, ["var", K]])]], None]
    else:
        raise ValueError(form)
    body.append(last)
    p.update({"stream": "lenchange", "feature": "list-length-change", "lenform": form})
    return p


# fixed programs: the shapes the three kinds are most often used in
FIXED = [
    # nested selection on fixed point: r = ite(c1, a, b); s = ite(c2, r, a)
    {"kinds": {"x0": "fxp", "x1": "fxp"}, "init": {"x0": 6, "x1": 10}, "inputs": [0, 1], "finputs": [],
     "body": [["sel", "x2", ["eq", ["in", 0], ["const", 1]], ["var", "x0"], ["var", "x1"]],
              ["sel", "x3", ["eq", ["in", 1], ["const", 1]], ["var", "x2"], ["var", "x0"]]]},
    # a boolean variable rebound inside a block; a fixed-point variable rebound to a boolean and vice versa
    {"kinds": {"x0": "bool", "x1": "fxp", "x2": "int"}, "init": {"x0": 1, "x1": 6, "x2": 2}, "inputs": [1, 3], "finputs": [5],
     "body": [["if", [[["eq", ["in", 0], ["const", 1]], [["assign", "x0", ["lt", ["in", 1], ["const", 2]]], ["assign", "x1", ["ge", ["in", 1], ["const", 0]]]]]],
               [["assign", "x0", ["fin", 0]]]]]},
    # selection between fixed point and boolean, both orders
    {"kinds": {"x0": "fxp", "x1": "bool"}, "init": {"x0": 6, "x1": 1}, "inputs": [0], "finputs": [],
     "body": [["sel", "x2", ["eq", ["in", 0], ["const", 1]], ["var", "x0"], ["var", "x1"]],
              ["sel", "x3", ["eq", ["in", 0], ["const", 1]], ["var", "x1"], ["var", "x0"]]]},
    # two selections over the same two lists; the inputs of a selection are read again afterwards
    {"kinds": {"x0": "list", "x1": "list"}, "init": {"x0": [1, 2], "x1": [10, 20]}, "inputs": [0, 1], "finputs": [],
     "body": [["sel", "x2", ["eq", ["in", 0], ["const", 1]], ["copy", ["var", "x0"]], ["copy", ["var", "x1"]]],
              ["sel", "x3", ["eq", ["in", 1], ["const", 1]], ["copy", ["var", "x0"]], ["copy", ["var", "x1"]]]]},
    # a reference to the list taken before the block, the block rebinds the variable to a new list
    {"kinds": {"x0": "list", "x1": "list"}, "init": {"x0": [1, 2], "x1": [7, 8]}, "inputs": [1], "finputs": [],
     "body": [["ref", "r1", "x0"],
              ["if", [[["eq", ["in", 0], ["const", 1]], [["assign", "x0", ["list", [["add", ["in", 0], ["const", 8]], ["item", "x0", 1]]]], ["assign", "x1", ["var", "x0"]]]]], None]]},
    # a list of lists: two-index writes inside a block (taken or not), inside the rounds of a loop, a row replaced
    {"kinds": {"x0": "mat", "x1": "int"}, "init": {"x0": [[1, 2], [3, 4]], "x1": 5}, "inputs": [0, 2], "finputs": [],
     "body": [["if", [[["eq", ["in", 0], ["const", 1]], [["setitem2", "x0", 0, 1, ["add", ["in", 0], ["const", 9]]], ["assign", "x1", ["add", ["var", "x1"], ["const", 1]]]]]], None],
              ["for", "i0", ["in", 1], 3, [["setitem2", "x0", 1, 0, ["add", ["item2", "x0", 1, 0], ["loopvar", "i0"]]]]],
              ["if", [[["gt", ["item2", "x0", 1, 0], ["const", 3]], [["setitem", "x0", 0, ["list", [["add", ["in", 0], ["const", 7]], ["item2", "x0", 1, 1]]]]]]],
               [["setitem2", "x0", 1, 1, ["sub", ["in", 1], ["const", 5]]]]]]},
    # the same inside a while loop with a break condition; selection between two lists of lists
    {"kinds": {"x0": "mat", "x1": "mat", "x2": "int"}, "init": {"x0": [[1, 2], [3, 4]], "x1": [[5, 6], [7, 8]], "x2": 0}, "inputs": [2, 1], "finputs": [],
     "body": [["while", ["lt", ["var", "x2"], ["in", 0]], 3, [["setitem2", "x0", 0, 0, ["add", ["item2", "x0", 0, 0], ["const", 2]]], ["assign", "x2", ["add", ["var", "x2"], ["const", 1]]]],
               ["eq", ["item2", "x0", 0, 0], ["const", 5]]],
              ["sel", "x3", ["eq", ["in", 1], ["const", 1]], ["copy", ["var", "x0"]], ["copy", ["var", "x1"]]],
              ["if", [[["eq", ["in", 1], ["const", 0]], [["setitem2", "x3", 1, 1, ["add", ["in", 0], ["const", 1]]]]]], None]]},
    # element-wise update of a tracked list inside a loop and a block
    {"kinds": {"x0": "list", "x1": "int"}, "init": {"x0": [0, 0], "x1": 1}, "inputs": [2], "finputs": [],
     "body": [["for", "i0", ["in", 0], 3, [["setitem", "x0", 0, ["add", ["item", "x0", 0], ["var", "x1"]]], ["assign", "x1", ["add", ["var", "x1"], ["loopvar", "i0"]]]]],
              ["if", [[["gt", ["item", "x0", 0], ["const", 1]], [["setitem", "x0", 1, ["add", ["in", 0], ["const", 5]]]]]], [["setitem", "x0", 1, ["sub", ["in", 0], ["const", 5]]]]]]},
]


def fixed_progs(rnd):
    out = []
    for t in FIXED:
        p = json.loads(json.dumps(t))
        p.update({"typed": True, "stream": "typed", "secret_vars": list(p["init"])})
        out.append(p)
        for _ in range(3):
            out.append(reroll(p, rnd))
    return out


# the known aliasing deviation: an element update inside a block that is NOT taken is visible through a reference to the
# list object taken before the block (the library merges into a new list; the old object keeps the branch's write)
LEAK = {"kinds": {"x0": "list"}, "init": {"x0": [1, 2]}, "inputs": [0], "finputs": [], "typed": True, "stream": "typed", "secret_vars": ["x0"],
        "feature": "list-ref-inplace",
        "body": [["ref", "r1", "x0"], ["if", [[["eq", ["in", 0], ["const", 1]], [["setitem", "x0", 0, ["add", ["in", 0], ["const", 9]]]]]], None]]}
