"""C10 — snarkjs files encode exactly the traced circuit and a valid witness."""
from .. import common, r1csread
from ..framework import Exploration, Violation
from ..gen import progs

ASSUMPTIONS = ["the real snarkjsbackend.prove() is run in a scratch directory; the files are decoded by harness/r1csread.py, written "
               "from the iden3 format description and sharing no code with the writer or the Lean model; snarkjs itself is absent",
               "the Lean encoder is fed the trace recorded from the real run (dict order, unreduced coefficients) and must reproduce "
               "the bytes of both files",
               "field configurations: `snarkjsbackend.snarkjsp` set to primes of 1, 3, 8, 16, 24, 31 and 32 bytes (97, 65537, 2^64-2^32+1, "
               "2^127-1, 2^192-237, 2^248-237, bn128, bls12-381); the pinned writer uses 32-byte elements for every prime (model: "
               "Model/Snarkjs.lean, theorems for 0 < p < 2^256), the decoder takes the element width n8 from each file's header as the "
               "iden3 format says and accepts any width that is a multiple of 8 and holds the prime; primes of 2^256 and above are "
               "outside the format the writer implements (the 32-byte modulus field would be truncated) and are not driven",
               "directly installed traces go through the backend's own entry points pubval()/privval()/add_constraint(); staged traces "
               "(2-4 exports of one growing trace in one process and one directory: stages that add wires and constraints, only wires, "
               "only constraints, or nothing) are judged after every export; a file that is absent after prove(), or byte-identical to "
               "the previous export although the trace grew, is reported (files-not-written / stale-files)",
               "sequences of INDEPENDENT runs in one working directory (trace cleared between runs; a bigger circuit followed by a smaller "
               "one, equal and growing sizes; random bytes or a longer file beginning like a valid export present under either name before "
               "the first run): after every run both files must be byte-identical to the export of the same trace into an empty directory "
               "(differs-from-fresh-run) and decode without trailing bytes; read-only or non-regular pre-existing files are not driven",
               "the trace every export of a staged / faulted run is judged against is the one the HARNESS installed (accumulated from the "
               "case line), never the backend's in-memory lists read back after an earlier prove(); every such export is also compared "
               "byte for byte with the export of the same accumulated trace by a second interpreter that has done nothing else but "
               "successful exports of directly installed traces (differs-from-fresh-process)",
               "faults at the write stage are limited to what works for any user id: a directory / a dangling symbolic link under the "
               "name of either output file, the working directory removed; prove() raising there is expected and not judged, the exports "
               "AFTER it in the same interpreter are"]
PARTIAL = []
P = common.BN128
GOLDILOCKS = 2 ** 64 - 2 ** 32 + 1
FIELDS = [97, 65537, GOLDILOCKS, 2 ** 127 - 1, 2 ** 192 - 237, 2 ** 248 - 237, common.BLS381, P]     # 1, 3, 8, 16, 24, 31, 32, 32 bytes
PROGRAM_FIELDS = [P, P, P, P, common.BLS381, 2 ** 127 - 1, 2 ** 248 - 237]                            # gadgets need bitlength << field size


def rand_val(rnd, p):
    return rnd.choice([0, 1, -1, p - 1, p, p + 1, 2 * p, -p, 2 ** 256 - 1, 2 ** 256, 2 ** 300 + 7, -(2 ** 260),
                       rnd.randrange(p), -rnd.randrange(p), rnd.randrange(2 ** 270)])


def rand_lc(rnd, p, npub, npriv):
    keys = list(range(-npriv, npub + 1)); rnd.shuffle(keys)
    keys = keys[:rnd.randrange(0, len(keys) + 1)]
    return ",".join(f"{k}:{rnd.choice([0, 1, -1, 2, p, p - 1, -p - 3, rnd.randrange(-2 ** 258, 2 ** 258)])}" for k in keys)


def rand_cons(rnd, p, npub, npriv, n):
    return ";".join("#".join(rand_lc(rnd, p, npub, npriv) for _ in range(3)) for _ in range(n))


def direct_traces(rnd, n, p=P, tag="d"):
    """traces installed through the backend's entry points: extreme witness values and coefficients"""
    out = []
    for i in range(n):
        npub = rnd.randrange(0, 4); npriv = rnd.randrange(0, 5)
        pubs = [rand_val(rnd, p) for _ in range(npub)]; privs = [rand_val(rnd, p) for _ in range(npriv)]
        cons = rand_cons(rnd, p, npub, npriv, rnd.randrange(0, 4))
        out.append(f"JT|{tag}{i}|{p}|{','.join(map(str, pubs))}|{','.join(map(str, privs))}|{cons}")
    return out


STAGE_KINDS = ["full", "full", "wires-only", "wires-only", "constraints-only", "nothing", "public-and-private", "public-and-private"]


def staged_traces(rnd, n, p=P, tag="s"):
    """several exports of one growing trace in one process: stage 1 always has wires and constraints, later stages add wires
    and constraints / only wires / only constraints / nothing; returns (line, [stage kinds])"""
    import json
    out = []
    for i in range(n):
        npub = npriv = 0; stages = []; kinds = []
        for k in range(rnd.randrange(2, 5)):
            kind = "full" if k == 0 else rnd.choice(STAGE_KINDS)
            st = {"pub": [], "priv": [], "cons": ""}
            if kind in ("full", "wires-only"):
                a = rnd.randrange(0, 3); b = rnd.randrange(0, 3)
                if a + b == 0: a = 1
                st["pub"] = [rand_val(rnd, p) for _ in range(a)]; st["priv"] = [rand_val(rnd, p) for _ in range(b)]
                npub += a; npriv += b
            if kind == "public-and-private":
                # new PUBLIC and new private values after an export, and constraints over OLD private wires, old and new public ones
                a = rnd.randrange(1, 3); b = rnd.randrange(1, 3)
                st["pub"] = [rand_val(rnd, p) for _ in range(a)]; st["priv"] = [rand_val(rnd, p) for _ in range(b)]
                old_priv = list(range(-npriv, 0)) or [-1]; npub += a; npriv += b
                def lc():
                    ks = {rnd.choice(old_priv), rnd.randrange(-npriv, npub + 1), rnd.randrange(0, npub + 1)}
                    ks = list(ks); rnd.shuffle(ks)
                    return ",".join(f"{k}:{rnd.choice([1, -1, 2, p - 1, rnd.randrange(-2 ** 258, 2 ** 258)])}" for k in ks)
                st["cons"] = ";".join("#".join(lc() for _ in range(3)) for _ in range(rnd.randrange(1, 4)))
            if kind in ("full", "constraints-only"):
                st["cons"] = rand_cons(rnd, p, npub, npriv, rnd.randrange(1, 4))
            stages.append(st); kinds.append(kind)
        out.append((f"JS|{tag}{i}|{p}|" + json.dumps(stages), kinds))
    return out


def accumulated(stages):
    """the trace after each stage as the harness installed it: 'pubs|privs|cons' per stage, independent of the backend's lists"""
    pubs, privs, cons, out = [], [], [], []
    for st in stages:
        pubs += [int(x) for x in st.get("pub", [])]; privs += [int(x) for x in st.get("priv", [])]
        cons += [c for c in st.get("cons", "").split(";") if c]
        out.append(f"{','.join(map(str, pubs))}|{','.join(map(str, privs))}|{';'.join(cons)}")
    return out


FAULTS = [("directory-in-the-way", 0), ("directory-in-the-way", 1), ("dangling-link", 0), ("dangling-link", 1), ("directory-removed", None)]
FAULT_SHAPES = ["FR", "FR", "RFR", "FFR", "FRR", "RFRFR"]            # F = a run whose prove() meets the obstacle, R = a regular run


def faulted_traces(rnd, n, p=P, tag="f", names=("witness.wtns", "circuit.r1cs")):
    """runs in ONE interpreter, some of which fail at the WRITE stage (an obstacle under the name of the first / second output file, or no
    working directory), followed by regular runs: returns (line, [fault label or None per run])"""
    import json
    out = []
    for i in range(n):
        shape = FAULT_SHAPES[i % len(FAULT_SHAPES)]
        runs = []; labels = []
        for ch in shape:
            t = one_trace(rnd, p, rnd.choice(["small", "mid", "mid", "big"]))
            if ch == "F":
                kind, which = FAULTS[i % len(FAULTS)] if i < len(FAULTS) and not runs else rnd.choice(FAULTS)
                t["fault"] = {"kind": kind, "name": names[which or 0]}
                labels.append(kind + ("" if which is None else ":" + ("first-file", "second-file")[which]))
            else:
                labels.append(None)
            runs.append(t)
        out.append((f"JF|{tag}{i}|{p}|" + json.dumps({"runs": runs}), labels))
    return out


def fresh_process_clause(files, fresh, names=("witness.wtns", "circuit.r1cs")):
    """direct oracle for exports that follow other exports in the same interpreter: same bytes as a fresh interpreter gives"""
    for name in names:
        a, b = files.get(name), fresh.get(name)
        if a is None or b is None or a == b:
            continue
        a, b = bytes.fromhex(a), bytes.fromhex(b)
        k = next((i for i in range(min(len(a), len(b))) if a[i] != b[i]), min(len(a), len(b)))
        tail = f"; the file ENDS with the {len(b)} bytes of the fresh export, {len(a) - len(b)} bytes precede them" if len(a) > len(b) and a.endswith(b) else ""
        return [("differs-from-fresh-process", f"{name} is {len(a)} bytes; the same trace installed and exported by an interpreter that did "
                 f"nothing before gives {len(b)} bytes; first difference at offset {k}{tail}")]
    return []


SEQ_SHAPES = [("big", "small"), ("big", "small"), ("small", "big", "small"), ("big", "mid", "small"), ("mid", "mid"),
              ("small", "big"), ("big", "empty"), ("mid", "small", "big", "small")]
SEQ_PRE = ["none", "none", "garbage-longer", "garbage-longer-wtns", "garbage-longer-r1cs", "garbage-shorter", "valid-looking-longer"]


def one_trace(rnd, p, size):
    lo, hi = {"empty": (0, 0), "small": (0, 2), "mid": (2, 4), "big": (5, 12)}[size]
    npub = rnd.randrange(lo, hi + 1); npriv = rnd.randrange(lo, hi + 1)
    ncons = 0 if size == "empty" else rnd.randrange(lo, hi + 1)
    return {"pub": [rand_val(rnd, p) for _ in range(npub)], "priv": [rand_val(rnd, p) for _ in range(npriv)],
            "cons": rand_cons(rnd, p, npub, npriv, ncons)}


def sequence_traces(rnd, n, p=P, tag="q"):
    """SEQUENCES of independent runs in one working directory (successive scripts started in the same place): a bigger circuit
    followed by a smaller one, equal sizes, growing sizes, and files that exist before the first run (random bytes longer / shorter
    than the export, for both names or one; a longer file that begins like a valid export)"""
    import json
    out = []
    for i in range(n):
        shape = SEQ_SHAPES[i % len(SEQ_SHAPES)] if i < len(SEQ_SHAPES) else rnd.choice(SEQ_SHAPES)
        prek = SEQ_PRE[(i // 2) % len(SEQ_PRE)] if i < 2 * len(SEQ_PRE) else rnd.choice(SEQ_PRE)
        pre = {}
        if prek.startswith("garbage"):
            size = rnd.randrange(1, 40) if prek == "garbage-shorter" else rnd.randrange(2500, 6000)
            for name in ("witness.wtns", "circuit.r1cs"):
                if prek.endswith("wtns") and name != "witness.wtns" or prek.endswith("r1cs") and name != "circuit.r1cs":
                    continue
                pre[name] = rnd.randbytes(size).hex()
        elif prek == "valid-looking-longer":
            pre = {"witness.wtns": (b"wtns" + (2).to_bytes(4, "little") * 2 + rnd.randbytes(4000)).hex(),
                   "circuit.r1cs": (b"r1cs" + (1).to_bytes(4, "little") + (3).to_bytes(4, "little") + rnd.randbytes(4000)).hex()}
        out.append((f"JQ|{tag}{i}|{p}|" + json.dumps({"pre": pre, "runs": [one_trace(rnd, p, z) for z in shape]}), prek, pre))
    return out


def sequence_kind(k, prek, before, fresh):
    """what the run's export met in the directory, by file sizes (never by content): part of the violation signature"""
    if not before:
        return "into-empty-directory"
    longer = [n for n in ("witness.wtns", "circuit.r1cs") if n in before and n in fresh and len(before[n]) > len(fresh[n])]
    return ("over-longer-" if longer else "over-shorter-or-equal-") + ("pre-existing-files" if k == 0 else "earlier-export")


def fresh_run_clause(files, fresh, before):
    """direct oracle for sequences: the directory after the run holds exactly the bytes the same trace gives in an empty directory"""
    for name in ("witness.wtns", "circuit.r1cs"):
        a, b = files.get(name), fresh.get(name)
        if a is None or b is None or a == b:
            continue
        a, b = bytes.fromhex(a), bytes.fromhex(b)
        k = next((i for i in range(min(len(a), len(b))) if a[i] != b[i]), min(len(a), len(b)))
        old = bytes.fromhex(before.get(name, ""))
        tail = (f"; bytes {len(b)}.. are the tail of the file that was there before the run ({len(old)} bytes)"
                if a[:len(b)] == b and len(old) == len(a) and old[len(b):] == a[len(b):] else "")
        return [("differs-from-fresh-run", f"{name} is {len(a)} bytes after prove() in a directory that already held a {len(old)}-byte "
                 f"{name}; the same trace exported into an empty directory gives {len(b)} bytes; first difference at offset {k}{tail}")]
    extra = sorted(set(files) - set(fresh) - set(before) - {"!raised"})
    if extra:
        return [("differs-from-fresh-run", f"files {extra} appear only when the directory was not empty")]
    return []


def parse_trace(f):
    pubs = [int(x) for x in f[3].split(",") if x]; privs = [int(x) for x in f[4].split(",") if x]
    cons = []
    for c in [c for c in f[5].split(";") if c]:
        cons.append([[(int(kv.split(":")[0]), int(kv.split(":")[1])) for kv in l.split(",") if kv] for l in c.split("#")])
    return pubs, privs, cons


def value_class(v, p):
    return "neg" if v < 0 else "wide" if v >= 2 ** 256 else "ge-p" if v >= p else "canonical"


def byte_class(p):
    return f"{(p.bit_length() + 7) // 8}-byte-prime"


def judge(ex, line, src, status, p, trace_fields, files, model_line, stage=None, prev_files=None, prev_trace=None, fresh=None,
          before=None, fresh_process=None):
    """one export: bytes vs the model's encoder, then the independent decoder's clauses; returns the list of (clause, message)"""
    pubs, privs, cons = parse_trace(trace_fields)
    wt_hex, r1_hex = files.get("witness.wtns"), files.get("circuit.r1cs")
    mf = model_line.split("|")
    if wt_hex is None or r1_hex is None or len(mf) < 3 or mf[1] != wt_hex or mf[2] != r1_hex:
        which = "witness.wtns" if wt_hex is None or len(mf) < 3 or mf[1] != wt_hex else "circuit.r1cs"
        ex.disagreements.append({"case": line[:3000], "stage": stage, "what": f"bytes of {which} differ from the model's encoder"})
    else:
        ex.traces_validated += 1
    if fresh is not None and "!raised" not in files:
        d = fresh_run_clause(files, fresh, before or {})
        if d:
            return d
    if "!raised" in files:
        return [("export-raised", "prove() raised " + bytes.fromhex(files["!raised"]).decode(errors="replace")[:200])]
    missing = [n for n, h in (("witness.wtns", wt_hex), ("circuit.r1cs", r1_hex)) if h is None]
    if missing:
        return [("files-not-written", f"after prove() there is no {' / '.join(missing)} in the working directory")]
    try:
        wt = r1csread.read_wtns(bytes.fromhex(wt_hex)); r1 = r1csread.read_r1cs(bytes.fromhex(r1_hex))
        bad = r1csread.check(wt, r1, p, pubs, privs, cons)
    except r1csread.FormatError as e:
        bad = [("malformed", str(e))]
    if src == "program" and status == "ok" and ",ign=0|" in line and "set ign" not in line and not bad:
        # with C01: the decoded witness of a completed run satisfies the decoded constraints
        def ev(l, wv): return sum(c * wv[i] for i, c in l) % p
        for ci, dc in enumerate(r1["constraints"]):
            if (ev(dc[0], wt["values"]) * ev(dc[1], wt["values"]) - ev(dc[2], wt["values"])) % p != 0:
                bad.append(("decoded-unsatisfied", f"constraint {ci} of circuit.r1cs is not satisfied by witness.wtns"))
                break
    if fresh_process is not None:
        bad = bad + fresh_process_clause(files, fresh_process)
    if bad and prev_files is not None and prev_trace != trace_fields[3:6] and \
            (files.get("witness.wtns"), files.get("circuit.r1cs")) == (prev_files.get("witness.wtns"), prev_files.get("circuit.r1cs")):
        bad = [("stale-files", "the trace grew since the previous export, prove() was called again, and both files are byte-identical "
                "to the previous export (" + bad[0][0] + ": " + bad[0][1] + ")")]
    return bad


def explore(ctx, extended=False, focus=None):
    import json
    ex = Exploration()
    ex.rule = ("(a) programs over the public API traced on the real snarkjs backend, then prove(); (b) traces installed through "
               "pubval/privval/add_constraint with witness values / coefficients from {0, +-1, p-1, p, p+1, 2p, -p, 2^256-1, 2^256, "
               ">2^256, random}, empty and zero-coefficient linear combinations; (c) staged traces: 2-4 exports of one growing trace in "
               "one process (stages adding wires+constraints / wires only / constraints only / nothing); (d) sequences of 2-4 independent "
               "runs in one directory (big then small, equal, growing; longer / shorter garbage files present beforehand), each compared "
               "byte for byte with the same trace exported into an empty directory; (e) runs in one interpreter of which some fail at the write "
               "stage (directory / dangling link under either output name, working directory removed), the exports after the failure judged; "
               "(c) and (e) are judged against the trace the harness installed and compared byte for byte with a fresh interpreter's export "
               "of the same trace, (c) includes stages that add public AND private values and constraints over old private wires; "
               "(b), (c), (d), (e) for primes of 1, 3, 8, "
               "16, 24, 31 and 32 bytes, (a) for 16-, 31- and 32-byte primes; for each export: bytes of both files vs the Lean encoder "
               "run on the recorded trace, and the independent decoder's checks (well-formedness with the element width taken from the "
               "header, canonical elements, decode = trace, satisfaction transfer); distinct = distinct (source, prime width, #pub, "
               "#priv, #constraints, witness value classes)")
    n = ctx.n(480, 12000) * (3 if extended else 1)
    mix = [(4, progs.op_case), (2, progs.chain_case), (1, progs.method_case), (1, progs.array_case), (1, progs.guarded_case)]
    cases = []
    for k, fp in enumerate(PROGRAM_FIELDS):
        cases += progs.generate(ctx.rnd, n // len(PROGRAM_FIELDS), f"c10_{k}_", mix=mix, p=fp)
    lines = [c.line() for c in cases]
    staged = []
    for k, fp in enumerate(FIELDS):
        lines += direct_traces(ctx.rnd, n // len(FIELDS), p=fp, tag=f"d{k}_")
        staged += staged_traces(ctx.rnd, max(8, n // (4 * len(FIELDS))), p=fp, tag=f"s{k}_")
    lines += [l for l, _ in staged]
    kinds_of = {l.split("|")[1]: k for l, k in staged}
    seqs = []
    for k, fp in enumerate(FIELDS):
        seqs += sequence_traces(ctx.rnd, max(16 if fp == P else 4, n // (6 * len(FIELDS))), p=fp, tag=f"q{k}_")
    lines += [l for l, _, _ in seqs]
    pre_of = {l.split("|")[1]: (prek, pre) for l, prek, pre in seqs}
    faulted = []
    for k, fp in enumerate(FIELDS):
        faulted += faulted_traces(ctx.rnd, max(12 if fp == P else 5, n // (8 * len(FIELDS))), p=fp, tag=f"f{k}_")
    lines += [l for l, _ in faulted]
    faults_of = {l.split("|")[1]: lab for l, lab in faulted}
    # one trace built with the backend's LinearCombination operators, exported under several primes (snarkjsp switched between exports)
    from . import c11
    multi = c11.multi_field_traces(ctx.rnd, max(24, n // 12), P, tag="m")
    lines += [l for l, _, _, _ in multi]
    multi_of = {l.split("|")[1]: (e, fs) for l, e, fs, _ in multi}
    # what a FRESH interpreter writes for every accumulated / post-fault trace: a second worker that only ever installs a trace and exports it
    ref_lines = []
    for l, _ in staged:
        f = l.split("|", 3)
        ref_lines += [f"JT|{f[1]}_{k}|{f[2]}|{t}" for k, t in enumerate(accumulated(json.loads(f[3])))]
    for l, _ in faulted:
        f = l.split("|", 3)
        ref_lines += [f"JT|{f[1]}_{k}|{f[2]}|{accumulated([st])[0]}" for k, st in enumerate(json.loads(f[3])["runs"])]
    w = common.Worker("snarkjs", "worker_files.py")
    w2 = common.Worker("snarkjs", "worker_files.py")
    try:
        import concurrent.futures as cf
        with cf.ThreadPoolExecutor(2) as pool:
            fut = pool.submit(w2.run, ref_lines)
            outs = w.run(lines)
            ref_outs = fut.result()
    finally:
        w.close(); w2.close()
    fresh_of = {}
    for o in ref_outs:
        f = o.split("|")
        if len(f) < 4 or f[1] == "harness-error":
            raise common.Infra(o[:600])
        fresh_of[f[0]] = dict(x.split("=", 1) for x in f[6:] if "=" in x)
    jl = []
    recs = []       # (line, src, status, p, trace fields, files, stage, prev_files, prev_trace, stage kind)
    for line, o in zip(lines, outs):
        f = o.split("|")
        if len(f) < 4 or f[1] == "harness-error":
            raise common.Infra(o[:600])
        p = int(f[2])
        if line.startswith("JQ|"):
            prek, before = pre_of[f[0]]
            for k, st in enumerate(json.loads(o.split("|", 3)[3])):
                tf = [f[0], f[1], f[2]] + st["trace"].split("|")
                recs.append((line, "sequence", f[1], p, tf, st["files"], k + 1, None, None,
                             (sequence_kind(k, prek, before, st["fresh"]), st["fresh"], before)))
                jl.append(f"J|{f[0]}_{k}|{p}|{st['trace']}")
                before = {n: h for n, h in st["files"].items() if n != "!raised"}
            continue
        if line.startswith("JS|"):
            prev_files = prev_trace = None
            installed = accumulated(json.loads(line.split("|", 3)[3]))
            for k, st in enumerate(json.loads(o.split("|", 3)[3])):
                # judged against what was INSTALLED: the backend's lists, read back after an earlier prove(), are not the reference
                tf = [f[0], f[1], f[2]] + installed[k].split("|")
                if st["trace"] != installed[k]:
                    ex.count("stage:in-memory-trace-differs-from-what-was-installed")
                recs.append((line, "staged", f[1], p, tf, st["files"], k + 1, prev_files, prev_trace,
                             (kinds_of[f[0]][k], fresh_of[f"{f[0]}_{k}"])))
                jl.append(f"J|{f[0]}_{k}|{p}|{installed[k]}")
                prev_files, prev_trace = st["files"], tf[3:6]
            continue
        if line.startswith("JM|"):
            expected, fields = multi_of[f[0]]
            for k, st in enumerate(json.loads(o.split("|", 3)[3])):
                tf = [f[0], f[1], str(fields[k])] + expected.split("|")
                recs.append((line, "several-fields", f[1], fields[k], tf, st["files"], k + 1, None, None,
                             "field-switched-after-tracing" if fields[k] != p else "tracing-field"))
                jl.append(f"J|{f[0]}_{k}|{fields[k]}|{expected}")
            continue
        if line.startswith("JF|"):
            runs = json.loads(line.split("|", 3)[3])["runs"]; last_fault = None
            for k, st in enumerate(json.loads(o.split("|", 3)[3])):
                lab = faults_of[f[0]][k]
                if lab is not None and "!raised" in st["files"]:
                    last_fault = lab; ex.count(f"fault:{lab}:prove-raised"); continue     # the injected failure itself is not judged
                ex.count(f"fault:{lab}:had-no-effect" if lab else f"after-fault:{last_fault}")
                tf = [f[0], f[1], f[2]] + accumulated([runs[k]])[0].split("|")
                recs.append((line, "faulted", f[1], p, tf, st["files"], k + 1, None, None,
                             ("after-failed-export:" + last_fault if last_fault else "before-any-fault", fresh_of[f"{f[0]}_{k}"])))
                jl.append(f"J|{f[0]}_{k}|{p}|{accumulated([runs[k]])[0]}")
            continue
        files = dict(x.split("=", 1) for x in f[6:] if "=" in x)
        recs.append((line, "direct" if line.startswith("JT") else "program", f[1], p, f, files, None, None, None, None))
        jl.append(f"J|{f[0]}|{p}|{f[3]}|{f[4]}|{f[5]}")
    ml = common.lean_driver(jl)
    last_program_line = None
    for (line, src, status, p, tf, files, stage, prev_files, prev_trace, skind), m in zip(recs, ml):
        ex.evaluations += 1
        pubs, privs, cons = parse_trace(tf)
        classes = tuple(sorted({value_class(v, p) for v in pubs + privs}))
        ex.distinct.add((src, byte_class(p), len(pubs), len(privs), len(cons), classes))
        ex.count(f"source:{src}"); ex.count(f"field:{byte_class(p)}")
        fresh = before = fresh_process = None
        if src == "sequence":
            skind, fresh, before = skind
            ex.count(f"sequence:{skind}")
        elif src == "several-fields":
            ex.count(f"several-fields:{skind}")
        elif src in ("staged", "faulted"):
            skind, fresh_process = skind
            if src == "staged":
                ex.count(f"stage:{'first' if stage == 1 else skind}")
        for c in classes:
            ex.count(f"witness-class:{c}")
        bad = judge(ex, line, src, status, p, tf, files, m, stage, prev_files, prev_trace, fresh, before, fresh_process)
        for clause, msg in bad:
            sig = {"clause": clause, "field": "32-byte-prime" if byte_class(p) == "32-byte-prime" else "narrower-prime"}
            if src == "sequence":
                sig["export"] = "sequence:" + skind
            elif src == "faulted":
                sig["export"] = skind
            elif src == "several-fields":
                sig["export"] = "several-fields:" + skind
            elif stage:
                sig["export"] = "first" if stage == 1 else "repeated:" + skind
            payload = {"line": line[:80000]}
            if stage:
                payload["stage"] = stage
            if clause in ("files-not-written", "export-raised") and src == "program" and last_program_line:
                payload["previous_line_in_the_same_process"] = last_program_line[:5000]
            ex.violations.append(Violation(sig, f"{clause}: {msg}" + (f" [run #{stage} of a sequence of independent runs in one directory ({skind}), prime of {byte_class(p)[:-6]}]" if src == "sequence" else
                                                                      f" [export #{stage} of one trace under several primes ({skind}), prime of this export {p}]" if src == "several-fields" else
                                                                      f" [run #{stage} of a sequence of runs in one interpreter, {skind.replace(':', ' (', 1) + ')' if ':' in skind else skind}, prime of {byte_class(p)[:-6]}]" if src == "faulted" else
                                                                      f" [export #{stage} of a staged trace, prime of {byte_class(p)[:-6]}]" if stage else
                                                                      f" [prime of {byte_class(p)[:-6]}]"), payload))
        if src == "program":
            last_program_line = line
        if len(ex.samples) < 5 and cons:
            ex.samples.append(line[:600])
    return ex


def replay(ctx, payload):
    w = common.Worker("snarkjs", "worker_files.py")
    try:
        r = payload["replay"]
        rc = 0
        for l in ([r["previous_line_in_the_same_process"]] if "previous_line_in_the_same_process" in r else []) + [r["line"]]:
            o = w.run([l])[0]
            print(o[:3000])
            if l.startswith(("JS|", "JF|")):
                # re-judge every export against the trace the line installs (independent decoder only)
                import json
                f = l.split("|", 3); spec = json.loads(f[3]); p = int(f[2])
                inst = accumulated(spec) if l.startswith("JS|") else [accumulated([st])[0] for st in spec["runs"]]
                for k, st in enumerate(json.loads(o.split("|", 3)[3])):
                    if "!raised" in st["files"]:
                        print(f"export #{k + 1}: prove() raised"); continue
                    try:
                        bad = r1csread.check(r1csread.read_wtns(bytes.fromhex(st["files"]["witness.wtns"])),
                                             r1csread.read_r1cs(bytes.fromhex(st["files"]["circuit.r1cs"])), p,
                                             *parse_trace(["", "", ""] + inst[k].split("|")))
                    except (r1csread.FormatError, KeyError) as e:
                        bad = [("malformed", str(e))]
                    print(f"export #{k + 1}:", bad or "decodes to the installed trace")
                    rc = 1 if bad else rc
    finally:
        w.close()
    return rc
