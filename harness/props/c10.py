"""C10 — snarkjs files encode exactly the traced circuit and a valid witness."""
from .. import common, r1csread
from ..framework import Exploration, Violation
from ..gen import progs

ASSUMPTIONS = ["the real snarkjsbackend.prove() is run in a scratch directory; the files are decoded by harness/r1csread.py, written "
               "from the iden3 format description and sharing no code with the writer or the Lean model; snarkjs itself is absent",
               "the Lean encoder is fed the trace recorded from the real run (dict order, unreduced coefficients) and must reproduce "
               "the bytes of both files"]
PARTIAL = []
P = common.BN128


def direct_traces(rnd, n):
    """traces installed directly into the backend lists: extreme witness values and coefficients"""
    out = []
    for i in range(n):
        npub = rnd.randrange(0, 4); npriv = rnd.randrange(0, 5)
        def val():
            return rnd.choice([0, 1, -1, P - 1, P, P + 1, 2 * P, -P, 2 ** 256 - 1, 2 ** 256, 2 ** 300 + 7, -(2 ** 260),
                               rnd.randrange(P), -rnd.randrange(P), rnd.randrange(2 ** 270)])
        pubs = [val() for _ in range(npub)]; privs = [val() for _ in range(npriv)]
        def lc():
            keys = list(range(-npriv, npub + 1)); rnd.shuffle(keys)
            keys = keys[:rnd.randrange(0, len(keys) + 1)]
            return ",".join(f"{k}:{rnd.choice([0, 1, -1, 2, P, P - 1, -P - 3, rnd.randrange(-2 ** 258, 2 ** 258)])}" for k in keys)
        cons = ";".join("#".join(lc() for _ in range(3)) for _ in range(rnd.randrange(0, 4)))
        out.append(f"JT|d{i}|{P}|{','.join(map(str, pubs))}|{','.join(map(str, privs))}|{cons}")
    return out


def parse_trace(f):
    pubs = [int(x) for x in f[3].split(",") if x]; privs = [int(x) for x in f[4].split(",") if x]
    cons = []
    for c in [c for c in f[5].split(";") if c]:
        cons.append([[(int(kv.split(":")[0]), int(kv.split(":")[1])) for kv in l.split(",") if kv] for l in c.split("#")])
    return pubs, privs, cons


def value_class(v, p):
    return "neg" if v < 0 else "wide" if v >= 2 ** 256 else "ge-p" if v >= p else "canonical"


def explore(ctx, extended=False, focus=None):
    ex = Exploration()
    ex.rule = ("(a) programs over the public API traced on the real snarkjs backend, then prove(); (b) traces installed directly with "
               "witness values / coefficients from {0, +-1, p-1, p, p+1, 2p, -p, 2^256-1, 2^256, >2^256, random}, empty and "
               "zero-coefficient linear combinations; for each: bytes of both files vs the Lean encoder run on the recorded trace, "
               "and the independent decoder's checks (well-formedness, canonical elements, decode = trace, satisfaction transfer); "
               "distinct = distinct (source, #pub, #priv, #constraints, witness value classes)")
    n = ctx.n(480, 12000) * (3 if extended else 1)
    cases = progs.generate(ctx.rnd, n, "c10_", mix=[(4, progs.op_case), (2, progs.chain_case), (1, progs.method_case),
                                                    (1, progs.array_case), (1, progs.guarded_case)])
    lines = [c.line() for c in cases] + direct_traces(ctx.rnd, ctx.n(480, 12000) * (3 if extended else 1))
    w = common.Worker("snarkjs", "worker_files.py")
    try:
        outs = w.run(lines)
    finally:
        w.close()
    jl = []
    recs = []
    for line, o in zip(lines, outs):
        f = o.split("|")
        if f[1] == "harness-error":
            raise common.Infra(o[:600])
        p = int(f[2])
        files = dict(x.split("=", 1) for x in f[6:])
        recs.append((line, f, p, files))
        jl.append(f"J|{f[0]}|{p}|{f[3]}|{f[4]}|{f[5]}")
    ml = common.lean_driver(jl)
    for (line, f, p, files), m in zip(recs, ml):
        ex.evaluations += 1
        pubs, privs, cons = parse_trace(f)
        classes = tuple(sorted({value_class(v, p) for v in pubs + privs}))
        src = "direct" if line.startswith("JT") else "program"
        ex.distinct.add((src, len(pubs), len(privs), len(cons), classes))
        ex.count(f"source:{src}")
        for c in classes:
            ex.count(f"witness-class:{c}")
        mf = m.split("|")
        wt_hex, r1_hex = files.get("witness.wtns", ""), files.get("circuit.r1cs", "")
        if len(mf) < 3 or mf[1] != wt_hex or mf[2] != r1_hex:
            which = "witness.wtns" if len(mf) < 3 or mf[1] != wt_hex else "circuit.r1cs"
            ex.disagreements.append({"case": line[:3000], "what": f"bytes of {which} differ from the model's encoder"})
        else:
            ex.traces_validated += 1
        try:
            wt = r1csread.read_wtns(bytes.fromhex(wt_hex)); r1 = r1csread.read_r1cs(bytes.fromhex(r1_hex))
            bad = r1csread.check(wt, r1, p, pubs, privs, cons)
        except r1csread.FormatError as e:
            bad = [("malformed", str(e))]
        if src == "program" and f[1] == "ok" and ",ign=0|" in line and "set ign" not in line and not bad:
            # with C01: the decoded witness of a completed run satisfies the decoded constraints
            def ev(l, wv): return sum(c * wv[i] for i, c in l) % p
            for ci, dc in enumerate(r1["constraints"]):
                if (ev(dc[0], wt["values"]) * ev(dc[1], wt["values"]) - ev(dc[2], wt["values"])) % p != 0:
                    bad.append(("decoded-unsatisfied", f"constraint {ci} of circuit.r1cs is not satisfied by witness.wtns"))
                    break
        for clause, msg in bad:
            ex.violations.append(Violation({"clause": clause}, f"{clause}: {msg}", {"line": line[:5000]}))
        if len(ex.samples) < 5 and cons:
            ex.samples.append(line[:600])
    return ex


def replay(ctx, payload):
    w = common.Worker("snarkjs", "worker_files.py")
    try:
        print(w.run([payload["replay"]["line"]])[0][:3000])
    finally:
        w.close()
    return 0
