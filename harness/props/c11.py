"""C11 — zkinterface files encode the traced circuit; the verifier file has no witness."""
from .. import common, fbread
from ..framework import Exploration, Violation
from ..gen import progs
from . import c10

ASSUMPTIONS = ["the real zkinterface backend code (generic, bellman, bulletproofs) is run with the `flatbuffers` stand-in harness/fbshim "
               "(a port of the Builder methods the generated classes call) because the flatbuffers package is absent; the files are "
               "decoded by harness/fbread.py, written from the FlatBuffers wire-format description and zkinterface.fbs, sharing no "
               "code with the stand-in; with the stand-in the bytes are a valid FlatBuffers encoding but not necessarily identical to "
               "what the real library would produce",
               "the Lean model is the MESSAGE TREE (Model/Zkif.lean): the FlatBuffers byte layout (vtables, alignment, offsets, size "
               "prefix) is not modelled in Lean and is covered by the reader only"]
PARTIAL = ["tree level: all clauses proved; byte level: reader-validated only"]
BACKENDS = {"zkinterface": "zkif_p", "zkifbellman": "bellman_p", "zkifbulletproofs": "bulletproofs_p"}


def vars_str(vs, with_bl):
    ids = ",".join(str(i) for i, _, _ in vs); vals = ",".join(str(v) for _, v, _ in vs)
    return ids, vals


def file_str(buf, BL):
    """canonical text of a decoded file, same shape as lean/PysnarkModel/Driver/ProtoZkif.lean"""
    out = ""
    for m in fbread.messages(buf):
        if m[0] == "header":
            ids, vals = vars_str(m[1], True)
            out += f"H(ids={ids};vals={vals};bl={m[1][0][2] if m[1] else BL};free={m[2]};max={m[3]})"
        elif m[0] == "witness":
            ids, vals = vars_str(m[1], True)
            out += f"W(ids={ids};vals={vals};bl={m[1][0][2] if m[1] else BL})"
        elif m[0] == "constraints":
            out += "C(" + ";".join("#".join(",".join(f"{i}:{v}" for i, v, _ in l) for l in c) for c in m[1]) + ")"
        else:
            out += f"?({m})"
    return out


def check_files(comp, circ, p, pubs, privs, cons):
    """the clauses of C11 on the decoded trees; returns list of (clause, message)"""
    bad = []
    n, m_ = len(pubs), len(privs)
    cm = fbread.messages(comp); ci = fbread.messages(circ)
    if [x[0] for x in cm] != ["header", "witness", "constraints"]:
        bad.append(("messages", f"computation.zkif holds {[x[0] for x in cm]}"))
    if [x[0] for x in ci] != ["header", "constraints"]:
        bad.append(("circuit-has-witness" if any(x[0] == "witness" for x in ci) else "messages", f"circuit.zkif holds {[x[0] for x in ci]}"))
    if bad:
        return bad
    BL = (p.bit_length() + 7) // 8
    for name, msgs in (("computation", cm), ("circuit", ci)):
        h = msgs[0]
        if [i for i, _, _ in h[1]] != list(range(1, n + 1)): bad.append(("header-ids", f"{name}: instance ids {[i for i, _, _ in h[1]][:6]}"))
        if [v for _, v, _ in h[1]] != [x % p for x in pubs]: bad.append(("header-values", f"{name}: instance values differ from the public values mod p"))
        if any(k != BL for _, _, k in h[1]): bad.append(("element-size", f"{name}: element size"))
        if h[2] != n + m_ + 1: bad.append(("free-variable-id", f"{name}: free_variable_id {h[2]} != {n + m_ + 1}"))
        if h[3] != p - 1: bad.append(("field-maximum", f"{name}: field_maximum is not p-1"))
        cs = msgs[-1][1]
        want = [[[(k if k >= 0 else n - k, v % p) for k, v in l] for l in c] for c in cons]
        got = [[[(i, v) for i, v, _ in l] for l in c] for c in cs]
        if got != want: bad.append(("constraint-decode", f"{name}: decoded constraints differ from the traced ones"))
        if any(v >= p for c in cs for l in c for _, v, _ in l): bad.append(("canonical-coefficient", f"{name}: coefficient not below p"))
    w = cm[1]
    if [i for i, _, _ in w[1]] != list(range(n + 1, n + m_ + 1)): bad.append(("witness-ids", f"witness ids {[i for i, _, _ in w[1]][:6]}"))
    if [v for _, v, _ in w[1]] != [x % p for x in privs]: bad.append(("witness-values", "witness values differ from the private values mod p"))
    # satisfaction transfer
    asg = {0: 1}
    asg.update({i: v for i, v, _ in cm[0][1]}); asg.update({i: v for i, v, _ in w[1]})
    rec = [1] + list(pubs) + list(privs)
    def evd(l): return sum(v * asg.get(i, 0) for i, v, _ in l) % p
    def evr(l): return sum(v * rec[k if k >= 0 else n - k] for k, v in l) % p
    for idx, (dc, tc) in enumerate(zip(cm[2][1], cons)):
        sd = (evd(dc[0]) * evd(dc[1]) - evd(dc[2])) % p == 0
        sr = (evr(tc[0]) * evr(tc[1]) - evr(tc[2])) % p == 0
        if sd != sr:
            bad.append(("satisfaction", f"constraint {idx}: decoded {'sat' if sd else 'unsat'}, recorded {'sat' if sr else 'unsat'}")); break
    return bad


def explore(ctx, extended=False, focus=None):
    ex = Exploration()
    ex.rule = ("for each of the three field configurations: programs traced on the real backend then prove(); traces installed directly "
               "with extreme witness values/coefficients; pairs of traces with equal public values and shape but different private "
               "values (circuit.zkif must be byte-identical); decoded trees vs the Lean model and vs the clause checks; distinct = "
               "(backend, source, #pub, #priv, #constraints, value classes)")
    nprog = ctx.n(120, 3200); ndir = ctx.n(120, 3200)
    for be, key in BACKENDS.items():
        p = ctx.consts[key] if ctx.consts and ctx.consts.get(key) else None
        w = common.Worker(be, "worker_files.py")
        try:
            if not p:
                ex.disagreements.append({"backend": be, "what": "modulus could not be extracted from the source"})
                p = int(w.run(["M|m"])[0].split("|")[1])
            cases = progs.generate(ctx.rnd, nprog, f"c11{be}_", mix=[(4, progs.op_case), (2, progs.chain_case), (1, progs.array_case)], p=p)
            lines = [c.line() for c in cases]
            direct = [l.replace(f"|{common.BN128}|", f"|{p}|") for l in c10.direct_traces(ctx.rnd, ndir)]
            # twins: same pubs and constraints, other private values
            twins = []
            for l in direct[:ndir // 2]:
                f = l.split("|")
                privs = [x for x in f[4].split(",") if x]
                f[4] = ",".join(str(ctx.rnd.randrange(-p, 2 * p)) for _ in privs)
                f[1] = f[1] + "t"
                twins.append("|".join(f))
            outs = w.run(lines + direct + twins)
        finally:
            w.close()
        zl = []; recs = []
        for line, o in zip(lines + direct + twins, outs):
            f = o.split("|")
            if f[1] == "harness-error":
                raise common.Infra(o[:600])
            files = dict(x.split("=", 1) for x in f[6:])
            recs.append((line, f, files))
            zl.append(f"Z|{f[0]}|{f[2]}|{f[3]}|{f[4]}|{f[5]}")
        ml = common.lean_driver(zl)
        circ_by_id = {}
        for (line, f, files), m in zip(recs, ml):
            ex.evaluations += 1
            pubs, privs, cons = c10.parse_trace(f)
            pp = int(f[2])
            src = "direct" if line.startswith("JT") else "program"
            ex.count(f"backend:{be}"); ex.count(f"source:{src}")
            ex.distinct.add((be, src, len(pubs), len(privs), len(cons), tuple(sorted({c10.value_class(v, pp) for v in pubs + privs}))))
            comp = bytes.fromhex(files.get("computation.zkif", "")); circ = bytes.fromhex(files.get("circuit.zkif", ""))
            circ_by_id[f[0]] = circ
            BL = (pp.bit_length() + 7) // 8
            try:
                impl = f"{f[0]}|{file_str(comp, BL)}|{file_str(circ, BL)}"
                bad = check_files(comp, circ, pp, pubs, privs, cons)
                if pp != p:
                    bad.append(("modulus", f"backend {be} works modulo {pp}, its source names {p}"))
                from .c13 import CURVE
                if pp != CURVE[be]:
                    bad.append(("field", f"field maximum {pp - 1} + 1 is not the scalar-field order of the curve of {be}"))
            except Exception as e:
                impl = f"{f[0]}|undecodable: {type(e).__name__}: {e}"
                bad = [("malformed", f"{type(e).__name__}: {e}")]
            if impl != m:
                ex.disagreements.append({"backend": be, "line": line[:1500], "impl": impl[:400], "model": m[:400]})
            else:
                ex.traces_validated += 1
            for clause, msg in bad:
                ex.violations.append(Violation({"clause": clause, "backend": be}, f"{be}: {clause}: {msg}", {"backend": be, "line": line[:4000]}))
            if len(ex.samples) < 4 and cons:
                ex.samples.append({"backend": be, "line": line[:400]})
        for tid, circ in circ_by_id.items():
            if tid.endswith("t") and tid[:-1] in circ_by_id and circ_by_id[tid[:-1]] != circ:
                ex.violations.append(Violation({"clause": "circuit-depends-on-witness", "backend": be},
                                               f"{be}: circuit.zkif differs between two runs with equal public values and different private values",
                                               {"backend": be, "id": tid}))
    return ex


def replay(ctx, payload):
    r = payload["replay"]
    w = common.Worker(r["backend"], "worker_files.py")
    try:
        print(w.run([r["line"]])[0][:3000])
    finally:
        w.close()
    return 0
