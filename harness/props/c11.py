"""C11 — zkinterface files encode the traced circuit; the verifier file has no witness."""
from .. import common, fbread
from ..framework import Exploration, Violation
from ..gen import progs
from . import c10

ASSUMPTIONS = ["the real zkinterface backend code (generic, bellman, bulletproofs) is run with the `flatbuffers` stand-in harness/fbshim "
               "(a port of the Builder methods the generated classes call) because the flatbuffers package is absent; the files are "
               "decoded by harness/fbread.py, written from the FlatBuffers wire-format description and zkinterface.fbs, sharing no "
               "code with the stand-in; with the stand-in the bytes are a valid FlatBuffers encoding but not necessarily identical to "
               "what the real library would produce",
               "the Lean model is the MESSAGE TREE (Model/Zkif.lean): the FlatBuffers byte layout (vtables, alignment, offsets, size "
               "prefix) is not modelled in Lean and is covered by the reader only"]
ASSUMPTIONS += ["a file may hold SEVERAL ConstraintSystem messages (zkinterface allows that): the reader accepts any number of them after the "
                "header (and witness) and the clause is `the constraint messages, concatenated in file order, decode to exactly the traced "
                "constraints`; for the comparison with the model (which, like the pinned writer, emits one message) consecutive constraint "
                "messages of the decoded file are merged",
                "traces go through the backend's own entry points pubval()/privval()/add_constraint(); every run includes a few LARGE traces "
                "(1001-2600 constraints, around and well above 1000/2000) per field configuration and staged traces (2-4 exports of one growing "
                "trace in one process and one directory: stages adding wires and constraints / only wires / only constraints / nothing), "
                "judged after every export; a file that is absent after prove(), or byte-identical to the previous export although the trace "
                "grew, is a violation (files-not-written / stale-files), never an infrastructure error"]
ASSUMPTIONS += ["every export of a staged / faulted / several-fields run is judged against the trace the HARNESS installed (accumulated from the case "
                "line), never against the backend's in-memory lists read back after an earlier prove()",
                "ONE trace exported under SEVERAL fields in one interpreter (bn128, bls12-381, curve25519 order in every order, the field switched "
                "between exports with set_modulus() or by importing / reloading the field module whose body calls it, which is all "
                "backendbellman / backendbulletproofs do): the linear combinations are built with the backend's own LinearCombination operators "
                "(`*` by an integer, `+`, `-`, unary minus) from the objects pubval()/privval()/one() return, expected coefficients = the integer "
                "arithmetic of the case line; every export must decode to that trace reduced modulo the field of THAT export, and constraints "
                "that hold over the integers must be satisfied by the decoded assignment in every field",
                "faults at the write stage (a directory / dangling link under either output name, working directory removed) followed by regular "
                "exports in the same interpreter: the failing prove() is not judged, the exports after it are"]
PARTIAL = ["tree level: all clauses proved; byte level: reader-validated only"]
BACKENDS = {"zkinterface": "zkif_p", "zkifbellman": "bellman_p", "zkifbulletproofs": "bulletproofs_p"}


def vars_str(vs, with_bl):
    ids = ",".join(str(i) for i, _, _ in vs); vals = ",".join(str(v) for _, v, _ in vs)
    return ids, vals


def merged(msgs):
    """consecutive constraint messages merged into one (their concatenation is what they mean)"""
    out = []
    for m in msgs:
        if m[0] == "constraints" and out and out[-1][0] == "constraints":
            out[-1] = ("constraints", list(out[-1][1]) + list(m[1]))
        else:
            out.append(m)
    return out


def file_str(buf, BL):
    """canonical text of a decoded file, same shape as lean/PysnarkModel/Driver/ProtoZkif.lean"""
    out = ""
    for m in merged(fbread.messages(buf)):
        if m[0] == "header":
            ids, vals = vars_str(m[1], True)
            out += f"H(ids={ids};vals={vals};bl={m[1][0][2] if m[1] else BL};free={m[2]};max={m[3]})"
        elif m[0] == "witness":
            ids, vals = vars_str(m[1], True)
            out += f"W(ids={ids};vals={vals};bl={m[1][0][2] if m[1] else BL})"
        elif m[0] == "constraints":
            out += "C(" + ";".join("#".join(",".join(f"{i}:{v}" for i, v, _ in l) for l in c) for c in m[1]) + ")"
        else:
            out += f"?({m})"
    return out


def check_files(comp, circ, p, pubs, privs, cons):
    """the clauses of C11 on the decoded trees; returns list of (clause, message)"""
    bad = []
    n, m_ = len(pubs), len(privs)
    cm_raw = fbread.messages(comp); ci_raw = fbread.messages(circ)
    cm = merged(cm_raw); ci = merged(ci_raw)
    if [x[0] for x in cm] != ["header", "witness", "constraints"]:
        bad.append(("messages", f"computation.zkif holds {[x[0] for x in cm_raw]}"))
    if [x[0] for x in ci] != ["header", "constraints"]:
        bad.append(("circuit-has-witness" if any(x[0] == "witness" for x in ci) else "messages", f"circuit.zkif holds {[x[0] for x in ci_raw]}"))
    if bad:
        return bad
    BL = (p.bit_length() + 7) // 8
    for name, msgs, raw in (("computation", cm, cm_raw), ("circuit", ci, ci_raw)):
        h = msgs[0]
        if [i for i, _, _ in h[1]] != list(range(1, n + 1)): bad.append(("header-ids", f"{name}: instance ids {[i for i, _, _ in h[1]][:6]}"))
        if [v for _, v, _ in h[1]] != [x % p for x in pubs]: bad.append(("header-values", f"{name}: instance values differ from the public values mod p"))
        if any(k != BL for _, _, k in h[1]): bad.append(("element-size", f"{name}: element size"))
        if h[2] != n + m_ + 1: bad.append(("free-variable-id", f"{name}: free_variable_id {h[2]} != {n + m_ + 1}"))
        if h[3] != p - 1: bad.append(("field-maximum", f"{name}: field_maximum is not p-1"))
        cs = msgs[-1][1]
        want = [[[(k if k >= 0 else n - k, v % p) for k, v in l] for l in c] for c in cons]
        got = [[[(i, v) for i, v, _ in l] for l in c] for c in cs]
        if got != want:
            nmsg = sum(1 for x in raw if x[0] == "constraints")
            k = next((i for i, (a, b) in enumerate(zip(got, want)) if a != b), min(len(got), len(want)))
            bad.append(("constraint-decode", f"{name}: the {nmsg} constraint message(s), concatenated, hold {len(got)} constraints, {len(want)} were "
                                             f"traced; first difference at constraint {k}"))
        if any(v >= p for c in cs for l in c for _, v, _ in l): bad.append(("canonical-coefficient", f"{name}: coefficient not below p"))
    w = cm[1]
    if [i for i, _, _ in w[1]] != list(range(n + 1, n + m_ + 1)): bad.append(("witness-ids", f"witness ids {[i for i, _, _ in w[1]][:6]}"))
    if [v for _, v, _ in w[1]] != [x % p for x in privs]: bad.append(("witness-values", "witness values differ from the private values mod p"))
    # satisfaction transfer
    asg = {0: 1}
    asg.update({i: v for i, v, _ in cm[0][1]}); asg.update({i: v for i, v, _ in w[1]})
    rec = [1] + list(pubs) + list(privs)
    def evd(l): return sum(v * asg.get(i, 0) for i, v, _ in l) % p
    def evr(l): return sum(v * rec[k if k >= 0 else n - k] for k, v in l) % p
    for idx, (dc, tc) in enumerate(zip(cm[2][1], cons)):
        sd = (evd(dc[0]) * evd(dc[1]) - evd(dc[2])) % p == 0
        sr = (evr(tc[0]) * evr(tc[1]) - evr(tc[2])) % p == 0
        if sd != sr:
            bad.append(("satisfaction", f"constraint {idx}: decoded {'sat' if sd else 'unsat'}, recorded {'sat' if sr else 'unsat'}")); break
    return bad


def large_traces(rnd, p, sizes, tag):
    """directly installed traces with MORE THAN 1000 constraints (sparse: 0-2 terms per linear combination, so they stay fast)"""
    out = []
    for i, nc in enumerate(sizes):
        npub = rnd.randrange(1, 4); npriv = rnd.randrange(2, 8)
        pubs = [c10.rand_val(rnd, p) for _ in range(npub)]; privs = [c10.rand_val(rnd, p) for _ in range(npriv)]
        def lc():
            ks = rnd.sample(range(-npriv, npub + 1), rnd.randrange(0, 3))
            return ",".join(f"{k}:{rnd.choice([1, -1, 2, p - 1, rnd.randrange(-p, 2 * p)])}" for k in ks)
        cons = ";".join("#".join(lc() for _ in range(3)) for _ in range(nc))
        out.append(f"JT|{tag}{i}|{p}|{','.join(map(str, pubs))}|{','.join(map(str, privs))}|{cons}")
    return out


CURVES3 = [common.BN128, common.BLS381, common.ED25519]


def multi_field_traces(rnd, n, p0, tag="m"):
    """one trace built with the backend's LC algebra while p0 is current, then exported under 2-4 fields; returns (line, expected
    'pubs|privs|cons' computed here with integer arithmetic, fields, how)"""
    import json
    out = []
    for i in range(n):
        npub = rnd.randrange(1, 4); npriv = rnd.randrange(1, 4)
        def val(): return rnd.choice([0, 1, -1, 2, -3, 7, rnd.randrange(-50, 50), rnd.randrange(-2 ** 64, 2 ** 64), p0 - 1, p0 + 2, -p0])
        pubs = [val() for _ in range(npub)]; privs = [val() for _ in range(npriv)]
        def wv(k): return 1 if k == 0 else pubs[k - 1] if k > 0 else privs[-k - 1]
        def coef(): return rnd.choice([1, 1, -1, 2, 3, -5, p0 - 1, p0, p0 + 1, -p0 - 3, rnd.randrange(-2 ** 70, 2 ** 70)])
        def lcspec(lo=0, hi=3):
            return [[rnd.choice([1, -1]), rnd.randrange(-len(privs), npub + 1), coef()] for _ in range(rnd.randrange(lo, hi + 1))]
        def lcval(sp): return sum(sg * c * wv(k) for sg, k, c in sp)
        cons = []
        for _ in range(rnd.randrange(1, 5)):
            a, b = lcspec(1), lcspec(1)
            if rnd.random() < 0.75:
                # holds over the INTEGERS (hence in every field): a fresh private wire carries a*b - rest, and enters c with + or -
                rest = lcspec(0, 2); sg = rnd.choice([1, -1])
                privs.append(sg * (lcval(a) * lcval(b) - lcval(rest)))
                c = rest + [[sg, -len(privs), 1]]; rnd.shuffle(c)
            else:
                c = lcspec()
            cons.append([a, b, c])
        def flat(sp):
            d = {}
            for sg, k, c in sp:
                d[k] = d.get(k, 0) + sg * c
            return ",".join(f"{k}:{v}" for k, v in d.items())
        expected = f"{','.join(map(str, pubs))}|{','.join(map(str, privs))}|" + ";".join("#".join(flat(l) for l in c) for c in cons)
        others = [q for q in CURVES3 if q != p0]; rnd.shuffle(others)
        fields = rnd.choice([[p0] + others, others + [p0], others, [others[0], p0, others[1]], [p0, others[0], p0], [others[0]]])
        how = "import" if i % 2 else "set_modulus"
        line = f"JM|{tag}{i}|{p0}|" + json.dumps({"pub": pubs, "priv": privs, "cons": cons, "fields": fields, "how": how})
        out.append((line, expected, fields, how))
    return out


def size_class(n):
    return "0" if n == 0 else "1-1000" if n <= 1000 else "1001-2000" if n <= 2000 else "above-2000"


def judge(ex, be, line, p, tf, files, model_line, stage=None, prev_files=None, prev_trace=None, own_field=True):
    """one export: decoded trees vs the model's, then the clause checks; returns list of (clause, message)"""
    pubs, privs, cons = c10.parse_trace(tf)
    pp = int(tf[2])
    BL = (pp.bit_length() + 7) // 8
    comp_hex, circ_hex = files.get("computation.zkif"), files.get("circuit.zkif")
    if "!raised" in files:
        bad = [("export-raised", "prove() raised " + bytes.fromhex(files["!raised"]).decode(errors="replace")[:200])]
        impl = f"{tf[0]}|export raised"
    elif comp_hex is None or circ_hex is None:
        missing = [n for n, h in (("computation.zkif", comp_hex), ("circuit.zkif", circ_hex)) if h is None]
        bad = [("files-not-written", f"after prove() there is no {' / '.join(missing)} in the working directory")]
        impl = f"{tf[0]}|not written"
    else:
        comp = bytes.fromhex(comp_hex); circ = bytes.fromhex(circ_hex)
        try:
            impl = f"{tf[0]}|{file_str(comp, BL)}|{file_str(circ, BL)}"
            bad = check_files(comp, circ, pp, pubs, privs, cons)
            if pp != p:
                bad.append(("modulus", f"backend {be} works modulo {pp}, its source names {p}"))
            from .c13 import CURVE
            if own_field and pp != CURVE[be]:
                bad.append(("field", f"field maximum {pp - 1} + 1 is not the scalar-field order of the curve of {be}"))
        except Exception as e:
            impl = f"{tf[0]}|undecodable: {type(e).__name__}: {e}"
            bad = [("malformed", f"{type(e).__name__}: {e}")]
        if bad and prev_files is not None and prev_trace != tf[3:6] and \
                (comp_hex, circ_hex) == (prev_files.get("computation.zkif"), prev_files.get("circuit.zkif")):
            bad = [("stale-files", "the trace grew since the previous export, prove() was called again, and both files are byte-identical "
                    "to the previous export (" + bad[0][0] + ": " + bad[0][1] + ")")]
    if impl != model_line:
        ex.disagreements.append({"backend": be, "line": line[:1500], "stage": stage, "impl": impl[:400], "model": model_line[:400]})
    else:
        ex.traces_validated += 1
    return bad, circ_hex


def explore(ctx, extended=False, focus=None):
    import json
    ex = Exploration()
    ex.rule = ("for each of the three field configurations: programs traced on the real backend then prove(); traces installed through "
               "pubval/privval/add_constraint with extreme witness values/coefficients; a few large traces (1001-2600 constraints); staged "
               "traces (2-4 exports of one growing trace in one process: wires+constraints / wires only / constraints only / nothing new); "
               "one trace built with the backend's LinearCombination operators and exported under 1-3 fields in one interpreter (field switched by "
               "set_modulus / by importing the field module), each export decoded against the installed trace modulo ITS field, integer "
               "identities satisfied in every field; runs failing at the write stage followed by regular exports; "
               "pairs of traces with equal public values and shape but different private "
               "values (circuit.zkif must be byte-identical); decoded trees vs the Lean model and vs the clause checks; distinct = "
               "(backend, source, #pub, #priv, #constraints, value classes)")
    nprog = ctx.n(120, 3200) * (2 if extended else 1); ndir = ctx.n(120, 3200) * (2 if extended else 1)
    for be, key in BACKENDS.items():
        p = ctx.consts[key] if ctx.consts and ctx.consts.get(key) else None
        w = common.Worker(be, "worker_files.py")
        try:
            if not p:
                ex.disagreements.append({"backend": be, "what": "modulus could not be extracted from the source"})
                p = int(w.run(["M|m"])[0].split("|")[1])
            cases = progs.generate(ctx.rnd, nprog, f"c11{be}_", mix=[(4, progs.op_case), (2, progs.chain_case), (1, progs.array_case)], p=p)
            lines = [c.line() for c in cases]
            direct = c10.direct_traces(ctx.rnd, ndir, p=p)
            # twins: same pubs and constraints, other private values
            twins = []
            for l in direct[:ndir // 2]:
                f = l.split("|")
                privs = [x for x in f[4].split(",") if x]
                f[4] = ",".join(str(ctx.rnd.randrange(-p, 2 * p)) for _ in privs)
                f[1] = f[1] + "t"
                twins.append("|".join(f))
            rnd = ctx.rnd
            sizes = [rnd.choice([1001, 1002, 1100]), rnd.randrange(1100, 2000), rnd.choice([2001, rnd.randrange(2001, 2600)])]
            if ctx.thorough() or extended:
                sizes += [1000, 2000, 3001, rnd.randrange(3000, 5000)]
            large = large_traces(rnd, p, sizes, "big")
            staged = c10.staged_traces(rnd, ctx.n(40, 800) * (2 if extended else 1), p=p)
            kinds_of = {l.split("|")[1]: k for l, k in staged}
            multi = multi_field_traces(rnd, ctx.n(40, 600) * (2 if extended else 1), p)
            multi_of = {l.split("|")[1]: (e, fs, how) for l, e, fs, how in multi}
            faulted = c10.faulted_traces(rnd, ctx.n(15, 200) * (2 if extended else 1), p=p, names=("computation.zkif", "circuit.zkif"))
            faults_of = {l.split("|")[1]: lab for l, lab in faulted}
            all_lines = lines + direct + twins + large + [l for l, _ in staged] + [l for l, _, _, _ in multi] + [l for l, _ in faulted]
            outs = w.run(all_lines)
        finally:
            w.close()
        zl = []; recs = []
        for line, o in zip(all_lines, outs):
            f = o.split("|")
            if len(f) < 4 or f[1] == "harness-error":
                raise common.Infra(o[:600])
            if line.startswith("JS|"):
                prev_files = prev_trace = None
                installed = c10.accumulated(json.loads(line.split("|", 3)[3]))
                for k, st in enumerate(json.loads(o.split("|", 3)[3])):
                    tf = [f[0], f[1], f[2]] + installed[k].split("|")       # what was installed, not what the backend's lists say later
                    recs.append((line, "staged", tf, st["files"], k + 1, prev_files, prev_trace, kinds_of[f[0]][k]))
                    zl.append(f"Z|{f[0]}|{f[2]}|{installed[k]}")
                    prev_files, prev_trace = st["files"], tf[3:6]
                continue
            if line.startswith("JM|"):
                expected, fields, how = multi_of[f[0]]
                prev_q = int(f[2])
                for k, st in enumerate(json.loads(o.split("|", 3)[3])):
                    q = fields[k]
                    tf = [f[0], f[1], str(st["p"])] + expected.split("|")
                    recs.append((line, "several-fields", tf, st["files"], k + 1, None, None,
                                 ("traced-under-this-field" if q == int(f[2]) and k == 0 else "back-to-the-tracing-field" if q == int(f[2])
                                  else "field-switched-after-tracing", q, how)))
                    zl.append(f"Z|{f[0]}|{st['p']}|{expected}")
                continue
            if line.startswith("JF|"):
                runs = json.loads(line.split("|", 3)[3])["runs"]; last_fault = None
                for k, st in enumerate(json.loads(o.split("|", 3)[3])):
                    lab = faults_of[f[0]][k]
                    if lab is not None and "!raised" in st["files"]:
                        last_fault = lab; ex.count(f"fault:{lab}:prove-raised"); continue
                    tr = c10.accumulated([runs[k]])[0]
                    tf = [f[0], f[1], f[2]] + tr.split("|")
                    recs.append((line, "faulted", tf, st["files"], k + 1, None, None,
                                 "after-failed-export:" + last_fault if last_fault else "before-any-fault"))
                    zl.append(f"Z|{f[0]}|{f[2]}|{tr}")
                continue
            files = dict(x.split("=", 1) for x in f[6:] if "=" in x)
            recs.append((line, "direct" if line.startswith("JT") else "program", f, files, None, None, None, None))
            zl.append(f"Z|{f[0]}|{f[2]}|{f[3]}|{f[4]}|{f[5]}")
        ml = common.lean_driver(zl)
        circ_by_id = {}
        last_program_line = None
        for (line, src, tf, files, stage, prev_files, prev_trace, skind), m in zip(recs, ml):
            ex.evaluations += 1
            pubs, privs, cons = c10.parse_trace(tf)
            pp = int(tf[2])
            ex.count(f"backend:{be}"); ex.count(f"source:{src}"); ex.count(f"constraints:{size_class(len(cons))}")
            want_p = p; multi_info = None
            if src == "several-fields":
                multi_info = skind; skind, want_p, how = multi_info
                ex.count(f"several-fields:{skind}:{how}")
            elif src == "faulted":
                ex.count(f"faulted:{skind}")
            elif stage:
                ex.count(f"stage:{'first' if stage == 1 else skind}")
            ex.distinct.add((be, src, len(pubs), len(privs), len(cons), tuple(sorted({c10.value_class(v, pp) for v in pubs + privs}))))
            bad, circ_hex = judge(ex, be, line, want_p, tf, files, m, stage, prev_files, prev_trace, own_field=multi_info is None)
            if multi_info and not bad:
                # constraints that hold over the integers hold in the field of this export: evaluate the DECODED system on the decoded assignment
                cmsg = merged(fbread.messages(bytes.fromhex(files["computation.zkif"])))
                asg = {0: 1}; asg.update({i: v for i, v, _ in cmsg[0][1]}); asg.update({i: v for i, v, _ in cmsg[1][1]})
                rec = [1] + pubs + privs
                def evi(l): return sum(v * rec[k if k >= 0 else len(pubs) - k] for k, v in l)
                def evd(l): return sum(v * asg.get(i, 0) for i, v, _ in l) % want_p
                for idx, (dc, tc) in enumerate(zip(cmsg[2][1], cons)):
                    if evi(tc[0]) * evi(tc[1]) == evi(tc[2]) and (evd(dc[0]) * evd(dc[1]) - evd(dc[2])) % want_p:
                        bad.append(("integer-identity-unsatisfied", f"constraint {idx} holds over the integers on the installed values but the "
                                    f"decoded assignment does not satisfy the decoded constraint modulo the field of this export"))
                        break
            if stage is None:
                circ_by_id[tf[0]] = circ_hex
            for clause, msg in bad:
                sig = {"clause": clause, "backend": be, "constraints": size_class(len(cons))}
                payload = {"backend": be, "line": line if line.startswith(("JT|big", "JS|", "JM|", "JF|")) else line[:4000]}
                if src == "several-fields":
                    sig["export"] = "several-fields:" + skind; sig["switch"] = how
                    payload["stage"] = stage; payload["field_of_this_export"] = want_p
                elif src == "faulted":
                    sig["export"] = skind; payload["stage"] = stage
                elif stage:
                    sig["export"] = "first" if stage == 1 else "repeated:" + skind
                    payload["stage"] = stage
                if clause in ("files-not-written", "export-raised", "stale-files"):
                    sig["dev"] = clause
                if clause in ("files-not-written", "export-raised") and src == "program" and last_program_line:
                    payload["previous_line_in_the_same_process"] = last_program_line[:5000]
                ex.violations.append(Violation(sig, f"{be}: {clause}: {msg}" + (f" [export #{stage} of one trace under several fields: {skind}, field of this export {want_p}, switched by {how}]" if src == "several-fields" else
                                                                                f" [run #{stage} of a sequence of runs in one interpreter: {skind}]" if src == "faulted" else
                                                                                f" [export #{stage} of a staged trace: {skind}]" if stage else ""), payload))
            if src == "program":
                last_program_line = line
            if len(ex.samples) < 4 and cons and len(line) < 2000:
                ex.samples.append({"backend": be, "line": line[:400]})
        for tid, circ in circ_by_id.items():
            if tid.endswith("t") and tid[:-1] in circ_by_id and circ_by_id[tid[:-1]] != circ:
                ex.violations.append(Violation({"clause": "circuit-depends-on-witness", "backend": be},
                                               f"{be}: circuit.zkif differs between two runs with equal public values and different private values",
                                               {"backend": be, "id": tid}))
    return ex


def replay(ctx, payload):
    r = payload["replay"]
    w = common.Worker(r["backend"], "worker_files.py")
    try:
        for l in ([r["previous_line_in_the_same_process"]] if "previous_line_in_the_same_process" in r else []) + [r["line"]]:
            print(w.run([l])[0][:3000])
    finally:
        w.close()
    return 0
