"""C12 — qaptools equation/wire/I-O files are consistent and split faithfully."""
import concurrent.futures as cf
import hashlib, json, os, re, shutil, subprocess, tempfile
from collections import Counter

from .. import common
from ..framework import Exploration, Violation

ASSUMPTIONS = [
    "the qaptools binaries are absent: the real backend runs with failing stub executables (QAPTOOLS_BIN), one fresh interpreter per "
    "case in an empty scratch directory, so import-time initialisation, buffering of the equation file and the read-back in prove() "
    "are those of a user script; nothing after the first tool invocation of prove() runs",
    "the Lean model is fed the backend-level trace recorded from the real run (privval/pubval/add_constraint calls made by the program, "
    "and per @subqap call the leaves of its arguments and results with class, value and wire expression); the copies, the "
    "ensure_single wires and equations, the block/glue/function lines, all counters and the flush pointer are the model's own and are "
    "compared line by line with pysnark_eqs, pysnark_wires, pysnark_values, pysnark_schedule, pysnark_eqs_<fn> and with the content of "
    "pysnark_eqs that qapsplit actually read; the values of the random wires (delta*, rnd*) are read back from the real wire file",
    "the digest is a parameter of the model, its ARGUMENT is not: Qaptools.digestInput (the lines of the normalised set, rendered with "
    "single blanks, in sorted order, nothing between the lines) is printed by the driver per function; the harness applies hashlib.md5 "
    "to exactly that byte string (utf-8) and compares the first ten hex digits with the signature the real run hands to key generation "
    "(fourth component of qapsplit()'s return value) and with the digests it prints per call",
    "what prove() reads is text: the driver runs qapsplit on the equation file RE-READ from its rendered text (proveText: split at "
    "blanks, names cut at their first '/'), which is the identity for well-formed names (C12_text_file) and reproduces the real "
    "behaviour for function names with '/' (C12_cex_slash_name); a function name with a blank is outside the model (compared up to the "
    "split, counted as unmodelled)",
    "function names: besides names with '/', PAIRS of functions with different bodies whose names differ only in punctuation, in '_'/'-'/'.', "
    "in letter case, in a non-ASCII letter, beyond the 40th character, or by a leading/trailing dot or dash are called in one run (flavour "
    "names): each name has its own pysnark_eqs_<name> holding exactly its normalised equations and the schedule names, per call, the "
    "files of ITS function; names holding a separator of the harness's own line protocol (one of | ; , @ ~ ^ = : #) are judged by the "
    "direct oracle only (counted as unmodelled)",
    "guards: the worker reports runtime.guard (value and wire expression) before a call returns whenever it changed (event g:), the "
    "model's ensure_single writes the two extra lines of a guarded assertion; exceptions: the worker reports a body that raised (event "
    "a), the model pops the frame and keeps the context, as the code does; the context the backend is in after an exception was caught "
    "is read from backend.vc_ctx by the worker (direct observation of the state named in the property's anchors)",
    "calls of one named function whose bodies differ only in the multiplicity of an equation line are ordinary traces for the model "
    "(repeated add_constraint events): they are compared with the model like every other case, none is oracle-only; the oracle counts "
    "lines as a multiset, as the unchanged qapsplit does (duplicate lines are kept, sorted, written and digested)",
    "the signature handed to key generation is observed as the fourth component of the value qapsplit() returns to prove(), which "
    "prove() passes entry by entry to runqapgenf.ensure_ek (with the stub binaries ensure_mkey fails before ensure_ek is reached); "
    "'different equations -> different signature' across runs is checked per function name over all runs of one exploration and "
    "relies on MD5 truncated to 40 bits not colliding on the few thousand multisets of a run",
    "interleaved histories (flavour interleave): calls of one name whose bodies differ (an extra product, another product, one more copy of "
    "a check) separated in file order by calls of other functions, directly and through two different callers that are sub-circuits "
    "themselves; the model's qapsplit compares every call with the FIRST call of its name wherever it sits (C12_same_function clause), "
    "so 'inconsistent-functions' is expected exactly as for adjacent calls; consistent interleavings must not be reported",
    "several proving steps in one process (flavour staged): prove(), more tracing (operations and public values in main, new calls of "
    "functions split before - directly and through a new caller -, calls of new functions, the rest of a body that was in progress, or "
    "nothing), prove() again, 2-3 times; judged by the direct oracle only (the model describes ONE split of one equation file): after "
    "every step the schedule, every pysnark_eqs_<fn> and the signatures equal those of a stateless reference splitter (fresh_split, in "
    "this file) applied to the equation file the step read, and after the last step the files equal those the same program text leaves "
    "in a fresh interpreter with a single prove() (the twin, an ordinary model-compared case); clause `resplit`, modes lines-missing / "
    "lines-duplicated / lines-foreign / spurious-inconsistent-functions / schedule-differs / no-file, `step` first|later",
    "file buffering: only 'an explicit flush makes prior writes visible' is modelled; cases whose unflushed tail exceeds Python's 8 KiB "
    "buffer are compared leniently (on-disk content between the model's flush pointer and the full file) and counted as unmodelled",
]
PARTIAL = [
    "C12_split_ok_partial: the split succeeds for histories whose equations and call arguments/results live in the current context and "
    "whose calls have at least one LinComb argument or result (C12_cex_global_one, C12_cex_uncopied_bool_split, C12_cex_empty_block)",
    "C12_digest_partial: 'different signature whenever the equations differ' relative to injectivity of the digest parameter H "
    "(C12_cex_digest_collision: false for a constant H)",
    "C12_glue_lists_all_partial: the blocks list every argument and result of class LinComb (C12_cex_uncopied_bool: LinCombBool / "
    "LinCombFxp leaves are not listed)",
    "C12_split_complete_partial / C12_glue_equal_partial also cover the code before the two fix: commits (Cfg with either switch off)",
    "C12_split_ok_partial additionally excludes a guard in effect when a call returns and bodies that raise (C12_cex_guard_across, "
    "C12_cex_abort_context); the satisfaction, names, per-function-file, schedule and bracketing theorems hold for ALL histories, those included",
    "C12_function_file_sat, third clause ('the ONE file written for a function holds for EVERY call of it') is relative to the digest "
    "separating the normalised sets of the run (otherwise prove() has compared digests only); first clause (every line of the normalised "
    "set of a call holds for that call) is unconditional",
    "C12_text_file: for histories whose names are well formed (no blank; no '/' in function names / contexts): C12_cex_slash_name",
    "C12_digest_input_not_injective: the digest input does not determine the line list (no separator between lines)",
]
TRUSTED_EXTRA = ["harness/worker_qap.py (records the backend-level trace by wrapping the backend's module-level functions from outside), "
                 "the text-level equation evaluator and multiset comparison in harness/props/c12.py, the stub qaptools executables"]
P = common.BN128
# which code the model describes: "pp" = Cfg.pinned of Model/Qaptools.lean (the single place that says so); two digits
# (flushAtProve, unitCoeff) select another variant for experiments with a repaired scratch copy of pysnark
FLAGS = os.environ.get("VERIF_C12_FLAGS", "pp")


# ------------------------------------------------------------------ generator
BIG = [P - 1, P, P + 5, 2 * P + 3, 2 ** 200 + 17, 2 ** 256 - 1, 2 ** 300 + 9, -(2 ** 130) - 7, -P, -(P - 2), 1 - 2 * P]


class Reg:
    __slots__ = ("kind", "bound")

    def __init__(self, kind, bound):
        self.kind = kind; self.bound = bound      # bound None = unbounded magnitude (no comparisons)


class Gen:
    """programs over the public API of pysnark with @subqap functions; every random choice from one Random"""

    def __init__(self, rnd, flavour):
        self.rnd = rnd; self.flavour = flavour
        self.funcs = {}; self.order = []
        self.raisers = set()            # functions whose body raises: a call yields no register
        self.tags = set()

    def small(self):
        return self.rnd.choice([0, 1, -1, 2, 3, -3, 5, 7, -8, 11, 20, -37, 50])

    def value(self, allow_big=True):
        if allow_big and self.rnd.random() < 0.3:
            self.tags.add("value:big-or-negative-wide")
            return self.rnd.choice(BIG + [self.rnd.randrange(P), -self.rnd.randrange(P), self.rnd.randrange(2 ** 270)]), None
        v = self.small()
        if v < 0: self.tags.add("value:negative")
        return v, 50

    # ---- straight-line code over a register file
    def ring_ops(self, regs, out, n, in_body, pure=False):
        """`pure`: only operations that write no assertion-like equation (nothing a guard in effect would tie to itself)"""
        rnd = self.rnd
        for _ in range(n):
            L = [i for i, r in enumerate(regs) if r.kind == "L"]
            if not L:
                v, b = self.value(); out.append(["priv", v]); regs.append(Reg("L", b)); continue
            c = rnd.random()
            if pure: c = c * 0.82
            a = rnd.choice(L); b = rnd.choice(L)
            def bnd(f, x, y):
                return None if x is None or y is None else min(f(x, y), 2 ** 600)
            if c < 0.12:
                v, bd = self.value(); out.append([rnd.choice(["priv", "priv", "pub"]), v]); regs.append(Reg("L", bd))
            elif c < 0.30:
                out.append(["add", a, b]); regs.append(Reg("L", bnd(lambda x, y: x + y, regs[a].bound, regs[b].bound)))
            elif c < 0.40:
                out.append(["sub", a, b]); regs.append(Reg("L", bnd(lambda x, y: x + y, regs[a].bound, regs[b].bound)))
            elif c < 0.62:
                out.append(["mul", a, b]); regs.append(Reg("L", bnd(lambda x, y: x * y, regs[a].bound, regs[b].bound)))
            elif c < 0.70:
                k = rnd.choice([2, 3, -1, -2, 5, P - 1, 0, 7])
                out.append(["muli", a, k]); regs.append(Reg("L", bnd(lambda x, y: x * y, regs[a].bound, abs(k))))
            elif c < 0.78:
                k = rnd.choice([1, -1, 4, 100, -7])
                out.append(["addi", a, k]); regs.append(Reg("L", bnd(lambda x, y: x + y, regs[a].bound, abs(k))))
            elif c < 0.82:
                out.append(["neg", a]); regs.append(Reg("L", regs[a].bound))
            elif c < 0.92:
                ok = regs[a].bound is not None and regs[b].bound is not None and regs[a].bound + regs[b].bound + 2 < 2 ** 14
                if ok:
                    out.append(["lt", a, b]); regs.append(Reg("B", 1)); self.tags.add("op:lt")
                    out.append(["tolc", len(regs) - 1]); regs.append(Reg("L", 1))
                else:
                    out.append(["add", a, b]); regs.append(Reg("L", bnd(lambda x, y: x + y, regs[a].bound, regs[b].bound)))
            elif c < 0.96 and (not in_body or self.flavour == "one-ctx") and regs[a].bound is not None and regs[b].bound is not None:
                # `==` goes through LinComb.ONE_SAFE: inside a @subqap body only in the flavour that probes it
                out.append(["eq", a, b]); regs.append(Reg("B", 1)); self.tags.add("op:eq" + ("-in-body" if in_body else ""))
                out.append(["tolc", len(regs) - 1]); regs.append(Reg("L", 1))
            elif not in_body:
                out.append(["val", a]); self.tags.add("op:val")

    def new_func(self, nparams_kinds, name=None, pure=False):
        """define a function for parameter kinds (list of 'L'/'B'/'X'); returns its name"""
        rnd = self.rnd
        if name is None:
            name = rnd.choice(["f", "g", "sq", "mix", "h"]) + str(len(self.funcs))
        variants = {}
        nvar = 2 if (self.flavour == "variants") else 1
        for m in range(nvar):
            regs = [Reg(k, 50 if k == "L" else 1) for k in nparams_kinds]
            body = []
            if self.flavour == "empty" and not nparams_kinds:
                v, _ = self.value(False); body.append(["priv", v]); regs.append(Reg("L", 50))
            if self.flavour == "one-ctx":
                L = [i for i, r in enumerate(regs) if r.kind == "L"]
                if L:
                    body.append(["eqi", rnd.choice(L), self.small()]); regs.append(Reg("B", 1)); self.tags.add("op:eqi-in-body")
                    body.append(["tolc", len(regs) - 1]); regs.append(Reg("L", 1))
            if self.flavour == "kinds":
                Bs = [i for i, r in enumerate(regs) if r.kind == "B"]
                if len(Bs) >= 1 and rnd.random() < 0.6:
                    body.append(["bnot", Bs[0]]); regs.append(Reg("B", 1))
                if len(Bs) >= 2 and rnd.random() < 0.6:
                    body.append(["band", Bs[0], Bs[1]]); regs.append(Reg("B", 1)); self.tags.add("op:band-on-uncopied")
            # nested call of an earlier function
            callable_ = [n for n in self.order if n not in self.raisers]
            if callable_ and rnd.random() < (0.45 if self.flavour in ("nested", "calls") else 0.15):
                self.ring_ops(regs, body, rnd.randrange(0, 2), True, pure)
                self.emit_call(regs, body, rnd.choice(callable_), True)
                self.tags.add("call:nested")
            self.ring_ops(regs, body, rnd.randrange(1, 4) + m, True, pure)
            ret = self.ret_spec(regs)
            if pure and rnd.random() < 0.6:
                ret = rnd.choice([i for i, r in enumerate(regs) if r.kind == "L"])
            variants[str(m)] = {"body": body, "ret": ret}
        self.funcs[name] = {"params": nparams_kinds, "variants": variants}
        self.order.append(name)
        return name

    def ret_spec(self, regs):
        rnd = self.rnd
        if self.flavour == "empty":
            return {"int": 4}
        pool = [i for i, r in enumerate(regs) if r.kind == "L"]
        if self.flavour == "kinds":
            pool += [i for i, r in enumerate(regs) if r.kind in ("B", "X")]
        if self.flavour == "coef" and rnd.random() < 0.3:
            self.tags.add("ret:const"); return {"tuple": [rnd.choice(pool), {"int": 3}]} if rnd.random() < 0.5 else rnd.choice(pool)
        c = rnd.random()
        if c < 0.5 or len(pool) < 2:
            return rnd.choice(pool)
        picks = [rnd.choice(pool) for _ in range(rnd.randrange(2, 4))]
        if c < 0.75:
            self.tags.add("ret:tuple"); return {"tuple": picks}
        if c < 0.9:
            self.tags.add("ret:list-nested"); return {"list": [picks[0], {"tuple": picks[1:]}]}
        self.tags.add("ret:with-int"); return {"tuple": picks + [{"int": 9}]}

    def arg_for(self, regs, out, kind):
        """produce (in `out`) a register of class `kind` suitable as an argument; returns its index"""
        rnd = self.rnd
        if kind == "B":
            out.append(["privb", rnd.choice([0, 1])]); regs.append(Reg("B", 1)); self.tags.add("arg:LinCombBool"); return len(regs) - 1
        if kind == "X":
            out.append(["privx", rnd.choice([0, 1, 3, -2])]); regs.append(Reg("X", None)); self.tags.add("arg:LinCombFxp"); return len(regs) - 1
        L = [i for i, r in enumerate(regs) if r.kind == "L" and r.bound is not None and r.bound <= 50]
        if not L or rnd.random() < 0.3:
            out.append(["priv", self.small()]); regs.append(Reg("L", 50)); L.append(len(regs) - 1)
        a = rnd.choice(L)
        c = rnd.random()
        if self.flavour == "coef" and c < 0.6:
            k = rnd.choice([2, 3, -1, 0, 5])
            out.append(["muli", a, k]); regs.append(Reg("L", None)); self.tags.add("arg:one-term-coefficient"); return len(regs) - 1
        if c < 0.25:
            b = rnd.choice(L)
            out.append(["add", a, b]); regs.append(Reg("L", None)); self.tags.add("arg:multi-term"); return len(regs) - 1
        if c < 0.33:
            out.append(["addi", a, 1]); regs.append(Reg("L", None)); self.tags.add("arg:multi-term"); return len(regs) - 1
        if c < 0.38:
            out.append(["muli", a, 1]); regs.append(Reg("L", None)); self.tags.add("arg:times-one"); return len(regs) - 1
        self.tags.add("arg:wire"); return a

    def emit_call(self, regs, out, fname, in_body, mode=None, aborted=False):
        """`aborted`: the body raises, the call yields no register"""
        rnd = self.rnd
        f = self.funcs[fname]
        idx = [self.arg_for(regs, out, k) for k in f["params"]]
        specs = list(idx)
        if len(specs) >= 2 and rnd.random() < 0.25:
            specs = [{"list": specs[:2]}] + specs[2:]; self.tags.add("arg:list")
        if rnd.random() < 0.2:
            specs.insert(rnd.randrange(len(specs) + 1), {"int": rnd.choice([0, 7, -2])}); self.tags.add("arg:int")
        mode = mode if mode is not None else "0"
        out.append(["call", fname, mode, specs])
        if aborted:
            return
        # registers for the leaves of the result: classes unknown to the generator beyond L/B/X of the spec
        def leaves(s, var):
            if isinstance(s, int): return [s]
            if "int" in s: return [None]
            return [x for y in s.get("list", s.get("tuple")) for x in leaves(y, var)]
        var = f["variants"][mode]
        nparam_leaves = len(f["params"])
        for l in leaves(var["ret"], var):
            if l is None:
                regs.append(Reg("int", None))
            else:
                regs.append(Reg(self.kind_in_body(f, mode, l), None))

    def kind_in_body(self, f, mode, reg):
        """class of body register `reg` (replays the generator's own typing of the body)"""
        kinds = list(f["params"])
        def walk(instrs):
            for ins in instrs:
                op = ins[0]
                if op in ("priv", "pub", "const", "add", "sub", "mul", "addi", "muli", "neg", "tolc"): kinds.append("L")
                elif op in ("privb", "lt", "lti", "eq", "eqi", "band", "bnot"): kinds.append("B")
                elif op == "privx": kinds.append("X")
                elif op == "guard": walk(ins[2])
                elif op == "try": walk(ins[1])
                elif op == "call":
                    if ins[1] in self.raisers: continue
                    g = self.funcs[ins[1]]
                    def lv(s):
                        if isinstance(s, int): return [s]
                        if "int" in s: return [None]
                        return [x for y in s.get("list", s.get("tuple")) for x in lv(y)]
                    for l in lv(g["variants"][ins[2]]["ret"]):
                        kinds.append("int" if l is None else self.kind_in_body(g, ins[2], l))
        walk(f["variants"][mode]["body"])
        return kinds[reg]

    # ---- one named function whose calls differ only in how often a check on existing wires is emitted
    DUP_SCENARIOS = [("same", 3), ("even", 5), ("odd", 3), ("mixed", 2), ("pair-even", 3), ("pair-odd", 1), ("pair-same", 1)]
    EVEN = [(0, 2), (2, 0), (0, 4), (1, 3), (3, 1), (2, 4), (4, 0)]
    ODD = [(0, 1), (1, 0), (1, 2), (2, 1), (2, 3), (0, 3), (3, 0), (1, 4)]

    def dup_func(self, mults):
        """define a function with one variant per entry of `mults` (tuples: how often each of its checks is emitted); all
        variants share every wire-creating instruction (checks yield no register), so their equation multisets differ exactly
        by the multiplicities of the check lines; parameter 0 is a bit"""
        rnd = self.rnd
        name = rnd.choice(["gate", "chk", "f", "sq", "v"]) + str(len(self.funcs))
        params = ["L"] * rnd.randrange(1, 4)
        regs = [Reg("L", 1)] + [Reg("L", 50) for _ in params[1:]]
        pre = []
        j = rnd.randrange(len(params))
        pre.append(["mul", 0, j]); regs.append(Reg("L", 50)); ra = len(regs) - 1
        pre.append(["mul", 0, j]); regs.append(Reg("L", 50)); rb = len(regs) - 1
        pre.append(["sub", ra, rb]); regs.append(Reg("L", 100)); rz = len(regs) - 1
        pre.append(["priv", rnd.choice([0, 1])]); regs.append(Reg("L", 1)); rp = len(regs) - 1
        self.ring_ops(regs, pre, rnd.randrange(0, 3), True)
        pool = [["bitcheck", 0], ["bitcheck", rp], ["recheck", 0, j, ra], ["recheck", 0, j, rb], ["aeq", ra, rb], ["aeq", rb, ra],
                ["azero", rz]]
        nchk = len(mults[0])
        checks = rnd.sample(pool, nchk)
        for c in checks: self.tags.add("dup:check:" + c[0])
        post = []
        self.ring_ops(regs, post, rnd.randrange(0, 3), True)
        ret = self.ret_spec(regs)
        place = [[rnd.random() < 0.6 for _ in range(4)] for _ in checks]      # copy i of check k before / after the tail
        variants = {}
        for m, mu in enumerate(mults):
            before = []; after = []
            for k, c in enumerate(checks):
                for i in range(mu[k]):
                    (before if place[k][i % 4] else after).append(list(c))
            if rnd.random() < 0.3: before.reverse()
            variants[str(m)] = {"body": [list(x) for x in pre] + before + [list(x) for x in post] + after, "ret": ret}
        self.funcs[name] = {"params": params, "variants": variants}
        self.order.append(name)
        return name

    def dup_call(self, regs, out, fname, mode, bit):
        """call with parameter 0 := register `bit` (a wire holding 0 or 1), the others small wires"""
        f = self.funcs[fname]
        idx = [bit]
        for _ in f["params"][1:]:
            L = [i for i, r in enumerate(regs) if r.kind == "L" and r.bound is not None and r.bound <= 50]
            if not L or self.rnd.random() < 0.3:
                out.append(["priv", self.small()]); regs.append(Reg("L", 50)); L.append(len(regs) - 1)
            idx.append(self.rnd.choice(L))
        out.append(["call", fname, mode, idx])
        def leaves(s):
            if isinstance(s, int): return [s]
            if "int" in s: return [None]
            return [x for y in s.get("list", s.get("tuple")) for x in leaves(y)]
        for l in leaves(f["variants"][mode]["ret"]):
            regs.append(Reg("int", None) if l is None else Reg(self.kind_in_body(f, mode, l), None))

    def dup_case(self, cid):
        """returns a list of cases (two for the cross-run scenarios: same function name and text, other variant called)"""
        rnd = self.rnd
        sc = rnd.choice([s for s, w in self.DUP_SCENARIOS for _ in range(w)])
        self.tags.add("dup:" + sc)
        nchk = 2 if sc == "mixed" else rnd.choice([1, 1, 2])
        base = rnd.choice([0, 0, 1, 2])
        if sc in ("same", "pair-same"):
            mults = [tuple(rnd.choice([0, 1, 2, 2, 3, 4]) for _ in range(nchk))] * 2
        else:
            pairs = self.EVEN if sc in ("even", "mixed", "pair-even") else self.ODD
            a, b = rnd.choice(pairs)
            if nchk == 1:
                mults = [(a,), (b,)]
            elif sc == "mixed":
                c, d = rnd.choice(self.EVEN + self.ODD)
                mults = [(a, c), (b, d)]
            else:
                mults = [(a, base), (b, base)]
            if sc in ("even", "odd", "mixed") and rnd.random() < 0.3:
                c, d = rnd.choice(pairs)       # a third body, again an even (odd) number of copies away from the first
                mults.append(tuple([mults[0][0] + abs(d - c)] + list(mults[0][1:])))
        regs = []; main = []
        for _ in range(rnd.randrange(1, 3)):
            main.append(["priv", rnd.choice([0, 1])]); regs.append(Reg("L", 1))
        bits = list(range(len(regs)))
        for _ in range(rnd.randrange(0, 3)):
            v, b = self.value(); main.append([rnd.choice(["priv", "priv", "pub"]), v]); regs.append(Reg("L", b))
        fname = self.dup_func(mults)
        nmodes = len(mults)
        outer = None
        if not sc.startswith("pair") and rnd.random() < 0.25:
            # the two bodies are reached through a caller that is itself a sub-circuit (calls in a nested context)
            self.tags.add("call:nested")
            oregs = [Reg("L", 1)]; obody = []
            self.dup_call(oregs, obody, fname, "0", 0)
            self.ring_ops(oregs, obody, rnd.randrange(0, 2), True)
            self.dup_call(oregs, obody, fname, str(rnd.randrange(nmodes)) if rnd.random() < 0.5 else "1", 0)
            oret = self.ret_spec(oregs)
            outer = "outer" + str(len(self.funcs))
            self.funcs[outer] = {"params": ["L"], "variants": {"0": {"body": obody, "ret": oret}}}
            self.order.append(outer)
        ncalls = rnd.randrange(2, 5)
        if sc.startswith("pair"):
            modes = ["0"] * ncalls
        elif sc == "same":
            modes = [rnd.choice(["0", "1"]) for _ in range(ncalls)]     # textually equal variants
        else:
            modes = [str(rnd.randrange(nmodes)) for _ in range(ncalls)]
            i, k = rnd.sample(range(ncalls), 2)
            modes[i] = "0"; modes[k] = "1"
        for i, mode in enumerate(modes):
            self.ring_ops(regs, main, rnd.randrange(0, 2), False)
            if outer is not None and i == 0:
                self.dup_call(regs, main, outer, "0", rnd.choice(bits))
            else:
                self.dup_call(regs, main, fname, mode, rnd.choice(bits))
            self.tags.add("call:repeated")
        L = [i for i, r in enumerate(regs) if r.kind == "L"]
        if rnd.random() < 0.7:
            main.append(["val", rnd.choice(L)]); self.tags.add("op:val")
        funcs = {k: {"variants": v["variants"]} for k, v in self.funcs.items()}
        first = {"id": cid, "flavour": "dup", "funcs": funcs, "main": main, "tags": sorted(self.tags)}
        if not sc.startswith("pair"):
            return [first]
        # second run: same program text except that every call takes the other body of the function
        main2 = [([x[0], x[1], "1", x[3]] if x[0] == "call" and x[1] == fname else list(x)) for x in main]
        if sc == "pair-same":
            main2 = [(["priv", rnd.choice([0, 1])] if x[0] == "priv" and i < len(bits) else x) for i, x in enumerate(main2)]
        return [first, {"id": cid + "-run2", "flavour": "dup", "funcs": funcs, "main": main2, "tags": sorted(self.tags)}]

    def case(self, cid):
        rnd = self.rnd
        fl = self.flavour
        regs = []; main = []
        for _ in range(rnd.randrange(1, 4)):
            v, b = self.value(); main.append([rnd.choice(["priv", "priv", "pub"]), v]); regs.append(Reg("L", b))
        if fl == "flat":
            self.ring_ops(regs, main, rnd.randrange(2, 9), False)
        else:
            nf = 1 if fl in ("empty", "variants") else rnd.randrange(1, 4)
            for _ in range(nf):
                if fl == "empty":
                    kinds = []
                elif fl == "kinds":
                    kinds = [rnd.choice(["L", "B", "B", "X"]) for _ in range(rnd.randrange(1, 4))]
                else:
                    kinds = ["L"] * rnd.randrange(1, 4)
                self.new_func(kinds)
            ncalls = rnd.randrange(1, 5)
            for i in range(ncalls):
                fname = rnd.choice(self.order)
                if i > 0 and rnd.random() < 0.5:
                    fname = self.order[-1]; self.tags.add("call:repeated")
                self.ring_ops(regs, main, rnd.randrange(0, 3), False)
                mode = str(i % 2) if fl == "variants" and rnd.random() < 0.8 else "0"
                self.emit_call(regs, main, fname, False, mode)
            self.ring_ops(regs, main, rnd.randrange(0, 4), False)
        L = [i for i, r in enumerate(regs) if r.kind == "L"]
        if L and rnd.random() < 0.8:
            main.append(["val", rnd.choice(L)]); self.tags.add("op:val")
        if L and rnd.random() < 0.4:
            a = rnd.choice(L); main.append(["mul", a, a]); regs.append(Reg("L", None)); self.tags.add("tail:unflushed-product")
        if fl == "bigtail":
            a = L[0]
            for _ in range(rnd.randrange(40, 90)):
                main.append(["muli", a, P - 1 - rnd.randrange(1000)]); regs.append(Reg("L", None))
                main.append(["mul", len(regs) - 1, len(regs) - 1]); regs.append(Reg("L", None))
        return {"id": cid, "flavour": fl, "funcs": {k: {"variants": v["variants"]} for k, v in self.funcs.items()}, "main": main,
                "tags": sorted(self.tags)}


    # ---- guards in effect across a call boundary
    def guard_case(self, cid):
        rnd = self.rnd
        sc = rnd.choice(["wire-args", "wire-args", "multi-arg", "any", "any", "inside", "nested-guard"])
        self.tags.add("guard:" + sc)
        regs = []; main = []
        for _ in range(rnd.randrange(1, 3)):
            main.append(["priv", self.small()]); regs.append(Reg("L", 50))
        pure = sc in ("wire-args", "multi-arg", "inside", "nested-guard")
        for _ in range(rnd.randrange(1, 3)):
            self.new_func(["L"] * rnd.randrange(1, 3), pure=pure)
        if sc == "inside":
            # the guard is created, applied and released inside one body: everything stays in the callee's context
            name = "gin" + str(len(self.funcs))
            b = [["privb", rnd.choice([0, 1, 1])]]; r = [Reg("L", 50), Reg("B", 1)]
            inner = []
            self.ring_ops(r, inner, rnd.randrange(1, 3), True)
            if rnd.random() < 0.6:
                self.emit_call(r, inner, rnd.choice(self.order), True); self.tags.add("call:nested")
            b.append(["guard", 1, inner])
            self.ring_ops(r, b, rnd.randrange(0, 2), True, True)
            self.funcs[name] = {"params": ["L"], "variants": {"0": {"body": b, "ret": rnd.choice([i for i, x in enumerate(r) if x.kind == "L"])}}}
            self.order.append(name)
            self.emit_call(regs, main, name, False)
        else:
            g = len(regs); main.append(["privb", rnd.choice([0, 1, 1])]); regs.append(Reg("B", 1))
            inner = []; target = inner
            if sc == "nested-guard":
                g2 = len(regs); inner.append(["privb", rnd.choice([0, 1, 1])]); regs.append(Reg("B", 1))
                target = []
            for i in range(rnd.randrange(1, 3)):
                self.ring_ops(regs, target, rnd.randrange(0, 2), False, pure)
                fname = rnd.choice(self.order)
                if sc == "wire-args":
                    f = self.funcs[fname]
                    idx = []
                    for _ in f["params"]:
                        L = [j for j, x in enumerate(regs) if x.kind == "L" and x.bound is not None and x.bound <= 50]
                        idx.append(rnd.choice(L))
                    target.append(["call", fname, "0", idx])
                    def lv(s_):
                        if isinstance(s_, int): return [s_]
                        if "int" in s_: return [None]
                        return [x for y in s_.get("list", s_.get("tuple")) for x in lv(y)]
                    for l in lv(f["variants"]["0"]["ret"]):
                        regs.append(Reg("int", None) if l is None else Reg(self.kind_in_body(f, "0", l), None))
                else:
                    self.emit_call(regs, target, fname, False)
            if sc == "nested-guard":
                inner.append(["guard", g2, target])
            main.append(["guard", g, inner])
        self.ring_ops(regs, main, rnd.randrange(0, 3), False)
        L = [i for i, r in enumerate(regs) if r.kind == "L"]
        if L and rnd.random() < 0.7:
            main.append(["val", rnd.choice(L)]); self.tags.add("op:val")
        return {"id": cid, "flavour": "guard", "funcs": {k: {"variants": v["variants"]} for k, v in self.funcs.items()}, "main": main,
                "tags": sorted(self.tags)}

    # ---- bodies that raise
    def raise_case(self, cid):
        rnd = self.rnd
        sc = rnd.choice(["top-caught", "top-caught", "nested-caught", "nested-propagates", "uncaught", "twice"])
        self.tags.add("raise:" + sc)
        regs = []; main = []
        for _ in range(rnd.randrange(1, 3)):
            main.append(["priv", self.small()]); regs.append(Reg("L", 50))
        # the function that raises: some operations, the exception, operations that never run
        tname = "thr" + str(len(self.funcs))
        tr = [Reg("L", 50)]; tb = []
        self.ring_ops(tr, tb, rnd.randrange(0, 3), True, True)
        tb.append(["raise"])
        self.funcs[tname] = {"params": ["L"], "variants": {"0": {"body": tb, "ret": 0}}}
        self.raisers.add(tname)
        def small_wire(rs, out):
            L = [j for j, x in enumerate(rs) if x.kind == "L" and x.bound is not None and x.bound <= 50]
            if not L:
                out.append(["priv", self.small()]); rs.append(Reg("L", 50)); L = [len(rs) - 1]
            return rnd.choice(L)
        if sc in ("top-caught", "twice", "uncaught"):
            if rnd.random() < 0.5:
                ok = self.new_func(["L"], pure=True); self.emit_call(regs, main, ok, False)
            call = ["call", tname, "0", [small_wire(regs, main)]]
            main.append(call if sc == "uncaught" else ["try", [call]])
            if sc == "twice":
                self.ring_ops(regs, main, rnd.randrange(0, 2), False, True)
                main.append(["try", [["call", tname, "0", [small_wire(regs, main)]]]])
        else:
            oname = "out" + str(len(self.funcs))
            orr = [Reg("L", 50)]; ob = []
            self.ring_ops(orr, ob, rnd.randrange(0, 2), True, True)
            call = ["call", tname, "0", [small_wire(orr, ob)]]
            ob.append(["try", [call]] if sc == "nested-caught" else call)
            self.ring_ops(orr, ob, rnd.randrange(1, 3), True, True)
            self.funcs[oname] = {"params": ["L"], "variants": {"0": {"body": ob, "ret": rnd.choice([i for i, x in enumerate(orr) if x.kind == "L"])}}}
            self.order.append(oname)
            if sc == "nested-caught":
                self.emit_call(regs, main, oname, False)
            else:
                self.raisers.add(oname)
                main.append(["try", [["call", oname, "0", [small_wire(regs, main)]]]])
        if sc != "uncaught":
            # the program goes on after the exception
            self.ring_ops(regs, main, rnd.randrange(1, 3), False, True)
            if rnd.random() < 0.5:
                ok = self.new_func(["L"], pure=True); self.emit_call(regs, main, ok, False)
            L = [i for i, r in enumerate(regs) if r.kind == "L"]
            if L and rnd.random() < 0.7:
                main.append(["val", rnd.choice(L)]); self.tags.add("op:val")
        return {"id": cid, "flavour": "raise", "funcs": {k: {"variants": v["variants"]} for k, v in self.funcs.items()}, "main": main,
                "tags": sorted(self.tags)}

    # ---- PAIRS of distinct function names that a file-name mapping could merge, both called in one run
    SPECIAL = "+*-.:;,@#%&=!?~^()[]{}<>|'$`"
    NAME_PAIRS = {
        "punctuation": [("a+b", "a*b"), ("f(x)", "f[x]"), ("sq:1", "sq;1"), ("x@y", "x#y"), ("p%q", "p&q"), ("k=1", "k~1"), ("u!", "u?"),
                        ("r<s", "r>s"), ("v|w", "v^w"), ("q'", "q`"), ("m$n", "m,n"), ("{t}", "(t)")],
        "separator": [("a_b", "a-b"), ("a.b", "a_b"), ("a-b", "a.b"), ("a__b", "a_b"), ("lib.sq", "lib_sq"), ("x-1", "x_1")],
        "case": [("Sq", "sq"), ("MUL", "mul"), ("dotProd", "dotprod"), ("aB", "Ab")],
        "non-ascii": [("\u00e9t", "\u00e8t"), ("\u00fc1", "u1"), ("\u03b1", "\u03b2"), ("n\u00b2", "n\u00b3")],
        "long": [("f" * 40 + "1", "f" * 40 + "2"), ("step_" * 12 + "a", "step_" * 12 + "b")],
        "edge": [("f.", "f"), (".f", "f"), ("-f", "f"), ("f-", "f_"), ("~f", "f~")],
    }

    def name_pair(self):
        rnd = self.rnd
        fam = rnd.choice(list(self.NAME_PAIRS) + ["punctuation", "random"])
        if fam == "random":
            base = rnd.choice(["f", "sq", "lib", "m1", "dot"]); tail = rnd.choice(["", "x", "2", "_r"])
            a, b = rnd.sample(self.SPECIAL, 2)
            k = rnd.randrange(1, 3)
            return "punctuation", (base + a * k + tail, base + b * k + tail)
        pr = rnd.choice(self.NAME_PAIRS[fam])
        return fam, (pr if rnd.random() < 0.5 else pr[::-1])

    def name_pair_case(self, cid):
        """two functions with DIFFERENT bodies (different numbers of products) whose names differ only in characters a
        portable-file-name / case-folding / truncating mapping would merge; each called 1-2 times, interleaved"""
        rnd = self.rnd
        fam, names = self.name_pair()
        self.tags.add("name:pair-" + fam)
        for k, nm in enumerate(names):
            nparams = rnd.randrange(1, 3)
            regs = [Reg("L", 50) for _ in range(nparams)]; body = []
            for j in range(k + 1):                          # k+1 products first: the equation sets of the two names differ
                body.append(["mul", len(regs) - 1, 0]); regs.append(Reg("L", None))
            self.ring_ops(regs, body, rnd.randrange(0, 3), True, True)
            self.funcs[nm] = {"params": ["L"] * nparams,
                              "variants": {"0": {"body": body, "ret": rnd.choice([i for i, r in enumerate(regs) if r.kind == "L" and i >= nparams])}}}
            self.order.append(nm)
        if rnd.random() < 0.3:
            self.new_func(["L"], pure=True)                 # a bystander with an ordinary name
        regs = []; main = []
        for _ in range(rnd.randrange(1, 3)):
            main.append(["priv", self.small()]); regs.append(Reg("L", 50))
        seq = list(names) + [rnd.choice(self.order) for _ in range(rnd.randrange(0, 3))]
        rnd.shuffle(seq)
        for nm in seq:
            self.ring_ops(regs, main, rnd.randrange(0, 2), False, True)
            self.emit_call(regs, main, nm, False)
        L = [i for i, r in enumerate(regs) if r.kind == "L"]
        if L and rnd.random() < 0.7:
            main.append(["val", rnd.choice(L)]); self.tags.add("op:val")
        return {"id": cid, "flavour": "names", "funcs": {k: {"variants": v["variants"]} for k, v in self.funcs.items()}, "main": main,
                "tags": sorted(self.tags)}

    # ---- calls of SEVERAL functions interleaved; a later, NON-ADJACENT call of an earlier-seen function differs
    INTERLEAVE = [("f-g-f", 4), ("f-g-h-f", 2), ("g-f-g-f", 2), ("f-f-g-f", 2), ("f-g-f-g-f", 1), ("nested", 3), ("consistent", 2),
                  ("consistent-nested", 1)]

    def interleave_case(self, cid):
        """one named function with two bodies that trace DIFFERENT equation multisets (an extra product / another product / one
        more copy of a check), called so that its differing calls are separated, in file order, by calls of other functions:
        directly (f, g, f), after an equal adjacent pair (f, f, g, f), or through two different callers that are themselves
        sub-circuits (o1 -> f, o2 -> f: the [function] lines read o1, f, o2, f).  The inconsistency has to be reported exactly as
        for adjacent calls; the consistent scenarios (same body every time) must not be reported."""
        rnd = self.rnd
        sc = rnd.choice([s for s, w in self.INTERLEAVE for _ in range(w)])
        how = rnd.choice(["extra-product", "other-product", "extra-check"])
        self.tags.add("interleave:" + sc); self.tags.add("interleave:" + how)
        # bystanders first (they cannot call the target)
        others = [self.new_func(["L"] * rnd.randrange(1, 3), name=nm + str(len(self.funcs)), pure=True)
                  for nm in rnd.sample(["g", "h", "cube", "lin"], 2)]
        name = rnd.choice(["f", "prod", "sq", "step"]) + str(len(self.funcs))
        nparams = rnd.randrange(1, 3)
        k = rnd.randrange(1, 3)
        variants = {}
        for m in range(2):
            regs = [Reg("L", 50) for _ in range(nparams)]; body = []
            for j in range(k):
                body.append(["mul", len(regs) - 1, 0]); regs.append(Reg("L", None))
            ret = len(regs) - 1
            if how == "extra-product" and m == 1:
                body.append(["mul", len(regs) - 1, 0]); regs.append(Reg("L", None)); ret = len(regs) - 1
            elif how == "other-product":
                body.append(["mul", len(regs) - 1, len(regs) - 1] if m == 1 else ["mul", len(regs) - 1, 0]); regs.append(Reg("L", None))
                ret = len(regs) - 1
            elif how == "extra-check":
                body.append(["mul", nparams - 1, 0]); regs.append(Reg("L", None))      # the same product as the first one
                body += [["aeq", nparams, len(regs) - 1]] * (1 + m)
            variants[str(m)] = {"body": body, "ret": ret}
        self.funcs[name] = {"params": ["L"] * nparams, "variants": variants}
        self.order.append(name)
        g, h = others
        first = str(rnd.randrange(2)); second = str(1 - int(first))
        if sc.startswith("consistent"): second = first
        plans = {"f-g-f": [(name, first), (g, "0"), (name, second)],
                 "f-g-h-f": [(name, first), (g, "0"), (h, "0"), (name, second)],
                 "g-f-g-f": [(g, "0"), (name, first), (g, "0"), (name, second)],
                 "f-f-g-f": [(name, first), (name, first), (g, "0"), (name, second)],
                 "f-g-f-g-f": [(name, first), (g, "0"), (name, first), (g, "0"), (name, second)],
                 "consistent": [(name, first), (g, "0"), (name, second), (h, "0"), (name, first)]}
        if sc in ("nested", "consistent-nested"):
            plan = []
            for i, md in enumerate((first, second)):
                oregs = [Reg("L", 50)]; obody = []
                self.ring_ops(oregs, obody, rnd.randrange(0, 2), True, True)
                self.emit_call(oregs, obody, name, True, md)
                obody.append(["mul", len(oregs) - 1, 0]); oregs.append(Reg("L", None))
                oname = ("outer", "wrap")[i] + str(len(self.funcs))
                self.funcs[oname] = {"params": ["L"], "variants": {"0": {"body": obody, "ret": len(oregs) - 1}}}
                self.order.append(oname)
                plan.append((oname, "0"))
                self.tags.add("call:nested")
            if rnd.random() < 0.5: plan.insert(1, (g, "0"))
        else:
            plan = plans[sc]
        regs = []; main = []
        for _ in range(rnd.randrange(1, 3)):
            main.append(["priv", self.small()]); regs.append(Reg("L", 50))
        for nm, md in plan:
            self.ring_ops(regs, main, rnd.randrange(0, 2), False, True)
            self.emit_call(regs, main, nm, False, md)
        L = [i for i, r in enumerate(regs) if r.kind == "L"]
        if L and rnd.random() < 0.7:
            main.append(["val", rnd.choice(L)]); self.tags.add("op:val")
        return {"id": cid, "flavour": "interleave", "funcs": {k_: {"variants": v["variants"]} for k_, v in self.funcs.items()}, "main": main,
                "tags": sorted(self.tags)}

    # ---- several proving steps in ONE process, tracing in between
    STAGED = [("main-grows", 3), ("recall-old", 3), ("new-function", 2), ("nested-recall", 2), ("noop", 1), ("in-body", 2), ("mixed", 3)]

    def staged_case(self, cid):
        """a session in which the proving step runs, tracing goes on, and the proving step runs again (2-3 times: notebook use, or an
        explicit prove() followed by more work and the final one).  Between two steps: more operations and public values in main
        (a context that was split before), NEW calls of functions that were split before (directly and through a new caller),
        calls of functions not seen before, nothing at all, or the rest of a body that was being traced when the step ran
        (["prove"] inside a @subqap body).  Returns [twin, staged]: the twin is the same program text without the intermediate
        steps (an ordinary case: one fresh interpreter, one prove() at the end), the reference of the last step."""
        rnd = self.rnd
        sc = rnd.choice([s for s, w in self.STAGED for _ in range(w)])
        self.tags.add("staged:" + sc)
        regs = []; main = []
        for _ in range(rnd.randrange(1, 3)):
            main.append(["priv", self.small()]); regs.append(Reg("L", 50))
        for _ in range(rnd.randrange(1, 3)):
            self.new_func(["L"] * rnd.randrange(1, 3), pure=True)
        old = list(self.order)
        called = []
        # first stage: an ordinary program
        self.ring_ops(regs, main, rnd.randrange(0, 3), False, True)
        for _ in range(rnd.randrange(0 if sc in ("main-grows", "new-function", "in-body") else 1, 3)):
            fn = rnd.choice(old); called.append(fn)
            self.emit_call(regs, main, fn, False)
            self.ring_ops(regs, main, rnd.randrange(0, 2), False, True)
        def out_value():
            L = [i for i, r in enumerate(regs) if r.kind == "L"]
            main.append(["val", rnd.choice(L)]); self.tags.add("op:val")
        if rnd.random() < 0.6: out_value()
        nsteps = rnd.choice([1, 1, 2])
        for step in range(nsteps):
            main.append(["prove"])
            acts = {"main-grows": ["ops"], "recall-old": ["recall"], "new-function": ["newfn"], "nested-recall": ["nested"], "noop": [],
                    "in-body": ["inbody"]}.get(sc)
            if acts is None or (step > 0 and sc != "noop"):
                acts = rnd.sample(["ops", "recall", "newfn", "nested", "inbody"], rnd.randrange(1, 4))
            if sc == "noop" and step > 0: acts = ["ops"]
            for a in acts:
                self.tags.add("staged-act:" + a)
                if a == "ops":
                    self.ring_ops(regs, main, rnd.randrange(1, 4), False, True)
                    if rnd.random() < 0.6: out_value()
                elif a == "recall":
                    # a function whose call was split by an earlier step is called again
                    fn = rnd.choice(called or old); called.append(fn)
                    self.ring_ops(regs, main, rnd.randrange(0, 2), False, True)
                    self.emit_call(regs, main, fn, False)
                elif a == "newfn":
                    fn = self.new_func(["L"] * rnd.randrange(1, 3), pure=True); called.append(fn)
                    self.emit_call(regs, main, fn, False)
                    if rnd.random() < 0.4: self.emit_call(regs, main, fn, False)
                elif a == "nested":
                    # a new caller, itself a sub-circuit, calls a function that was split before
                    fn = rnd.choice(called or old)
                    oregs = [Reg("L", 50)]; obody = []
                    self.ring_ops(oregs, obody, rnd.randrange(0, 2), True, True)
                    self.emit_call(oregs, obody, fn, True)
                    obody.append(["mul", len(oregs) - 1, 0]); oregs.append(Reg("L", None))
                    oname = "outer" + str(len(self.funcs))
                    self.funcs[oname] = {"params": ["L"], "variants": {"0": {"body": obody, "ret": len(oregs) - 1}}}
                    self.order.append(oname); called.append(fn)
                    self.emit_call(regs, main, oname, False); self.tags.add("call:nested")
                elif a == "inbody":
                    # the proving step runs while a call is in progress: the rest of the body is traced after it
                    bregs = [Reg("L", 50)]; body = []
                    self.ring_ops(bregs, body, rnd.randrange(1, 3), True, True)
                    body.append(["prove"])
                    body.append(["mul", len(bregs) - 1, 0]); bregs.append(Reg("L", None))
                    self.ring_ops(bregs, body, rnd.randrange(0, 2), True, True)
                    bname = "cell" + str(len(self.funcs))
                    self.funcs[bname] = {"params": ["L"], "variants": {"0": {"body": body, "ret": len(bregs) - 1}}}
                    self.order.append(bname)
                    self.emit_call(regs, main, bname, False)
                    self.ring_ops(regs, main, rnd.randrange(0, 2), False, True)
        if rnd.random() < 0.5: out_value()
        funcs = {k: {"variants": v["variants"]} for k, v in self.funcs.items()}
        staged = {"id": cid, "flavour": "staged", "staged": True, "funcs": funcs, "main": main, "tags": sorted(self.tags)}
        return [without_proving_steps(staged), staged]

    # ---- function names containing the separator of the wire grammar
    def names_case(self, cid):
        rnd = self.rnd
        if rnd.random() < 0.75:
            return self.name_pair_case(cid)
        regs = []; main = []
        for _ in range(rnd.randrange(1, 3)):
            main.append(["priv", self.small()]); regs.append(Reg("L", 50))
        nm = rnd.choice(["a/b", "lib/sq", "f/1", "x/y/z", "/lead", "trail/", "main/sq"])
        self.tags.add("name:slash")
        self.new_func(["L"] * rnd.randrange(1, 3), name=nm, pure=True)
        if rnd.random() < 0.5:
            self.new_func(["L"], pure=True)
        for i in range(rnd.randrange(1, 3)):
            self.ring_ops(regs, main, rnd.randrange(0, 2), False, True)
            self.emit_call(regs, main, rnd.choice(self.order), False)
        L = [i for i, r in enumerate(regs) if r.kind == "L"]
        if L and rnd.random() < 0.7:
            main.append(["val", rnd.choice(L)]); self.tags.add("op:val")
        return {"id": cid, "flavour": "names", "funcs": {k: {"variants": v["variants"]} for k, v in self.funcs.items()}, "main": main,
                "tags": sorted(self.tags)}

    # ---- one named function, two bodies whose equation TEXTS differ only in where a token boundary sits
    RESPACE = [((1, 11), (11, 1)), ((1, 12), (11, 2)), ((2, 13), (21, 3)), ((3, 10), (31, 0)), ((1, 10), (11, 0)), ((7, 12), (71, 2)),
               ((12, 3), (1, 23)), ((5, 11), (51, 1))]

    def respace_case(self, cid):
        """bodies that share every wire-creating instruction and differ in ONE scaled operand `c * w`: coefficient and wire number
        are re-split so that the digits of the two tokens concatenate to the same text (`1 11` / `11 1`); returns the in-run case
        (both bodies called: the inconsistency has to be reported) or two runs (the signatures have to differ)"""
        rnd = self.rnd
        pairs = [pq for pq in self.RESPACE if all(w >= 1 for _, w in pq)]
        (c0, w0), (c1, w1) = rnd.choice(pairs)
        if rnd.random() < 0.5: (c0, w0), (c1, w1) = (c1, w1), (c0, w0)
        nw = max(w0, w1) + rnd.randrange(0, 3)
        name = rnd.choice(["f", "lin", "scale"]) + str(len(self.funcs))
        nparams = rnd.randrange(1, 3)
        # wire k of the callee is register k-1: the parameters are copied first, then every instruction below creates one wire
        pre = [["priv", self.small()] for _ in range(nw - nparams)]
        pos = rnd.choice(["left", "right", "sum"])
        self.tags.add("respace:" + pos)
        variants = {}
        for m, (c, w) in enumerate([(c0, w0), (c1, w1)]):
            body = [list(x) for x in pre]
            n = nw                                   # registers so far
            body.append(["muli", w - 1, c]); sc = n; n += 1
            if pos == "sum":
                body.append(["add", sc, 0]); sc = n; n += 1
            body.append(["mul", sc, 0] if pos != "right" else ["mul", 0, sc]); n += 1
            variants[str(m)] = {"body": body, "ret": n - 1}
        self.funcs[name] = {"params": ["L"] * nparams, "variants": variants}
        self.order.append(name)
        regs = []; main = []
        for _ in range(nparams + rnd.randrange(0, 2)):
            main.append(["priv", self.small()]); regs.append(Reg("L", 50))
        cross = rnd.random() < 0.4
        self.tags.add("respace:" + ("two-runs" if cross else "one-run"))
        def calls(modes):
            mn = [list(x) for x in main]; k = len(regs)
            for md in modes:
                mn.append(["call", name, md, [rnd.randrange(len(regs)) for _ in range(nparams)]]); k += 1
            mn.append(["val", k - 1])
            return mn
        funcs = {k: {"variants": v["variants"]} for k, v in self.funcs.items()}
        if not cross:
            modes = [str(rnd.randrange(2)) for _ in range(rnd.randrange(2, 4))]
            i, k = rnd.sample(range(len(modes)), 2); modes[i] = "0"; modes[k] = "1"
            return [{"id": cid, "flavour": "respace", "funcs": funcs, "main": calls(modes), "tags": sorted(self.tags)}]
        n = rnd.randrange(1, 3)
        return [{"id": cid, "flavour": "respace", "funcs": funcs, "main": calls(["0"] * n), "tags": sorted(self.tags)},
                {"id": cid + "-run2", "flavour": "respace", "funcs": funcs, "main": calls(["1"] * n), "tags": sorted(self.tags)}]


FLAVOURS = [("flat", 3), ("calls", 6), ("nested", 4), ("coef", 2), ("one-ctx", 2), ("kinds", 2), ("empty", 1), ("variants", 2), ("bigtail", 1),
            ("dup", 5), ("guard", 4), ("raise", 3), ("names", 4), ("respace", 3), ("interleave", 5), ("staged", 6)]


def without_proving_steps(case):
    """the same program text without the intermediate ["prove"] instructions (main and bodies): one prove() at the end"""
    def strip(instrs):
        out = []
        for ins in instrs:
            if ins[0] == "prove": continue
            if ins[0] == "guard": ins = [ins[0], ins[1], strip(ins[2])]
            elif ins[0] == "try": ins = [ins[0], strip(ins[1])]
            out.append(ins)
        return out
    funcs = {fn: {"variants": {m: {"body": strip(v["body"]), "ret": v["ret"]} for m, v in f["variants"].items()}} for fn, f in case["funcs"].items()}
    return {"id": case["id"] + "-fresh", "flavour": case.get("flavour", "staged"), "funcs": funcs, "main": strip(case["main"]),
            "tags": sorted(set(case.get("tags", [])) | {"staged:fresh-twin"})}


def corpus_dup():
    """one named function, bodies that differ only in how often the booleanity check of the argument is emitted"""
    def gate(*counts):
        return {"gate": {"variants": {str(m): {"body": [["bitcheck", 0]] * (n // 2) + [["mul", 0, 0]] + [["bitcheck", 0]] * (n - n // 2), "ret": 1}
                                      for m, n in enumerate(counts)}}}
    def main(m0, m1):
        return [["priv", 1], ["priv", 0], ["call", "gate", m0, [0]], ["call", "gate", m1, [1]], ["add", 2, 3], ["val", 4]]
    return [
        {"id": "corpus-dup-0-vs-2", "flavour": "dup", "tags": ["corpus"], "funcs": gate(0, 2), "main": main("0", "1")},
        {"id": "corpus-dup-2-vs-0", "flavour": "dup", "tags": ["corpus"], "funcs": gate(0, 2), "main": main("1", "0")},
        {"id": "corpus-dup-1-vs-3", "flavour": "dup", "tags": ["corpus"], "funcs": gate(1, 3), "main": main("0", "1")},
        {"id": "corpus-dup-0-vs-4", "flavour": "dup", "tags": ["corpus"], "funcs": gate(0, 4), "main": main("0", "1")},
        {"id": "corpus-dup-0-vs-1", "flavour": "dup", "tags": ["corpus"], "funcs": gate(0, 1), "main": main("0", "1")},
        {"id": "corpus-dup-1-vs-2", "flavour": "dup", "tags": ["corpus"], "funcs": gate(1, 2), "main": main("0", "1")},
        {"id": "corpus-dup-2-vs-2", "flavour": "dup", "tags": ["corpus"], "funcs": gate(2, 2), "main": main("0", "1")},
        # two runs of one program text, the other body called: the signatures for key generation have to differ
        {"id": "corpus-dup-run-0", "flavour": "dup", "tags": ["corpus"], "funcs": gate(0, 2, 1), "main": main("0", "0")},
        {"id": "corpus-dup-run-2", "flavour": "dup", "tags": ["corpus"], "funcs": gate(0, 2, 1), "main": main("1", "1")},
        {"id": "corpus-dup-run-1", "flavour": "dup", "tags": ["corpus"], "funcs": gate(0, 2, 1), "main": main("2", "2")},
    ]


def corpus_staged():
    """prove(); more tracing; prove() in one process (twin first: the same text with one prove() at the end)"""
    sq = {"variants": {"0": {"body": [["mul", 0, 0]], "ret": 1}}}
    cube = {"variants": {"0": {"body": [["mul", 0, 0], ["mul", 1, 0]], "ret": 2}}}
    cell = {"variants": {"0": {"body": [["mul", 0, 0], ["prove"], ["mul", 1, 0]], "ret": 2}}}
    cases = [
        {"id": "corpus-staged-main-grows", "funcs": {"sq": sq},
         "main": [["priv", 4], ["pub", -3], ["call", "sq", "0", [0]], ["mul", 2, 1], ["val", 3], ["prove"], ["mul", 3, 3], ["add", 4, 0], ["val", 5]]},
        {"id": "corpus-staged-new-function", "funcs": {"sq": sq, "cube": cube},
         "main": [["priv", 4], ["call", "sq", "0", [0]], ["val", 1], ["prove"], ["mul", 1, 1], ["call", "cube", "0", [2]], ["val", 3]]},
        {"id": "corpus-staged-recall", "funcs": {"sq": sq},
         "main": [["priv", 4], ["call", "sq", "0", [0]], ["prove"], ["call", "sq", "0", [1]], ["val", 2]]},
        {"id": "corpus-staged-noop", "funcs": {"sq": sq},
         "main": [["priv", 4], ["call", "sq", "0", [0]], ["val", 1], ["prove"]]},
        {"id": "corpus-staged-in-body", "funcs": {"cell": cell},
         "main": [["priv", 3], ["call", "cell", "0", [0]], ["val", 1]]},
        {"id": "corpus-staged-three", "funcs": {"sq": sq, "cube": cube},
         "main": [["priv", 2], ["mul", 0, 0], ["prove"], ["mul", 1, 0], ["val", 2], ["prove"], ["call", "cube", "0", [2]], ["mul", 3, 3], ["val", 4]]},
    ]
    out = []
    for c in cases:
        c.update({"flavour": "staged", "staged": True, "tags": ["corpus"]})
        out += [without_proving_steps(c), c]
    return out


def corpus():
    """hand-written boundary cases, run first"""
    sq = {"sq": {"variants": {"0": {"body": [["mul", 0, 0]], "ret": 1}}}}
    return [
        {"id": "corpus-square2x", "flavour": "coef", "funcs": sq, "tags": ["corpus"],
         "main": [["priv", 3], ["muli", 0, 2], ["call", "sq", "0", [1]], ["call", "sq", "0", [0]], ["add", 2, 3], ["mul", 4, 0], ["val", 5], ["mul", 0, 0]]},
        {"id": "corpus-flat-val", "flavour": "flat", "funcs": {}, "tags": ["corpus"],
         "main": [["priv", 3], ["pub", -4], ["mul", 0, 1], ["val", 2]]},
        {"id": "corpus-eq-in-body", "flavour": "one-ctx", "tags": ["corpus"],
         "funcs": {"iseq": {"variants": {"0": {"body": [["eqi", 0, 3], ["tolc", 1]], "ret": 2}}}},
         "main": [["priv", 3], ["call", "iseq", "0", [0]]]},
        {"id": "corpus-bool-arg", "flavour": "kinds", "tags": ["corpus"],
         "funcs": {"nb": {"variants": {"0": {"body": [["bnot", 0], ["mul", 1, 1]], "ret": {"tuple": [2, 3]}}}}},
         "main": [["priv", 3], ["privb", 1], ["call", "nb", "0", [1, 0]]]},
        {"id": "corpus-no-lincomb", "flavour": "empty", "tags": ["corpus"],
         "funcs": {"noarg": {"variants": {"0": {"body": [["priv", 4]], "ret": {"int": 4}}}}},
         "main": [["priv", 3], ["call", "noarg", "0", [{"int": 4}]]]},
        {"id": "corpus-const-result", "flavour": "coef", "tags": ["corpus"],
         "funcs": {"c5": {"variants": {"0": {"body": [["const", 5]], "ret": 1}}}},
         "main": [["priv", 3], ["call", "c5", "0", [0]], ["pub", 1]]},
        {"id": "corpus-nested-sum-negative", "flavour": "nested", "tags": ["corpus"],
         "funcs": {"in": {"variants": {"0": {"body": [["mul", 0, 1], ["add", 2, 0]], "ret": {"tuple": [3, 2]}}}},
                   "out": {"variants": {"0": {"body": [["add", 0, 0], ["call", "in", "0", [1, 0]], ["call", "in", "0", [0, 0]], ["sub", 2, 4]], "ret": 6}}}},
         "main": [["priv", -5], ["priv", P + 3], ["add", 0, 1], ["call", "out", "0", [2]], ["call", "out", "0", [0]], ["val", 3]]},
        {"id": "corpus-variants", "flavour": "variants", "tags": ["corpus"],
         "funcs": {"v": {"variants": {"0": {"body": [["mul", 0, 0]], "ret": 1}, "1": {"body": [["mul", 0, 0], ["mul", 1, 0]], "ret": 2}}}},
         "main": [["priv", 2], ["call", "v", "0", [0]], ["call", "v", "1", [0]], ["pub", 0]]},
        # a guard in effect across the call boundary: an assertion in the body / a multi-term result is tied to the caller's guard wire
        {"id": "corpus-guard-assert", "flavour": "guard", "tags": ["corpus"],
         "funcs": {"sq": {"variants": {"0": {"body": [["mul", 0, 0], ["mul", 0, 0], ["aeq", 1, 2]], "ret": 1}}}},
         "main": [["priv", 3], ["privb", 1], ["guard", 1, [["call", "sq", "0", [0]]]]]},
        {"id": "corpus-guard-multiret", "flavour": "guard", "tags": ["corpus"],
         "funcs": {"dbl": {"variants": {"0": {"body": [["add", 0, 0]], "ret": 1}}}},
         "main": [["priv", 3], ["privb", 0], ["guard", 1, [["call", "dbl", "0", [0]]]]]},
        # the same with wire arguments, a multi-term ARGUMENT and a wire result: the guard stays in the caller's context, the split goes through
        {"id": "corpus-guard-multiarg", "flavour": "guard", "tags": ["corpus"],
         "funcs": {"sq": {"variants": {"0": {"body": [["mul", 0, 0]], "ret": 1}}}},
         "main": [["priv", 3], ["privb", 0], ["add", 0, 0], ["guard", 1, [["call", "sq", "0", [2]]]], ["val", 3]]},
        # a body that raises; the exception is caught and the program goes on
        {"id": "corpus-raise-caught", "flavour": "raise", "tags": ["corpus"],
         "funcs": {"thr": {"variants": {"0": {"body": [["mul", 0, 0], ["raise"]], "ret": 0}}}},
         "main": [["priv", 3], ["try", [["call", "thr", "0", [0]]]], ["priv", 5], ["mul", 1, 1], ["val", 2]]},
        {"id": "corpus-raise-nested", "flavour": "raise", "tags": ["corpus"],
         "funcs": {"inner": {"variants": {"0": {"body": [["raise"]], "ret": 0}}},
                   "outer": {"variants": {"0": {"body": [["try", [["call", "inner", "0", [0]]]], ["mul", 0, 0]], "ret": 1}}}},
         "main": [["priv", 3], ["call", "outer", "0", [0]], ["val", 1]]},
        {"id": "corpus-name-slash", "flavour": "names", "tags": ["corpus"],
         "funcs": {"a/b": {"variants": {"0": {"body": [["mul", 0, 0]], "ret": 1}}}},
         "main": [["priv", 3], ["call", "a/b", "0", [0]], ["val", 1]]},
        # two functions whose names differ only in punctuation / case, both called: each has its own per-function file
        {"id": "corpus-name-pair-punct", "flavour": "names", "tags": ["corpus"],
         "funcs": {"a+b": {"variants": {"0": {"body": [["add", 0, 1], ["mul", 2, 2]], "ret": 3}}},
                   "a*b": {"variants": {"0": {"body": [["mul", 0, 1]], "ret": 2}}}},
         "main": [["priv", 3], ["priv", -4], ["call", "a+b", "0", [0, 1]], ["call", "a*b", "0", [0, 1]], ["call", "a+b", "0", [2, 3]], ["val", 4]]},
        {"id": "corpus-name-pair-case", "flavour": "names", "tags": ["corpus"],
         "funcs": {"Sq": {"variants": {"0": {"body": [["mul", 0, 0]], "ret": 1}}},
                   "sq": {"variants": {"0": {"body": [["mul", 0, 0], ["mul", 1, 0]], "ret": 2}}}},
         "main": [["priv", 3], ["call", "Sq", "0", [0]], ["call", "sq", "0", [1]], ["val", 2]]},
        # one name, two bodies whose normalised texts differ only in where a blank sits: `1 11 * 1 1 = 1 12 .` / `11 1 * 1 1 = 1 12 .`
        {"id": "corpus-respace", "flavour": "respace", "tags": ["corpus"],
         "funcs": {"f": {"variants": {"0": {"body": [["priv", 2]] * 10 + [["muli", 10, 1], ["mul", 11, 0]], "ret": 12},
                                      "1": {"body": [["priv", 2]] * 10 + [["muli", 0, 11], ["mul", 11, 0]], "ret": 12}}}},
         "main": [["priv", 2], ["call", "f", "0", [0]], ["call", "f", "1", [0]], ["val", 2]]},
        {"id": "corpus-respace-run-a", "flavour": "respace", "tags": ["corpus"],
         "funcs": {"f": {"variants": {"0": {"body": [["priv", 2]] * 10 + [["muli", 10, 1], ["mul", 11, 0]], "ret": 12},
                                      "1": {"body": [["priv", 2]] * 10 + [["muli", 0, 11], ["mul", 11, 0]], "ret": 12}}}},
         "main": [["priv", 2], ["call", "f", "0", [0]], ["val", 1]]},
        {"id": "corpus-respace-run-b", "flavour": "respace", "tags": ["corpus"],
         "funcs": {"f": {"variants": {"0": {"body": [["priv", 2]] * 10 + [["muli", 10, 1], ["mul", 11, 0]], "ret": 12},
                                      "1": {"body": [["priv", 2]] * 10 + [["muli", 0, 11], ["mul", 11, 0]], "ret": 12}}}},
         "main": [["priv", 2], ["call", "f", "1", [0]], ["val", 1]]},
        # calls of one name with different bodies, separated by a call of another function (directly / through two callers)
        {"id": "corpus-interleave-f-g-f", "flavour": "interleave", "tags": ["corpus"],
         "funcs": {"v": {"variants": {"0": {"body": [["mul", 0, 0]], "ret": 1}, "1": {"body": [["mul", 0, 0], ["mul", 1, 0]], "ret": 2}}},
                   "cube": {"variants": {"0": {"body": [["mul", 0, 0], ["mul", 1, 0]], "ret": 2}}}},
         "main": [["priv", 2], ["call", "v", "0", [0]], ["call", "cube", "0", [1]], ["call", "v", "1", [0]], ["call", "cube", "0", [3]], ["val", 4]]},
        {"id": "corpus-interleave-nested", "flavour": "interleave", "tags": ["corpus"],
         "funcs": {"v": {"variants": {"0": {"body": [["mul", 0, 0]], "ret": 1}, "1": {"body": [["mul", 0, 0], ["mul", 1, 0]], "ret": 2}}},
                   "o1": {"variants": {"0": {"body": [["call", "v", "0", [0]], ["mul", 1, 0]], "ret": 2}}},
                   "o2": {"variants": {"0": {"body": [["call", "v", "1", [0]], ["mul", 1, 0]], "ret": 2}}}},
         "main": [["priv", 3], ["call", "o1", "0", [0]], ["call", "o2", "0", [0]], ["val", 2]]},
        {"id": "corpus-interleave-consistent", "flavour": "interleave", "tags": ["corpus"],
         "funcs": {"v": {"variants": {"0": {"body": [["mul", 0, 0]], "ret": 1}}},
                   "cube": {"variants": {"0": {"body": [["mul", 0, 0], ["mul", 1, 0]], "ret": 2}}}},
         "main": [["priv", 2], ["call", "v", "0", [0]], ["call", "cube", "0", [1]], ["call", "v", "0", [2]], ["val", 3]]},
    ] + corpus_dup() + corpus_staged()


def generate(rnd, n):
    bag = [f for f, w in FLAVOURS for _ in range(w)]
    out = []
    for i in range(n):
        fl = bag[i % len(bag)] if i < len(bag) else rnd.choice(bag)
        if fl == "dup":
            out.extend(Gen(rnd, fl).dup_case(f"g{i}-{fl}"))
        elif fl == "respace":
            out.extend(Gen(rnd, fl).respace_case(f"g{i}-{fl}"))
        elif fl == "staged":
            out.extend(Gen(rnd, fl).staged_case(f"g{i}-{fl}"))
        elif fl in ("guard", "raise", "names", "interleave"):
            out.append(getattr(Gen(rnd, fl), fl + "_case")(f"g{i}-{fl}"))
        else:
            out.append(Gen(rnd, fl).case(f"g{i}-{fl}"))
    return out


# ------------------------------------------------------------------ running the real backend
def run_real(case):
    d = tempfile.mkdtemp(prefix="verif-qap-")
    try:
        env = common.backend_env("qaptools")
        for k in ("PYSNARK_KEYDIR", "PYSNARK_PROOFDIR", "QAPTOOLS_DEBUG"):
            env.pop(k, None)
        pr = subprocess.run([common.PY, os.path.join(common.HARNESS, "worker_qap.py")], cwd=d, env=env, input=json.dumps(case),
                            capture_output=True, text=True, timeout=300)
        if pr.returncode != 0 or not pr.stdout.strip():
            raise common.Infra("worker_qap failed: " + (pr.stderr or pr.stdout)[-1500:])
        return json.loads(pr.stdout.strip().splitlines()[-1])
    finally:
        shutil.rmtree(d, ignore_errors=True)


def run_all(cases):
    with cf.ThreadPoolExecutor(min(12, max(1, len(cases)))) as ex:
        return list(ex.map(run_real, cases))


def body_lines(text):
    """lines of a file written with print(): header comment dropped, final newline not a line"""
    if text is None:
        return None
    ls = text.split("\n")
    if ls and ls[-1] == "":
        ls = ls[:-1]
    return [l for l in ls if not l.startswith("#")]


def model_line(o, flags):
    wires = body_lines(o["files"].get("pysnark_wires")) or []
    deltas = [l.split(": ")[1] for l in wires if re.search(r"/delta[vwy]: ", l)]
    rnds = [l.split(": ")[1] for l in wires if re.search(r"/rnd[12]_[^ ]*: ", l)]
    ev = []
    di = 3; ri = 0
    for e in o["events"]:
        if e.startswith("e:"):
            d = deltas[di:di + 3]; di += 3
            e = e.replace("@D@", ",".join(d + ["0"] * (3 - len(d))))
        elif e.startswith("l:"):
            r = rnds[ri:ri + 4]; ri += 4
            r = r + ["0"] * (4 - len(r))
            e = e.replace("@R@", ",".join([r[0], r[1], r[3]]))
        ev.append(e)
    return f"Q|{o['id']}|{flags}|{o['p']}|{','.join(deltas[:3])}|{';'.join(ev)}"


def parse_model(m):
    f = m.split("|")
    if len(f) < 3 or f[1] == "bad":
        return None
    d = {}
    for x in f[1:]:
        k, _, v = x.partition("=")
        d[k] = v
    def lines(s): return s.split(";") if s != "" else []
    out = {"E": lines(d.get("E", "")), "F": int(d.get("F", "0")), "W": lines(d.get("W", "")), "V": lines(d.get("V", "")), "X": d.get("X"),
           "S": lines(d.get("S", "")), "P": {}, "N": []}
    for fq in [x for x in d.get("P", "").split("^") if x]:
        name, _, ls = fq.partition("=")
        out["P"][name] = lines(ls)
    out["N"] = [tuple(x.split("=")) for x in d.get("N", "").split(",") if x]
    out["I"] = {}
    for fq in [x for x in d.get("I", "").split("^") if x]:
        name, _, text = fq.partition("=")
        out["I"][name] = text
    return out


def prove_status(o):
    pe = o.get("prove")
    if pe is None:
        return "ok"
    cls, msg = pe
    if cls == "ValueError" and msg.startswith("Inconsistent contexts"): return "inconsistent-contexts"
    if cls == "TypeError" and o.get("prove_at", "").startswith("qapsplit.py"): return "empty-block"
    if cls == "ValueError" and msg.startswith("max()") and o.get("prove_at", "").startswith("qapsplit.py"): return "empty-max"
    if cls == "ValueError" and "Inconsistent functions" in msg:
        m = re.search(r"Inconsistent functions: ([^.]+)\.", msg)
        return "inconsistent-functions:" + (m.group(1) if m else "?")
    return f"other:{cls}:{msg[:80]}"


PROTOCOL_RESERVED = "|;,@~^=:#"
DIGEST = re.compile(r"id: (\S+) function: (\S+) digest: (\S+) #constraints: (\d+)")


def md5lines(ls):
    m = hashlib.md5()
    for l in ls:
        m.update(l.encode())
    return m.hexdigest()[:10]


def correspond(o, m):
    """line-exact comparison of everything the real run wrote with the model's emission; returns list of differences"""
    diffs = []
    if any(ch in c["fn"] for c in o["calls"] for ch in PROTOCOL_RESERVED):
        # the function name holds a separator of the HARNESS's line protocol (not of pysnark's file grammar): the trace cannot be
        # handed to the model; the direct oracle on the real files still judges the run (counted as unmodelled)
        return [], True
    if m is None:
        return ["model could not parse the trace"], False
    F = o["files"]
    lenient = False
    eqs = body_lines(F.get("pysnark_eqs")) or []
    def first_diff(a, b):
        for i, (x, y) in enumerate(zip(a, b)):
            if x != y: return f"line {i}: real {x[:160]!r} / model {y[:160]!r}"
        return f"length real {len(a)} / model {len(b)}"
    if eqs != m["E"]: diffs.append("pysnark_eqs: " + first_diff(eqs, m["E"]))
    if (body_lines(F.get("pysnark_wires")) or []) != m["W"]: diffs.append("pysnark_wires: " + first_diff(body_lines(F.get("pysnark_wires")) or [], m["W"]))
    if (body_lines(F.get("pysnark_values")) or []) != m["V"]: diffs.append("pysnark_values: " + first_diff(body_lines(F.get("pysnark_values")) or [], m["V"]))
    disk = o.get("disk")
    if disk is None:
        diffs.append("prove() never read the equation file")
    else:
        dl = body_lines(disk)
        tail_bytes = sum(len(l) + 1 for l in m["E"][m["F"]:])
        if tail_bytes >= 8000 and m["F"] < len(m["E"]):
            lenient = True          # Python's own buffer spilled: between the flush pointer and the whole file
            if not (len(dl) >= m["F"] and (not disk.endswith("\n") or dl == m["E"][:len(dl)])):
                diffs.append("on-disk content at proving time is not a prefix extension of the model's flushed part")
        elif dl != m["E"][:m["F"]]:
            diffs.append(f"on-disk content at proving time: real {len(dl)} lines, model flush pointer {m['F']}: " + first_diff(dl, m["E"][:m["F"]]))
    if lenient:
        return diffs, True
    if any(" " in c["fn"] for c in o["calls"]):
        # a function name with a blank: the model's lines are token lists, a blank inside a token is outside its domain
        return diffs, True
    st = prove_status(o)
    if st != m["X"] and not (m["X"] == "ok" and st.startswith("other:RuntimeError")):
        diffs.append(f"outcome of the split: real {st} / model {m['X']}")
    if m["X"] == "ok" and st == "ok":
        sched = body_lines(F.get("pysnark_schedule")) or []
        if sched != m["S"]: diffs.append("pysnark_schedule: " + first_diff(sched, m["S"]))
        realfiles = {k[len("pysnark_eqs_"):]: v for k, v in F.items() if k.startswith("pysnark_eqs_")}
        if set(realfiles) != set(m["P"]): diffs.append(f"per-function files: real {sorted(realfiles)} / model {sorted(m['P'])}")
        for fn, ls in m["P"].items():
            if fn in realfiles and body_lines(realfiles[fn]) != ls:
                diffs.append(f"pysnark_eqs_{fn}: " + first_diff(body_lines(realfiles[fn]), ls))
        fns = dict(m["N"])
        for call, fn, hs, ncon in DIGEST.findall(o.get("stderr", "")):
            if fns.get(call) != fn: diffs.append(f"call {call}: function {fn} / model {fns.get(call)}")
            elif fn in m["P"] and md5lines(m["P"][fn]) != hs: diffs.append(f"digest of {fn} at call {call}: real {hs} / md5 of the model's text {md5lines(m['P'][fn])}")
        # the digest INPUT: the signature the real code hands to key generation is hashlib's MD5 (first 10 hex digits) of exactly
        # the byte string the model states (Qaptools.digestInput: the lines of the normalised set, in order, nothing in between)
        for fn, sig in (o.get("sigs") or {}).items():
            if fn not in m["I"]:
                diffs.append(f"signature of {fn}: the model states no digest input"); continue
            want = hashlib.md5(m["I"][fn].encode("utf-8")).hexdigest()[:10]
            if want != sig:
                diffs.append(f"signature of {fn} handed to key generation: real {sig} / md5 of the model's digest input {want}")
        if set(m["I"]) != set(o.get("sigs") or m["I"]):
            diffs.append(f"functions with a signature: real {sorted(o.get('sigs') or {})} / model {sorted(m['I'])}")
    return diffs, False


# ------------------------------------------------------------------ direct oracle on the real files (independent of the model)
def toks(line):
    return line.strip().split(" ")


def parse_lc(ts, here=None):
    ts = [t for t in ts if t != ""]
    if len(ts) % 2: raise ValueError("odd linear combination " + " ".join(ts))
    out = []
    for i in range(0, len(ts), 2):
        w = ts[i + 1]
        if "/" not in w:
            if here is None: raise ValueError("bare wire " + w)
            w = here + "/" + w
        out.append((int(ts[i]), w))
    return out


def parse_eq(line, here=None):
    """('lin', L) | ('mul', A, B, C) | ('dir', tokens)"""
    ts = toks(line)
    if ts[0] in ("[function]", "[ioblock]", "[glue]", "[external]"):
        return ("dir", ts)
    if ts[:2] == ["*", "="]:
        return ("lin", parse_lc(ts[2:], here))
    if ts[-1] != "." or "*" not in ts: raise ValueError("not an equation: " + line[:100])
    i = ts.index("*"); j = ts.index("=", i)
    return ("mul", parse_lc(ts[:i], here), parse_lc(ts[i + 1:j], here), parse_lc(ts[j + 1:-1], here))


def eval_lc(lc, val):
    s = 0
    for c, w in lc:
        if w.endswith("/one"): v = 1
        elif w in val: v = val[w]
        else: raise KeyError(w)
        s += c * v
    return s


def eq_holds(e, val, p):
    if e[0] == "lin": return eval_lc(e[1], val) % p == 0
    return (eval_lc(e[1], val) * eval_lc(e[2], val) - eval_lc(e[3], val)) % p == 0


def line_ctxs(line):
    return [t.partition("/")[0] for t in toks(line) if "/" in t]


def strip_ctx(line):
    return " ".join(t.partition("/")[2] if "/" in t else t for t in toks(line))


def multiset_cause(c1, c2):
    """how two normalised equation multisets differ: every line's multiplicities differ by an even number (the lines that make
    the difference come in pairs, e.g. one check emitted twice by one body and not at all by the other) or not"""
    lines = set(c1) | set(c2)
    d = [abs(c1.get(l, 0) - c2.get(l, 0)) for l in lines]
    if not any(d): return "none"
    def squeezed(c): return sorted("".join(l.split()) for l in c.elements())
    if squeezed(c1) == squeezed(c2): return "same-text-up-to-token-boundaries"
    return "even-multiplicity-difference" if all(n % 2 == 0 for n in d) else "odd-multiplicity-difference"


def oracle(case, o):
    """the clauses of C12 checked on the files the real run left; returns list of (signature, message)"""
    bad = []
    p = o["p"]
    F = o["files"]
    eqs = body_lines(F.get("pysnark_eqs")) or []
    disk = body_lines(o.get("disk")) if o.get("disk") is not None else None
    st = prove_status(o)
    # wire and I/O values
    val = {}; dup = None
    iolist = []
    for fn in ("pysnark_wires", "pysnark_values"):
        for l in body_lines(F.get(fn)) or []:
            name, _, v = l.partition(": ")
            if name in val and dup is None: dup = name
            val[name] = int(v)
            if fn == "pysnark_values": iolist.append((name, int(v)))
    if dup: bad.append(({"clause": "wire-unique"}, f"wire {dup} is written twice"))
    if any(n.endswith("/one") for n in val): bad.append(({"clause": "wire-unique"}, "a wire is named like the built-in constant */one"))
    # 1. every equation written is satisfied modulo p
    parsed = []
    for l in eqs:
        try:
            e = parse_eq(l)
            parsed.append((l, e))
            if e[0] != "dir" and not eq_holds(e, val, p):
                bad.append(({"clause": "eq-sat", "where": "linear" if e[0] == "lin" else "product"}, f"equation not satisfied modulo p: {l[:200]}"))
        except KeyError as ke:
            bad.append(({"clause": "eq-sat", "where": "undefined-wire"}, f"wire {ke} of `{l[:120]}` has no value in the wire or I/O file"))
        except ValueError as ve:
            bad.append(({"clause": "eq-sat", "where": "malformed"}, f"malformed equation line: {ve}"))
    # 2. public values: one I/O line per PubVal, tied to a wire of equal value by an equality that is on disk at proving time
    pubs = [int(e[2:]) for e in o["events"] if e.startswith("u:")]
    if [v for _, v in iolist] != pubs:
        bad.append(({"clause": "pub-link", "mode": "io-file-values"}, f"I/O file holds {[v for _, v in iolist][:6]}, the run made public {pubs[:6]}"))
    for name, v in iolist:
        link = [e for l, e in parsed if e[0] == "lin" and len(e[1]) == 2 and e[1][1] == (-1, name) and e[1][0][0] == 1]
        if not link:
            bad.append(({"clause": "pub-link", "mode": "missing-equation"}, f"no equality ties {name} to a wire")); continue
        w = link[0][1][0][1]
        if val.get(w) != v:
            bad.append(({"clause": "pub-link", "mode": "value-mismatch"}, f"{name} = {v} is tied to {w} = {val.get(w)}"))
        if disk is not None and not any(l == f"* = 1 {w} -1 {name}" for l in disk):
            bad.append(({"clause": "pub-link", "mode": "not-on-disk"}, f"the equality for {name} is not in the equation file when prove() reads it"))
    # contexts: each equation in the function context of its variables
    calls = []          # (call, fname) in order of the [function] lines
    blocks = {}         # ctx -> list of (bn, [wires])
    glues = []
    eqs_by_ctx = {}
    mixed = []
    for l, e in parsed:
        if e[0] == "dir":
            t = e[1]
            if t[0] == "[function]": calls.append((t[2], t[1]))
            elif t[0] == "[ioblock]":
                ws = [x for x in t[3:] if x != ""]
                blocks.setdefault(t[1], []).append((t[2], ws))
                if any(w.partition("/")[0] != t[1] for w in ws): mixed.append(l)
            elif t[0] == "[glue]": glues.append(t[1:5])
            continue
        cs = set(line_ctxs(l))
        if len(cs) > 1: mixed.append(l)
        else: eqs_by_ctx.setdefault(next(iter(cs)) if cs else None, []).append(strip_ctx(l))
    uncopied = {}       # wires of uncopied (non-LinComb) argument leaves per call
    for c in o["calls"]:
        for leaf in (c["args"] or []) + (c["rets"] or []):
            if leaf and leaf[0] in "BX":
                for term in [t for t in leaf.split("~")[2].split(",") if t]:
                    uncopied.setdefault(term.split("@")[1], leaf[0])
    slashed = sorted({c["fn"] for c in o["calls"] if "/" in c["fn"] or " " in c["fn"]})
    guard_wires = set()     # wires of the guards in effect when a call was entered or returned
    for c in o["calls"]:
        for gs in (c.get("guard_in"), (c.get("guard") or [None])[0]):
            for term in [t for t in (gs or "").split(",") if t]:
                guard_wires.add(term.split("@")[1])
    leaks = [x for x in o.get("after_exception", []) if x[0] != x[1]]
    for l in mixed[:3]:
        cs = line_ctxs(l); ws = [t for t in toks(l) if "/" in t]
        foreign = [w for w in ws if w.partition("/")[0] != max(set(cs), key=cs.count)]
        if slashed: cause = "name-separator"
        elif leaks: cause = "context-after-exception"
        elif foreign and all(w == "main/onex" for w in foreign): cause = "global-one"
        elif any(w in uncopied for w in ws): cause = "uncopied-" + next(uncopied[w] for w in ws if w in uncopied)
        elif foreign and all(w in guard_wires for w in foreign): cause = "guard-across-call"
        elif any(w in guard_wires for w in ws) and len({w.partition("/")[0] for w in ws if w not in guard_wires}) <= 1: cause = "guard-across-call"
        else: cause = "other"
        bad.append(({"clause": "split-context", "cause": cause}, f"equation mixes contexts {sorted(set(cs))} ({cause}); prove(): {st}: {l[:160]}"))
    if slashed and not mixed and st != "ok":
        bad.append(({"clause": "split-error", "cause": "name-separator"}, f"function name {slashed[0]!r} contains a separator of the file grammar; prove(): {st}"))
    # an exception raised in a body and caught outside it: the backend has to be back in the context the handler belongs to
    for c0, c1 in leaks[:2]:
        bad.append(({"clause": "split-context", "cause": "context-after-exception"},
                    f"after an exception raised inside a @subqap body was caught in context {c0}, the current context is still {c1}: "
                    f"everything traced from here on is written into the aborted call; prove(): {st}"))
    empty = [(c, bn) for c, bl in blocks.items() for bn, ws in bl if not ws]
    if empty:
        bad.append(({"clause": "split-error", "cause": "empty-block"}, f"[ioblock] {empty[0][0]} {empty[0][1]} lists no wire; prove(): {st}"))
    if st.startswith("other:") and not st.startswith("other:RuntimeError"):
        bad.append(({"clause": "split-error", "cause": st[:60]}, f"prove() failed: {st}"))
    # 3. split: per-function files = multiset of traced equations of each call of that function (+ its blocks)
    def expected(call):
        return Counter(eqs_by_ctx.get(call, []) + ["[ioblock] " + bn + " " + " ".join(w.partition("/")[2] for w in ws) for bn, ws in blocks.get(call, [])])
    fnames = {}
    for call, fn in calls:
        fnames.setdefault(fn, []).append(call)
    # all calls of one name: identical normalised multiset of lines (a line emitted twice counts twice: qapsplit keeps, sorts,
    # writes and digests duplicate lines), else the inconsistency has to be reported
    inconsistent = [fn for fn, cl in fnames.items() if any(expected(c) != expected(cl[0]) for c in cl)]
    how = {fn: next(multiset_cause(expected(cl[0]), expected(c)) for c in cl if expected(c) != expected(cl[0])) for fn, cl in fnames.items()
           if fn in inconsistent}
    o["_fnsets"] = {}
    crashed = st in ("inconsistent-contexts", "empty-block", "empty-max") or st.startswith("other:")
    if st == "empty-max":
        nothing = disk is not None and not any(toks(l)[0] in ("[function]", "[ioblock]") for l in disk)
        bad.append(({"clause": "split-complete", "mode": "unflushed-tail" if nothing else "other"},
                    f"prove() fails ({o['prove'][1][:60]}): the equation file holds {len(disk or [])} of {len(eqs)} lines when it is read back"))
    # a line torn by Python's own buffer spill: the file read back ends in the middle of a line
    torn = None
    if o.get("disk") and not o["disk"].endswith("\n") and disk:
        torn = strip_ctx(disk[-1])
    if inconsistent and not crashed and not st.startswith("inconsistent-functions"):
        # may be legitimately invisible at proving time if the difference sits in the unflushed tail
        fn = inconsistent[0]
        other = next(c for c in fnames[fn] if expected(c) != expected(fnames[fn][0]))
        e0, e1 = expected(fnames[fn][0]), expected(other)
        delta = sorted(((e0 - e1) + (e1 - e0)).items())
        bad.append(({"clause": "same-function", "mode": "unreported", "cause": how[fn]},
                    f"calls {fnames[fn][0]} and {other} of `{fn}` have different equation multisets ({how[fn]}: "
                    f"{'; '.join(f'{n} x `{l}`' for l, n in delta[:3])}) and prove() reported nothing (signature {(o.get('sigs') or {}).get(fn)})"))
    if st.startswith("inconsistent-functions") and not inconsistent:
        bad.append(({"clause": "same-function", "mode": "spurious"}, f"prove() reported {st} although all calls of every function have equal equation sets"))
    if not crashed and not mixed and not empty and not st.startswith("inconsistent-functions"):
        # which files belong to which function is read from the schedule (the interface to the external tools), not assumed:
        # `[function] <call> <eqs file> <ek file> <vk file>`; every function has files of its OWN
        sched_files = {}
        for l in body_lines(F.get("pysnark_schedule")) or []:
            t = toks(l)
            if t[0] == "[function]" and len(t) >= 5: sched_files[t[1]] = t[2:5]
        owner = {}
        for fn, cl in fnames.items():
            for call in cl:
                for role, fname in zip(("equation", "evaluation-key", "verification-key"), sched_files.get(call, [])):
                    other = owner.setdefault((role, fname), fn)
                    if other != fn:
                        bad.append(({"clause": "split-complete", "mode": "functions-share-file", "role": role},
                                    f"the schedule names the {role} file {fname} for call {call} of `{fn}` and for calls of `{other}`: two "
                                    f"functions with different names share one file"))
            named = {sched_files[c][0] for c in cl if c in sched_files}
            if len(named) > 1:
                bad.append(({"clause": "schedule", "mode": "one-function-several-files"}, f"calls of `{fn}` are pointed at {sorted(named)}"))
        bad[:] = [b for i, b in enumerate(bad) if b[0].get("mode") != "functions-share-file" or
                  i == next(k for k, x in enumerate(bad) if x[0] == b[0])]
        for fn, cl in fnames.items():
            eqfile = next((sched_files[c][0] for c in cl if c in sched_files), "pysnark_eqs_" + fn)
            got = body_lines(F.get(eqfile))
            if got is None:
                on_disk_fn = disk is not None and any(toks(l)[:2] == ["[function]", fn] for l in disk)
                bad.append(({"clause": "split-complete", "mode": "unflushed-tail" if not on_disk_fn else "no-file"}, f"no {eqfile} (the per-function equation file of `{fn}`)")); continue
            if any("/" in l for l in got):
                bad.append(({"clause": "split-context", "cause": "context-not-stripped"}, f"{eqfile} names a context"))
            for call in cl:
                exp = expected(call)
                if fn in inconsistent:
                    # nothing was reported: the one file written for the name has to hold every traced equation of every call
                    missing = exp - Counter(got)
                    if missing:
                        bad.append(({"clause": "split-complete", "mode": "call-equations-missing", "cause": how[fn]},
                                    f"{eqfile} lacks {sum(missing.values())} line(s) traced by call {call} ({how[fn]} between the "
                                    f"calls of `{fn}`), e.g. {missing[next(iter(missing))]} x `{next(iter(missing))[:120]}`"))
                        break
                    continue
                missing = exp - Counter(got); extra = Counter(got) - exp
                if torn is not None and extra.get(torn):
                    extra = extra - Counter([torn])      # the torn line was filed as an equation: part of the unflushed tail
                if missing or extra:
                    # where do the missing equations sit in the equation file?
                    tail = Counter(strip_ctx(l) for l in eqs[len(disk) - (1 if torn is not None else 0):]) if disk is not None else Counter()
                    mode = "unflushed-tail" if missing and not extra and not (missing - tail) else "other"
                    bad.append(({"clause": "split-complete", "mode": mode},
                                f"{eqfile} (named by the schedule for `{fn}`) vs call {call}: {sum(missing.values())} traced equation(s) missing, {sum(extra.values())} extra"
                                f"{' (and a line torn in the middle filed as an equation)' if torn is not None else ''}; e.g. {next(iter(missing or extra))[:120]}"))
                    break
            if got != sorted(got):
                bad.append(({"clause": "split-complete", "mode": "not-normalised"}, f"{eqfile} is not sorted"))
            # every equation of the per-function file holds for every call of the function
            for call in cl:
                for l in got:
                    if l == torn: continue
                    try:
                        e = parse_eq(l, call)
                        if e[0] != "dir" and not eq_holds(e, val, p):
                            bad.append(({"clause": "split-sat"}, f"`{l[:100]}` of {eqfile} is not satisfied by the wires of call {call}")); break
                    except (KeyError, ValueError) as ex:
                        bad.append(({"clause": "split-sat"}, f"`{l[:100]}` of {eqfile} for call {call}: {type(ex).__name__} {ex}")); break
        # digests: equal for equal names, printed for every call
        dg = {}
        for call, fn, hs, _ in DIGEST.findall(o.get("stderr", "")):
            dg.setdefault(fn, set()).add(hs)
        for fn, hs in dg.items():
            if len(hs) > 1: bad.append(({"clause": "same-function", "mode": "digests-differ-unreported"}, f"`{fn}`: digests {sorted(hs)} and no error"))
        # what a later run of the same name is compared with (cross_run): the multiset of the name and the signature for key generation
        sigs = o.get("sigs") or {fn: next(iter(hs)) for fn, hs in dg.items() if len(hs) == 1}
        for fn, cl in fnames.items():
            if fn not in inconsistent and fn in sigs:
                o["_fnsets"][fn] = (expected(cl[0]), sigs[fn])
        # schedule
        sched = body_lines(F.get("pysnark_schedule")) or []
        want = []
        for l in disk or []:
            t = toks(l)
            if t[0] == "[function]": want.append(f"[function] {t[2]} pysnark_eqs_{t[1]} pysnark_ek_{t[1]} pysnark_vk_{t[1]}")
            elif t[0] == "[glue]": want.append(l.strip())
        if sched != want:
            bad.append(({"clause": "schedule"}, f"pysnark_schedule has {len(sched)} lines, the equation file calls for {len(want)}"))
    # 4. glue: every call is tied to its caller by paired blocks listing all arguments and results, pairwise equal values
    done = [c for c in o["calls"] if c["rets"] is not None and c["call"]]
    by_callee = {g[2]: g for g in glues}
    for c in done:
        g = by_callee.get(c["call"])
        if g is None:
            bad.append(({"clause": "glue-lists-all", "cause": "no-glue"}, f"call {c['call']} of `{c['fn']}` has no [glue] line")); continue
        b1 = [ws for bn, ws in blocks.get(g[0], []) if bn == g[1]]; b2 = [ws for bn, ws in blocks.get(g[2], []) if bn == g[3]]
        if len(b1) != 1 or len(b2) != 1:
            bad.append(({"clause": "glue-lists-all", "cause": "no-block"}, f"[glue] {' '.join(g)}: blocks found {len(b1)}/{len(b2)}")); continue
        ws1, ws2 = b1[0], b2[0]
        leaves = [x for x in c["args"] + c["rets"] if x]
        if len(ws1) != len(ws2):
            bad.append(({"clause": "glue-lists-all", "cause": "length"}, f"[glue] {' '.join(g)}: blocks of different length {len(ws1)}/{len(ws2)}")); continue
        if len(ws1) != len(leaves):
            kinds = sorted({x[0] for x in leaves if x[0] != "L"})
            nL = len([x for x in leaves if x[0] == "L"])
            cause = "missing-L" if len(ws1) != nL else "uncopied-" + kinds[0]
            bad.append(({"clause": "glue-lists-all", "cause": cause},
                        f"call {c['call']} of `{c['fn']}` has {len(leaves)} wire-carrying arguments/results ({''.join(x[0] for x in leaves)}), its blocks list {len(ws1)}"))
        Ls = [x for x in leaves if x[0] == "L"]
        if disk is not None and not any(toks(l)[:1] == ["[glue]"] and toks(l)[1:5] == g for l in disk):
            bad.append(({"clause": "glue-lists-all", "cause": "not-on-disk"}, f"[glue] {' '.join(g)} is not on disk at proving time"))
        for i, (w1, w2) in enumerate(zip(ws1, ws2)):
            if w1 not in val or w2 not in val:
                bad.append(({"clause": "glue-equal", "cause": "undefined-wire"}, f"[glue] {' '.join(g)}: {w1} or {w2} has no value")); break
            if (val[w1] - val[w2]) % p != 0:
                cause = "other"
                if len(ws1) == len(Ls):
                    terms = [t for t in Ls[i].split("~")[2].split(",") if t]
                    if len(terms) == 1 and int(terms[0].split("@")[0]) != 1: cause = "single-term-coefficient"
                bad.append(({"clause": "glue-equal", "cause": cause},
                            f"call {c['call']} of `{c['fn']}`: paired wires {w1} = {val[w1]} and {w2} = {val[w2]} differ ({cause})")); break
        r1, r2 = val.get(f"{g[0]}/rnd1_{g[1]}"), val.get(f"{g[2]}/rnd1_{g[3]}")
        if r1 is None or r1 != r2:
            bad.append(({"clause": "glue-equal", "cause": "rnd1"}, f"[glue] {' '.join(g)}: the blocks' rnd1 values differ or are missing"))
    if len(glues) != len(done):
        bad.append(({"clause": "glue-lists-all", "cause": "count"}, f"{len(done)} completed calls, {len(glues)} [glue] lines"))
    return bad


# ------------------------------------------------------------------ several proving steps in one process
def fresh_split(lines):
    """reference splitter (independent of qapsplit.py, stateless): what a split of exactly these equation-file lines has to
    produce.  Returns None if the lines are outside its domain (an equation mixing contexts, a block without wires), else
    {"calls": [(call, fn)], "per_fn": {fn: Counter of normalised lines}, "inconsistent": [fn], "schedule": [lines]}"""
    calls = []; per_ctx = {}; sched = []
    for l in lines:
        t = toks(l)
        if t[0] == "[function]":
            calls.append((t[2], t[1])); per_ctx.setdefault(t[2], Counter())
            sched.append(f"[function] {t[2]} pysnark_eqs_{t[1]} pysnark_ek_{t[1]} pysnark_vk_{t[1]}")
        elif t[0] == "[ioblock]":
            ws = [x for x in t[3:] if x != ""]
            if not ws or any(w.partition("/")[0] != t[1] for w in ws): return None
            per_ctx.setdefault(t[1], Counter())["[ioblock] " + t[2] + " " + " ".join(w.partition("/")[2] for w in ws)] += 1
        elif t[0] == "[glue]":
            sched.append(l.strip())
        elif t[0] == "[external]":
            return None
        else:
            cs = set(line_ctxs(l))
            if len(cs) != 1: return None
            per_ctx.setdefault(next(iter(cs)), Counter())[strip_ctx(l)] += 1
    per_fn = {}; inconsistent = []
    for call, fn in calls:
        if fn not in per_fn: per_fn[fn] = per_ctx[call]
        elif per_fn[fn] != per_ctx[call] and fn not in inconsistent: inconsistent.append(fn)
    if set(per_ctx) - {c for c, _ in calls}: return None
    return {"calls": calls, "per_fn": per_fn, "inconsistent": inconsistent, "schedule": sched}


def file_vs_reference(got, ref):
    """how the lines of a per-function file (list) differ from the reference multiset: None | (mode, message)"""
    g = Counter(got)
    if g == ref: return None
    absent = [l for l in ref if l not in g]
    if absent:
        return "lines-missing", f"{len(absent)} of its {len(ref)} distinct lines are absent, e.g. `{sorted(absent)[0][:120]}`"
    foreign = [l for l in g if l not in ref]
    if foreign:
        return "lines-foreign", f"{len(foreign)} line(s) that the equation file does not hold for this function, e.g. `{sorted(foreign)[0][:120]}`"
    fewer = [l for l in ref if g[l] < ref[l]]
    if fewer:
        return "lines-missing", f"`{fewer[0][:120]}` is present {g[fewer[0]]} time(s), traced {ref[fewer[0]]} times"
    more = sorted(l for l in ref if g[l] > ref[l])
    return "lines-duplicated", (f"every line is present, {len(more)} of {len(ref)} distinct lines more often than traced "
                                f"(e.g. `{more[0][:100]}`: {g[more[0]]} time(s), traced {ref[more[0]]})")


def staged_oracle(case, o, fresh=None):
    """repeated proving steps in one process: after EVERY step the schedule and the per-function files equal a fresh split of the
    equation file the step read (every traced equation and block present, in the function context of its variables, as often as
    traced), the step ends as a fresh split ends, and the signatures handed to key generation are those of the fresh split;
    after the LAST step the files are those of the same program text run in a fresh interpreter with one prove() (`fresh`: the
    twin's result).  Returns list of (signature, message)."""
    bad = []
    steps = o.get("steps") or []
    nsteps = len(steps)
    if o["run"] != "ok":
        return [({"clause": "resplit", "mode": "program-raised"}, f"the program raised: {o['run'][:160]}")]
    for k, st in enumerate(steps, 1):
        where = f"proving step {k} of {nsteps}" + (f" (inside call {st['ctx']})" if st.get("ctx") not in (None, "main") else "")
        nth = "first" if k == 1 else "later"
        if st.get("disk") is None:
            bad.append(({"clause": "resplit", "mode": "equation-file-not-read", "step": nth}, f"{where}: prove() did not read the equation file")); continue
        ref = fresh_split(body_lines(st["disk"]))
        if ref is None or ref["inconsistent"]:
            continue            # outside the class generated here (judged by the single-step oracle on ordinary cases)
        status = prove_status({"prove": st.get("prove"), "prove_at": st.get("prove_at", "")})
        if status != "ok":
            mode = "spurious-inconsistent-functions" if status.startswith("inconsistent-functions") else "step-raised"
            bad.append(({"clause": "resplit", "mode": mode, "step": nth},
                        f"{where}: prove() ends with {status} ({(st.get('prove') or ['', ''])[1][:120]}); a fresh split of the {len(body_lines(st['disk']))} "
                        f"lines it read finds every function consistent ({', '.join(f'{fn}: {sum(c.values())} lines' for fn, c in list(ref['per_fn'].items())[:4])})"))
            continue            # the files of a step that raised are not defined
        F = st["files"]
        sched = body_lines(F.get("pysnark_schedule"))
        if sched != ref["schedule"]:
            bad.append(({"clause": "resplit", "mode": "schedule-differs", "step": nth},
                        f"{where}: pysnark_schedule has {len(sched or [])} lines, a fresh split of the equation file {len(ref['schedule'])}"))
        for fn, want in ref["per_fn"].items():
            got = body_lines(F.get("pysnark_eqs_" + fn))
            if got is None:
                bad.append(({"clause": "resplit", "mode": "no-file", "step": nth}, f"{where}: no pysnark_eqs_{fn}")); continue
            d = file_vs_reference(got, want)
            if d is not None:
                ctxs = [c for c, f in ref["calls"] if f == fn]
                bad.append(({"clause": "resplit", "mode": d[0], "step": nth, "ref": "fresh-split-of-the-equation-file"},
                            f"{where}: pysnark_eqs_{fn} (calls {', '.join(ctxs[:3])}) is not the fresh split of the equation file the step read: {d[1]}; "
                            f"file {len(got)} lines, traced {sum(want.values())}"))
                continue
            if got != sorted(got):
                bad.append(({"clause": "resplit", "mode": "not-normalised", "step": nth}, f"{where}: pysnark_eqs_{fn} is not sorted"))
            sig = (st.get("sigs") or {}).get(fn)
            if sig is not None and sig != md5lines(sorted(want.elements())):
                bad.append(({"clause": "resplit", "mode": "signature-not-of-fresh-split", "step": nth},
                            f"{where}: key generation gets signature {sig} for `{fn}`, its equations have {md5lines(sorted(want.elements()))}"))
        stale = sorted(set(k_ for k_ in F if k_.startswith("pysnark_eqs_")) - {"pysnark_eqs_" + fn for fn in ref["per_fn"]})
        if stale:
            bad.append(({"clause": "resplit", "mode": "file-of-no-function", "step": nth}, f"{where}: {stale[0]} belongs to no function of the equation file"))
    # the last step against the same program text in a fresh interpreter (one prove() at the end)
    if fresh is not None and steps and prove_status(fresh) == "ok" and fresh["run"] == "ok":
        last = steps[-1]
        if body_lines(last.get("disk")) != body_lines(fresh.get("disk")):
            bad.append(({"clause": "resplit", "mode": "equation-file-differs-from-fresh-run"},
                        f"the equation file read by the last proving step differs from the one of the same program with a single prove()"))
        elif prove_status({"prove": last.get("prove"), "prove_at": last.get("prove_at", "")}) == "ok":
            for name, text in sorted(fresh["files"].items()):
                if not (name.startswith("pysnark_eqs_") or name == "pysnark_schedule"): continue
                got = body_lines(last["files"].get(name))
                if got is None:
                    bad.append(({"clause": "resplit", "mode": "no-file", "step": "later"}, f"last of {nsteps} proving steps: no {name}; the same program with a single prove() writes it")); continue
                if name == "pysnark_schedule":
                    d = None if got == body_lines(text) else ("schedule-differs", "")
                else:
                    d = file_vs_reference(got, Counter(body_lines(text)))
                if d is not None:
                    bad.append(({"clause": "resplit", "mode": d[0], "step": "later", "ref": "fresh-process"},
                                f"last of {nsteps} proving steps: {name} differs from the file the same program writes in a fresh interpreter with a single prove(): {d[1]}"))
    return bad


def cross_run(seen, case, o):
    """two runs, one function name: the signatures handed to key generation (runqapgenf.ensure_ek re-uses the keys on disk when the
    signature is the one stored in them) differ whenever the normalised equation multisets differ, and are equal when they are
    equal. `seen`: name -> (multiset -> (signature, case), signature -> [(multiset, case)]) of the earlier runs.
    Returns list of (signature, message, [case, case])"""
    bad = []
    for fn, (ms, sg) in (o.get("_fnsets") or {}).items():
        by_ms, by_sig = seen.setdefault(fn, ({}, {}))
        key = frozenset(ms.items())
        if key in by_ms:
            sg0, case0 = by_ms[key]
            if sg0 != sg:
                bad.append(({"clause": "signature", "mode": "same-equations-different-signature"},
                            f"`{fn}` has the same equation multiset in runs {case0['id']} and {case['id']} but signatures {sg0} / {sg}", [case0, case]))
            continue
        for ms0, case0 in by_sig.get(sg, [])[:1]:
            cause = multiset_cause(ms0, ms)
            delta = sorted(((ms0 - ms) + (ms - ms0)).items())
            bad.append(({"clause": "signature", "mode": "different-equations-same-signature", "cause": cause},
                        f"`{fn}`: runs {case0['id']} and {case['id']} trace different equation multisets ({cause}: "
                        f"{'; '.join(f'{n} x `{l}`' for l, n in delta[:3])}) but key generation gets the same signature {sg}: keys are re-used",
                        [case0, case]))
        by_ms[key] = (sg, case)
        by_sig.setdefault(sg, []).append((ms, case))
    return bad


# ------------------------------------------------------------------ entry points
def check_cases(ex, cases):
    outs = run_all(cases)
    modelled = [i for i, c in enumerate(cases) if not c.get("staged")]
    ml = dict(zip(modelled, common.lean_driver([model_line(outs[i], FLAGS) for i in modelled])))
    if not hasattr(ex, "c12_fresh"): ex.c12_fresh = {}
    for i, (case, o) in enumerate(zip(cases, outs)):
        m = ml.get(i)
        ex.evaluations += 1
        if "staged:fresh-twin" in case.get("tags", []):
            ex.c12_fresh[case["id"]] = {k: o.get(k) for k in ("run", "prove", "prove_at", "disk", "files")}
        if case.get("staged"):
            # several proving steps in one process: judged by the direct oracle only (the model describes ONE split of one file)
            ex.count("flavour:staged"); ex.unmodelled += 1
            for t in case.get("tags", []): ex.count(t)
            ex.count(f"proving-steps:{len(o.get('steps') or [])}")
            sts = [prove_status({"prove": s_.get("prove"), "prove_at": s_.get("prove_at", "")}).split(":")[0] for s_ in o.get("steps") or []]
            for s_ in sts: ex.count("staged-step:" + s_)
            ex.distinct.add(("staged", len(o["calls"]), tuple(sts), tuple(t for t in case.get("tags", []) if t.startswith("staged"))))
            for sig, msg in staged_oracle(case, o, ex.c12_fresh.get(case["id"] + "-fresh")):
                ex.violations.append(Violation(sig, f"{sig.get('clause')}: {msg}", {"case": case}))
            continue
        fl = case.get("flavour", "?")
        ex.count(f"flavour:{fl}")
        for t in case.get("tags", []): ex.count(t)
        ncalls = len(o["calls"]); depth = max([c["call"].count("_") // 2 for c in o["calls"] if c["call"]] + [0])
        ex.count(f"calls:{min(ncalls, 6)}"); ex.count(f"call-depth:{depth}")
        st = prove_status(o)
        ex.count(f"prove:{st.split(':')[0]}")
        if o["run"] != "ok":
            ex.count("run:raised"); ex.notes.append(f"{case['id']}: program raised {o['run'][:120]}")
        ex.distinct.add((fl, ncalls, depth, st.split(":")[0], len(o["events"]) // 4, tuple(t for t in case.get("tags", []) if t.startswith(("arg:", "ret:", "value:", "dup:")))))
        diffs, lenient = correspond(o, parse_model(m))
        if lenient: ex.unmodelled += 1; ex.count("buffer-spill")
        if diffs:
            ex.disagreements.append({"case": case["id"], "diff": diffs[:3], "replay": case})
        elif not lenient:
            ex.traces_validated += 1
        for sig, msg in oracle(case, o):
            ex.violations.append(Violation(sig, f"{sig.get('clause')}: {msg}", {"case": case}))
        if not hasattr(ex, "c12_seen"): ex.c12_seen = {}
        for sig, msg, pair in cross_run(ex.c12_seen, case, o):
            ex.violations.append(Violation(sig, f"{sig.get('clause')}: {msg}", {"cases": pair}))
        if o.get("_fnsets"): ex.count("cross-run:functions-with-signature", len(o["_fnsets"]))
        if len(ex.samples) < 6 and ncalls:
            ex.samples.append({"case": {k: case[k] for k in ("id", "funcs", "main")}, "model_line": model_line(o, FLAGS)[:500]})


def explore(ctx, extended=False, focus=None):
    ex = Exploration()
    ex.rule = ("programs over the public API (PrivVal/PubVal, +, -, *, scaling, <, ==, val()) with @subqap functions called once, repeatedly, "
               "nested, interleaved (f, g, f: a later non-adjacent call of an earlier-seen function with another body, directly and through two "
               "different callers), with list/tuple/int arguments, one-term/multi-term/scaled arguments, LinCombBool/LinCombFxp leaves, functions "
               "without LinComb leaves, same-named functions with different bodies, same-named functions whose bodies differ only in how "
               "often a check on existing wires (x*(1-x)=0, a*b=c, assert_eq, assert_zero) is emitted (0..6 copies per call: equal, "
               "differing by an odd number, differing by an even number; directly and through a caller that is itself a sub-circuit; and "
               "as two separate runs of one program text whose signatures for key generation are compared); sessions with 2-3 proving steps in "
               "one process and tracing in between (main, new calls of old functions, new functions, a body in progress), each step compared "
               "with a fresh split of the equation file and the last one with a fresh single-prove run; witness values small, "
               "negative, >= p, wider than 256 bits; each case is one fresh interpreter running the real backend and its prove() with stub binaries; for each: every "
               "file line vs the Lean model run on the recorded backend-level trace, and the clause checks of the direct oracle on the "
               "real files; distinct = (flavour, #calls, depth, prove outcome, trace size, argument/result/value classes)")
    n = ctx.n(135, 2000) * (2 if extended else 1)
    cases = ([] if extended else corpus()) + generate(ctx.rnd, n)
    for i in range(0, len(cases), 400):
        check_cases(ex, cases[i:i + 400])
    return ex


def replay(ctx, payload):
    if "cases" in payload.get("replay", {}):
        # a cross-run violation: the runs in order, then the comparison of their signatures
        seen = {}; rc = 0
        for case in payload["replay"]["cases"]:
            o = run_real(case)
            print("case :", json.dumps({k: case[k] for k in ("id", "funcs", "main")})[:3000])
            print("prove:", prove_status(o), " signatures for key generation:", o.get("sigs"))
            for name, text in o["files"].items():
                if name.startswith("pysnark_eqs"): print(f"== {name}\n{text}")
            for sig, msg in oracle(case, o):
                print("ORACLE", json.dumps(sig), msg); rc = 1
            for sig, msg, _ in cross_run(seen, case, o):
                print("ORACLE", json.dumps(sig), msg); rc = 1
        return rc
    case = payload["replay"]["case"] if "replay" in payload and "case" in payload.get("replay", {}) else payload.get("case")
    if case is None and payload.get("correspondence_disagreements"):
        case = payload["correspondence_disagreements"][0]["replay"]
    if case.get("staged"):
        o = run_real(case); fresh = run_real(without_proving_steps(case))
        print("case :", json.dumps({k: case[k] for k in ("id", "funcs", "main")})[:3000])
        for k, st in enumerate(o.get("steps") or [], 1):
            print(f"==== proving step {k}: {prove_status({'prove': st.get('prove'), 'prove_at': st.get('prove_at', '')})}  signatures: {st.get('sigs')}")
            print(f"== pysnark_eqs as read by the step\n{st.get('disk')}")
            for name, text in st["files"].items(): print(f"== {name}\n{text}")
        print("==== the same program, fresh interpreter, one prove()")
        for name, text in fresh["files"].items():
            if name.startswith("pysnark_eqs_") or name == "pysnark_schedule": print(f"== {name}\n{text}")
        bad = staged_oracle(case, o, fresh)
        for sig, msg in bad:
            print("ORACLE", json.dumps(sig), msg)
        return 1 if bad else 0
    o = run_real(case)
    m = common.lean_driver([model_line(o, FLAGS)])[0]
    print("case :", json.dumps({k: case[k] for k in ("id", "funcs", "main")})[:3000])
    print("prove:", prove_status(o))
    for name, text in o["files"].items():
        print(f"== {name}\n{text}")
    diffs, _ = correspond(o, parse_model(m))
    print("model vs files:", diffs or "identical")
    bad = oracle(case, o)
    for sig, msg in bad:
        print("ORACLE", json.dumps(sig), msg)
    return 1 if bad or diffs else 0
