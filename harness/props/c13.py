"""C13 — backend linear combinations: faithful immutable algebra over a prime field."""
from .. import common
from ..framework import Exploration, Violation

BACKENDS = ["snarkjs", "zkinterface", "zkifbellman", "zkifbulletproofs", "qaptools"]
GEN_NAME = {"snarkjs": "snarkjs_p", "zkinterface": "zkif_p", "zkifbellman": "bellman_p",
            "zkifbulletproofs": "bulletproofs_p", "qaptools": "qaptools_p"}
CURVE = {"snarkjs": common.BN128, "zkinterface": common.BN128, "qaptools": common.BN128,
         "zkifbellman": common.BLS381, "zkifbulletproofs": common.ED25519}
ASSUMPTIONS = ["libsnark's native linear-combination class cannot be loaded in this sandbox: not covered",
               "that the three literals of Spec/Curves.lean are the published group orders of BN254, BLS12-381 and Curve25519",
               "the zkinterface backends are loaded with the flatbuffers stand-in (harness/fbshim); their LC class does not use it",
               "several backends in one process: after the pass on the freshly selected backend, 2-3 modules of the registry that belong "
               "to OTHER backend families (snarkjs / zkinterface incl. its bellman and bulletproofs variants, which carry other fields / "
               "qaptools / nobackend) are imported into the same interpreter one after the other, and after each import the selected "
               "backend is exercised again (expressions vs model and vs the field expression, operands unaltered, inverses) and must "
               "still report the modulus of its curve; variants of the SAME family are not co-loaded (importing zkinterface.backendbellman "
               "re-parameterises zkinterface.backend itself: C19-derived-preimport); the libsnark modules are not co-loaded"]
FAMILY_OF_MODULE = [("pysnark.zkinterface.", "zkinterface"), ("pysnark.qaptools.", "qaptools"), ("pysnark.snarkjsbackend", "snarkjs"),
                    ("pysnark.nobackend", "nobackend"), ("pysnark.libsnark.", "libsnark")]
FAMILY = {"snarkjs": "snarkjs", "zkinterface": "zkinterface", "zkifbellman": "zkinterface", "zkifbulletproofs": "zkinterface",
          "qaptools": "qaptools"}


def family(module):
    return next((fam for pre, fam in FAMILY_OF_MODULE if module.startswith(pre)), "?")


def coload_plan(rnd, be, registry):
    """2-3 registry modules of other families, in random order; one with another field first in line when there is one"""
    mods = [m for _, m in registry if family(m) not in (FAMILY[be], "libsnark", "?")]
    other_field = [m for m in mods if m.endswith(("backendbellman", "backendbulletproofs"))]
    rnd.shuffle(mods)
    plan = mods[:rnd.choice([2, 3])]
    if other_field and not any(m in other_field for m in plan):
        plan[rnd.randrange(len(plan))] = rnd.choice(other_field)
    return plan


def worker_env():
    """every backend module of the registry must be importable in the worker: flatbuffers stand-in and stub binaries for all"""
    import os
    env = {"QAPTOOLS_BIN": common.stub_dir("qaptools")}
    fb = os.path.join(common.HARNESS, "fbshim")
    pp = [x for x in common.backend_env("zkinterface").get("PYTHONPATH", "").split(os.pathsep) if x]
    env["PYTHONPATH"] = os.pathsep.join(pp)
    return env
PARTIAL = []


def gen_expr(rnd, depth, p, sig):
    if depth == 0 or rnd.random() < 0.25:
        c = rnd.random()
        if c < 0.1:
            return "Z"
        if c < 0.2 and not sig:
            return "O"
        if sig:
            return f"V main/{rnd.randrange(1, 5)}"
        return f"V {rnd.choice([0, 1, 2, 3, -1, -2, -3])}"
    c = rnd.random()
    if c < 0.35:
        return f"A {gen_expr(rnd, depth - 1, p, sig)} {gen_expr(rnd, depth - 1, p, sig)}"
    if c < 0.65:
        return f"S {gen_expr(rnd, depth - 1, p, sig)} {gen_expr(rnd, depth - 1, p, sig)}"
    if c < 0.75:
        return f"N {gen_expr(rnd, depth - 1, p, sig)}"
    k = rnd.choice([0, 1, -1, 2, -3, p, p - 1, p + 1, -p, 2 * p + 5, rnd.randrange(-2 ** 260, 2 ** 260), rnd.randrange(-50, 50)])
    return f"M {k} {gen_expr(rnd, depth - 1, p, sig)}"


def inv_args(rnd, p, n):
    base = [1, -1, 2, -2, 3, 64, 65, p - 1, p + 1, -p + 1, 2 * p - 1, 0, p, -p, 2 * p, 7 * p, p * p + 1]
    return base + [rnd.choice([1, -1]) * rnd.randrange(1, 2 ** rnd.choice([8, 64, 254, 300])) for _ in range(n)]


def explore(ctx, extended=False, focus=None):
    ex = Exploration()
    ex.rule = ("per backend (one interpreter each, selected through PYSNARK_BACKEND): random expression trees of depth <= 5 over "
               "variables/constants/scalars {0, +-1, small, p, p+-1, -p, >p, 260-bit} built with the real LinearCombination/Sig "
               "class; compared structurally (insertion order, zero coefficients) with the Lean model, evaluated against an "
               "independent evaluator on a random assignment, operands snapshotted before/after each operation; fieldinverse on "
               "boundary and random arguments; then 2-3 backend modules of other families (other fields) are imported into the same "
               "interpreter and the selected backend is exercised again after each; distinct = distinct (backend, expression) / (backend, argument)")
    n_expr = ctx.n(750, 15000) * (3 if extended else 1)
    n_inv = ctx.n(200, 7500) * (3 if extended else 1)
    registry = (ctx.consts or {}).get("backends") or []
    for be in BACKENDS:
        w = common.Worker(be, "worker_lc.py", worker_env())
        try:
            mod = w.run(["M|m"])[0].split("|")
            if mod[1] == "harness-error":
                raise common.Infra(f"{be}: {mod}")
            p = int(mod[1])
            sig = be == "qaptools"
            ex.count(f"backend:{be}")
            # the modulus in effect must be the curve's scalar field order
            if p != CURVE[be]:
                ex.violations.append(Violation({"clause": "modulus", "backend": be},
                                               f"backend {be} reports modulus {p}, not the scalar-field order of its curve",
                                               {"backend": be, "reported": p, "expected": CURVE[be]}))
            if ctx.consts and ctx.consts.get(GEN_NAME[be]) != p:
                ex.disagreements.append({"backend": be, "what": "modulus extracted from source differs from get_modulus()",
                                         "extracted": ctx.consts.get(GEN_NAME[be]), "runtime": p})
            exprs = [gen_expr(ctx.rnd, ctx.rnd.randrange(1, 6), p, sig) for _ in range(n_expr)]
            kind = f"sig:{p}" if sig else "dict"
            lines = [f"E|e{i}|{kind}|{e}" for i, e in enumerate(exprs)]
            py = w.run(lines)
            ml = common.lean_driver(lines)
            for e, a, b in zip(exprs, py, ml):
                ex.evaluations += 1
                fa = a.split("|")
                if fa[1] == "harness-error":
                    raise common.Infra(a)
                ex.distinct.add((be, e))
                ex.count("expr-root:" + e.split()[0])
                if fa[:2] != b.split("|")[:2]:
                    ex.disagreements.append({"backend": be, "expr": e, "impl": fa[1][:200], "model": b.split("|")[1][:200]})
                else:
                    ex.traces_validated += 1
                if "EV=bad" in a:
                    ex.violations.append(Violation({"clause": "evaluation", "backend": be},
                                                   f"{be}: evaluation of {e[:80]} differs from the field expression",
                                                   {"backend": be, "expr": e, "impl": fa[1]}))
                if "MUT=bad" in a:
                    ex.violations.append(Violation({"clause": "immutability", "backend": be},
                                                   f"{be}: an operand was altered by {e[:80]}", {"backend": be, "expr": e}))
                if len(ex.samples) < 6 and len(e) > 20:
                    ex.samples.append(lines[exprs.index(e)])
            xs = inv_args(ctx.rnd, p, n_inv)
            lines = [f"I|i{i}|{p}|{x}" for i, x in enumerate(xs)]
            py = w.run(lines)
            ml = common.lean_driver(lines)
            for x, a, b in zip(xs, py, ml):
                ex.evaluations += 1
                ex.distinct.add((be, "inv", x))
                ex.count("inv:" + ("zero" if x % p == 0 else "neg" if x < 0 else "unreduced" if x >= p else "reduced"))
                if a.split("|")[1] != b.split("|")[1]:
                    ex.disagreements.append({"backend": be, "inverse_of": x, "impl": a.split("|")[1], "model": b.split("|")[1]})
                else:
                    ex.traces_validated += 1
                if "INV=bad" in a:
                    ex.violations.append(Violation({"clause": "inverse", "backend": be},
                                                   f"{be}: fieldinverse({x}) = {a.split('|')[1][:80]} is not the inverse modulo {p}",
                                                   {"backend": be, "x": x, "result": a.split("|")[1]}))
            # ---- other backend modules imported into the same process, the selected backend exercised again after each
            loaded = []
            for step, modname in enumerate(coload_plan(ctx.rnd, be, registry)):
                r = w.run([f"L|l{step}|{modname}"])[0].split("|")
                if r[1] != "loaded":
                    raise common.Infra(f"{be}: cannot import {modname} into the worker: {r}")
                loaded.append(modname)
                ex.count(f"coloaded:{FAMILY[be]}+{family(modname)}")
                fam = "+".join(sorted({family(m) for m in loaded}))        # signature: the families present in the process
                what = f"after importing {', '.join(loaded)} into the same process"
                if int(r[2]) != p:
                    ex.violations.append(Violation({"clause": "modulus", "backend": be, "coloaded": fam},
                                                   f"backend {be} reports modulus {r[2][:30]}… {what} (before: {str(p)[:30]}…)",
                                                   {"backend": be, "coloaded": list(loaded), "reported": int(r[2]), "expected": p}))
                    break
                exprs = [gen_expr(ctx.rnd, ctx.rnd.randrange(1, 5), p, sig) for _ in range(max(60, n_expr // 5))]
                xs = inv_args(ctx.rnd, p, 10)
                lines = [f"E|c{step}_{i}|{kind}|{e}" for i, e in enumerate(exprs)] + [f"I|ci{step}_{i}|{p}|{x}" for i, x in enumerate(xs)]
                py = w.run(lines)
                ml = common.lean_driver(lines)
                for item, a, b in zip(exprs + xs, py, ml):
                    ex.evaluations += 1
                    fa = a.split("|")
                    if fa[1] == "harness-error":
                        raise common.Infra(a)
                    ex.distinct.add((be, tuple(loaded), item))
                    sg = {"backend": be, "coloaded": fam}
                    rp = {"backend": be, "coloaded": list(loaded)}
                    if fa[1] != b.split("|")[1]:
                        ex.disagreements.append({"backend": be, "coloaded": list(loaded), "item": str(item)[:300], "impl": fa[1][:200],
                                                 "model": b.split("|")[1][:200]})
                    else:
                        ex.traces_validated += 1
                    if "EV=bad" in a:
                        ex.violations.append(Violation(dict(sg, clause="evaluation"),
                                                       f"{be}, {what}: evaluation of {str(item)[:80]} (built as {fa[1][:80]}) differs from "
                                                       f"the field expression modulo the backend's own modulus", dict(rp, expr=item, impl=fa[1])))
                    if "MUT=bad" in a:
                        ex.violations.append(Violation(dict(sg, clause="immutability"), f"{be}, {what}: an operand was altered by {str(item)[:80]}",
                                                       dict(rp, expr=item)))
                    if "INV=bad" in a:
                        ex.violations.append(Violation(dict(sg, clause="inverse"),
                                                       f"{be}, {what}: fieldinverse({item}) = {fa[1][:80]} is not the inverse modulo {p}",
                                                       dict(rp, x=item, result=fa[1])))
        finally:
            w.close()
    return ex


def replay(ctx, payload):
    r = payload["replay"]
    w = common.Worker(r["backend"], "worker_lc.py", worker_env())
    try:
        for k, m in enumerate(r.get("coloaded", [])):
            print(w.run([f"L|l{k}|{m}"])[0])
        if "expr" in r:
            print(w.run([f"E|r|dict|{r['expr']}"])[0])
        elif "x" in r:
            print(w.run([f"I|r|0|{r['x']}"])[0])
        else:
            print(w.run(["M|m"])[0])
    finally:
        w.close()
    return 0
