"""C14 — fixed-point operations equal exact scaled-integer arithmetic."""
from fractions import Fraction
from .. import common, progcheck, ref
from ..framework import Exploration, Violation
from ..gen import progs
from ..propsbase import *

ASSUMPTIONS = ["reference: harness/ref.py with Fractions: add/sub/neg and multiplication by integers exact; products floor(a*b*2^r)/2^r; "
               "quotients floor(a/b*2^r)/2^r; // and % by Python's definitions on the represented numbers; comparisons on the "
               "represented numbers; val() returns representation/2^r; float operands are converted by truncation (int(x * 2^r))",
               "floats are dyadic literals exactly representable with scaled value below 2^53: IEEE rounding is not modelled",
               "augmented assignment (`t = a; t += x`, also -=, *=, /=, //=, %=; instruction `iop`) is applied to a SECOND REFERENCE of a "
               "fixed-point (or integer / boolean, with a fixed-point operand) value and followed by reads of the original: the reference "
               "treats values as immutable, the model maps `iop` to the binary operator (no class of the modelled tree defines __iadd__ "
               "& co, so Python evaluates t = t + x)"]
PARTIAL = ["C14_program (program level) is for completing runs inside FxpFragment (Spec/FxpProg.lean, table Instr.fxExcl); excluded with reason: "
           "guardRegion, ignoreErrors (set ign), resAfterFxp (set res while a fixed-point value exists: values are not rescaled), "
           "secretShift (finding C05-secret-exponent-mod-p), fxpPow, "
           "integerBitOp, boolOperand, unaryOther, otherMethod (assertions, to_bits/from_bits, explicit widths), containerSelect, "
           "secretIndex, secretLiteral, operandKind; the gadget-level theorems C14_*_exact have no such restriction; strict comparisons "
           "with an integer secret on the left of a fixed-point value and shifts by a negative public count are inside the fragment "
           "since the repairs of C14-lincomb-strict-compare-fxp and C05-rshift-negative"]
LEVELS = "V"
FX_KINDS = [("X", "X"), ("X", "X"), ("X", "L"), ("L", "X"), ("X", "I"), ("I", "X"), ("X", "F"), ("F", "X"), ("X", "B"), ("B", "X")]
FX_OPS = ["add", "sub", "mul", "truediv", "floordiv", "mod", "lt", "le", "eq", "ne", "gt", "ge"]


def fx_case(rnd, cid, p=common.BN128):
    res = rnd.choice([0, 1, 4, 8, 8, 12])
    bl = rnd.choice([16, 24, 32, 48]) + res
    cfg = {"p": p, "bl": bl, "res": res, "ign": 0}
    b = progs.Builder(rnd, cfg)
    op = rnd.choice(FX_OPS)
    ka, kb = rnd.choice(FX_KINDS)
    def operand(k, nonzero=False):
        if k == "X":
            if rnd.random() < 0.5:
                v = rnd.randrange(-40, 41) or (1 if nonzero else 0)
                a = b.int_lit(v)
            else:
                e = rnd.choice([0, 1, 2, res]) if res else 0
                m = rnd.randrange(-200, 201) or (1 if nonzero else 0)
                a = b.flt_lit(m, e)
            return b.emit(f"mk {rnd.choice(progs.X_KINDS)} r{a}", "X")
        if k == "L":
            v = rnd.randrange(-30, 31) or (1 if nonzero else 0)
            return b.emit(f"mk {rnd.choice(['priv', 'pub'])} r{b.int_lit(v)}", "L")
        if k == "B":
            return b.emit(f"mk privb r{b.int_lit(1 if nonzero else rnd.choice([0, 1]))}", "B")
        if k == "I":
            return b.int_lit(rnd.randrange(-30, 31) or (1 if nonzero else 0))
        if k == "F":
            m = rnd.randrange(-200, 201) or (1 if nonzero else 0)
            return b.flt_lit(m, rnd.choice([0, 1, 2, res]) if res else 0)
    nz = op in ("truediv", "floordiv", "mod") and rnd.random() < 0.9
    if op in ("lt", "le", "gt", "ge", "eq", "ne") and {ka, kb} <= {"X", "L", "I"} and "X" in (ka, kb) and res >= 1 and rnd.random() < 0.6:
        # comparison operands less than one unit apart: the integer next to a fractional fixed-point value
        m = rnd.randrange(-40, 41) * (1 << res) + rnd.randrange(0, 1 << res)
        near = (m >> res) + rnd.choice([0, 0, 1])
        def mk(k):
            if k == "X":
                return b.emit(f"mk {rnd.choice(progs.X_KINDS)} r{b.flt_lit(m, res)}", "X")
            if k == "L":
                return b.emit(f"mk priv r{b.int_lit(near)}", "L")
            return b.int_lit(near)
        ra = mk(ka); rb = mk(kb)
        if ka == kb == "X":
            rb = b.emit(f"mk privx r{b.flt_lit(m + rnd.choice([-1, 0, 1]), res)}", "X")
    else:
        ra = operand(ka); rb = operand(kb, nonzero=nz)
    rr = b.emit(f"bin {op} r{ra} r{rb}", "?")
    c = rnd.random()
    if c < 0.4:
        b.emit(f"call val r{rr}", "?")
    elif c < 0.6:
        o = operand("X"); b.emit(f"bin add r{rr} r{o}", "?")
    elif c < 0.7:
        b.emit(f"un neg r{rr}", "?")
    return progs.Case(cid, cfg, b.ins, {"shape": "fxp", "op": op, "kinds": ka + kb, "malformed": False})


def explore(ctx, extended=False, focus=None):
    ex = Exploration()
    ex.rule = ("augmented assignments (+=, -=, *=, /=, //=, %=) on a second reference of a value followed by reads of the original; one fixed-point operation per case for every operator in {+,-,*,/,//,%,<,<=,==,!=,>,>=} and every operand type "
               "combination and order among fixed-point, secret int, secret boolean, int and float, at resolutions 0,1,4,8,12, with "
               "negative and fractional values, followed by val()/a further use; compared with the Fraction reference and, at level "
               "V, with the Lean model; distinct = (operator, kinds, resolution, error class)")
    n = ctx.n(3600, 120000) * (3 if extended else 1)
    cases = corpus_cases("C14") + [fx_case(ctx.rnd, f"c14_{i}") for i in range(n)]
    cases += [progs.inplace_case(ctx.rnd, f"c14i_{i}", fx=True) for i in range(n // 6)]
    for r in execute_all(cases):
        account(ex, r)
        correspond(ex, r, LEVELS)
        m = r.case.meta
        ex.distinct.add((m.get("op"), m.get("kinds"), r.case.cfg["res"], r.errcls))
        ex.count(f"res:{r.case.cfg['res']}")
        if augmented_assignment_mutations(ex, r):
            continue        # the registers no longer hold what the reference (immutable values) has
        R = ref.Ref(r.case.cfg)
        R.run([t.split() for t in r.case.instrs])
        for i, got in enumerate(r.regs):
            rv = R.regs[i]
            d = None
            if rv[0] == "Q":
                d = ref.compare_fx(rv, got, r.case.cfg["res"])
            elif rv[0] in ("I", "F") and R.kinds[i] in ("B", "I", "F"):
                d = ref.compare(rv, R.kinds[i], got)
            if d:
                sig = instr_sig(r.case, r.regs, i); sig["dev"] = "wrong-value"
                ex.violations.append(Violation(sig, f"r{i} ({r.case.instrs[i]}): {d}", {"case": r.case.line(), "register": i}))
                break
            if rv[0] == "RAISE" and R.kinds[i] == "?" and r.case.instrs[i].startswith("bin"):
                sig = instr_sig(r.case, r.regs, i); sig["dev"] = "value-where-undefined"
                ex.violations.append(Violation(sig, f"r{i} ({r.case.instrs[i]}) returned {got[:50]} where the reference raises (zero divisor / "
                                                    f"negative shift count)", {"case": r.case.line()}))
                break
        if len(ex.samples) < 6 and r.cons:
            ex.samples.append(r.case.line())
    return ex


def replay(ctx, payload):
    replay_case(payload["replay"]["case"])
    return 0
