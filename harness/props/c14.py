"""C14 — fixed-point operations equal exact scaled-integer arithmetic."""
from fractions import Fraction
from .. import common, progcheck, ref
from ..framework import Exploration, Violation
from ..gen import progs
from ..propsbase import *

ASSUMPTIONS = ["reference: harness/ref.py with Fractions: add/sub/neg and multiplication by integers exact; products floor(a*b*2^r)/2^r; "
               "quotients floor(a/b*2^r)/2^r; // and % by Python's definitions on the represented numbers; comparisons on the "
               "represented numbers; val() returns representation/2^r; float operands are converted by truncation (int(x * 2^r))",
               "floats are dyadic literals exactly representable with scaled value below 2^53: IEEE rounding is not modelled",
               "augmented assignment (`t = a; t += x`, also -=, *=, /=, //=, %=; instruction `iop`) is applied to a SECOND REFERENCE of a "
               "fixed-point (or integer / boolean, with a fixed-point operand) value and followed by reads of the original: the reference "
               "treats values as immutable, the model maps `iop` to the binary operator (no class of the modelled tree defines __iadd__ "
               "& co, so Python evaluates t = t + x)",
               "Python int operands and inputs are converted by the reference with Fraction(n) (exact for every size, never through a float); "
               "the large-integer scenario keeps |n|*2^r below 2^(bitlength-2) so that comparisons and quotients stay inside the bitlength; "
               "val() is only requested where the expected value is a double (below 2^53)",
               "asserting comparisons (assert_lt/le/eq/ne/gt/ge, assert_range = [lo, hi)) are judged on the represented numbers of receiver "
               "and arguments: a call that returns although the relation is false is a violation, a call that raises is not (the integer "
               "type refuses fixed-point and boolean arguments with RuntimeError: allowed by the statement's `or the operation raises`)"]
PARTIAL = ["C14_program (program level) is for completing runs inside FxpFragment (Spec/FxpProg.lean, table Instr.fxExcl); excluded with reason: "
           "guardRegion, ignoreErrors (set ign), resAfterFxp (set res while a fixed-point value exists: values are not rescaled), "
           "secretShift (finding C05-secret-exponent-mod-p), fxpPow, "
           "integerBitOp, boolOperand, unaryOther, otherMethod (assertions, to_bits/from_bits, explicit widths), containerSelect, "
           "secretIndex, secretLiteral, operandKind; the gadget-level theorems C14_*_exact have no such restriction; strict comparisons "
           "with an integer secret on the left of a fixed-point value and shifts by a negative public count are inside the fragment "
           "since the repairs of C14-lincomb-strict-compare-fxp and C05-rshift-negative"]
LEVELS = "V"
FX_KINDS = [("X", "X"), ("X", "X"), ("X", "L"), ("L", "X"), ("X", "I"), ("I", "X"), ("X", "F"), ("F", "X"), ("X", "B"), ("B", "X")]
FX_OPS = ["add", "sub", "mul", "truediv", "floordiv", "mod", "lt", "le", "eq", "ne", "gt", "ge"]


def fx_case(rnd, cid, p=common.BN128):
    res = rnd.choice([0, 1, 4, 8, 8, 12])
    bl = rnd.choice([16, 24, 32, 48]) + res
    cfg = {"p": p, "bl": bl, "res": res, "ign": 0}
    b = progs.Builder(rnd, cfg)
    op = rnd.choice(FX_OPS)
    ka, kb = rnd.choice(FX_KINDS)
    def operand(k, nonzero=False):
        if k == "X":
            if rnd.random() < 0.5:
                v = rnd.randrange(-40, 41) or (1 if nonzero else 0)
                a = b.int_lit(v)
            else:
                e = rnd.choice([0, 1, 2, res]) if res else 0
                m = rnd.randrange(-200, 201) or (1 if nonzero else 0)
                a = b.flt_lit(m, e)
            return b.emit(f"mk {rnd.choice(progs.X_KINDS)} r{a}", "X")
        if k == "L":
            v = rnd.randrange(-30, 31) or (1 if nonzero else 0)
            return b.emit(f"mk {rnd.choice(['priv', 'pub'])} r{b.int_lit(v)}", "L")
        if k == "B":
            return b.emit(f"mk privb r{b.int_lit(1 if nonzero else rnd.choice([0, 1]))}", "B")
        if k == "I":
            return b.int_lit(rnd.randrange(-30, 31) or (1 if nonzero else 0))
        if k == "F":
            m = rnd.randrange(-200, 201) or (1 if nonzero else 0)
            return b.flt_lit(m, rnd.choice([0, 1, 2, res]) if res else 0)
    nz = op in ("truediv", "floordiv", "mod") and rnd.random() < 0.9
    if op in ("lt", "le", "gt", "ge", "eq", "ne") and {ka, kb} <= {"X", "L", "I"} and "X" in (ka, kb) and res >= 1 and rnd.random() < 0.6:
        # comparison operands less than one unit apart: the integer next to a fractional fixed-point value
        m = rnd.randrange(-40, 41) * (1 << res) + rnd.randrange(0, 1 << res)
        near = (m >> res) + rnd.choice([0, 0, 1])
        def mk(k):
            if k == "X":
                return b.emit(f"mk {rnd.choice(progs.X_KINDS)} r{b.flt_lit(m, res)}", "X")
            if k == "L":
                return b.emit(f"mk priv r{b.int_lit(near)}", "L")
            return b.int_lit(near)
        ra = mk(ka); rb = mk(kb)
        if ka == kb == "X":
            rb = b.emit(f"mk privx r{b.flt_lit(m + rnd.choice([-1, 0, 1]), res)}", "X")
    else:
        ra = operand(ka); rb = operand(kb, nonzero=nz)
    rr = b.emit(f"bin {op} r{ra} r{rb}", "?")
    c = rnd.random()
    if c < 0.4:
        b.emit(f"call val r{rr}", "?")
    elif c < 0.6:
        o = operand("X"); b.emit(f"bin add r{rr} r{o}", "?")
    elif c < 0.7:
        b.emit(f"un neg r{rr}", "?")
    return progs.Case(cid, cfg, b.ins, {"shape": "fxp", "op": op, "kinds": ka + kb, "malformed": False})


# ------------------------------------------------------------------ large integer operands / inputs (exact scaling of Python ints)
def big_int(rnd, lim_bits):
    """a Python int that is NOT a double: more than 53 significant bits (2^53+1, 3^40+2, around 2^64, up to `lim_bits` bits), or
    one of the controls next to it (2^53, 2^53-1); either sign"""
    lim_bits = max(lim_bits, 56)
    c = rnd.random()
    if c < 0.18:
        v = rnd.choice([2 ** 53 + 1, 3 ** 40 + 2, 2 ** 53 + 3, 2 ** 54 + 1, 2 ** 54 + 2, 2 ** 64 + 1, 2 ** 64 - 1, 2 ** 63 + 1, 10 ** 17 + 1,
                        (2 ** 53 + 1) * 3, 2 ** 53, 2 ** 53 - 1])
    elif c < 0.36:
        k = rnd.randrange(54, lim_bits)
        v = (1 << k) + rnd.choice([1, 3, -1, 1 << rnd.randrange(0, k - 53), rnd.randrange(1, 1 << (k - 53))])
    elif c < 0.5:
        v = (1 << 64) + rnd.randrange(-(1 << 10), 1 << 10) * 2 + 1
    else:
        v = rnd.getrandbits(rnd.randrange(54, lim_bits + 1)) | 1 | (1 << 53)
    if v.bit_length() > lim_bits:
        v = (v & ((1 << lim_bits) - 1)) | 1 | (1 << (lim_bits - 1))
    return -v if rnd.random() < 0.3 else v


def bigint_case(rnd, cid, p=common.BN128):
    """one fixed-point operation whose Python-int operand or input has more than 53 significant bits: `PrivValFxp(n)` / `PubValFxp(n)`,
    `x op n`, `n op x` for every operator, followed by a read-back / a subtraction that cancels the large part / a comparison with a
    neighbour.  The reference converts ints with Fraction(n): never through a float."""
    res = rnd.choice([0, 1, 3, 8, 8, 12])
    bl = rnd.choice([96, 128, 160, 200]) + res
    cfg = {"p": p, "bl": bl, "res": res, "ign": 0}
    b = progs.Builder(rnd, cfg)
    room = bl - res - 3                    # |n| * 2^res stays below 2^(bl-2): comparisons and quotients are inside the bitlength
    shape = rnd.choice(["input", "input", "operand", "operand", "operand", "roperand", "roperand", "near"])
    op = rnd.choice(FX_OPS)
    def small_fx(nonzero=False):
        m = rnd.randrange(-200, 201) or 1
        return b.emit(f"mk {rnd.choice(progs.X_KINDS)} r{b.flt_lit(m, rnd.choice([0, 1, res]) if res else 0)}", "X")
    if shape == "input":
        n = big_int(rnd, room)
        x = b.emit(f"mk {rnd.choice(progs.X_KINDS)} r{b.int_lit(n)}", "X")
        c = rnd.random()
        if c < 0.3:
            b.emit(f"un neg r{x}", "?")     # (val() of a number that is not a double is outside the reference: floats are exact below 2^53)
        elif c < 0.6:
            # cancel the large part: what is left is small and exact (and reads back as a float below 2^53)
            d = b.emit(f"bin sub r{x} r{b.int_lit(n - rnd.randrange(-3, 4))}", "?")
            b.emit(f"call val r{d}", "?")
        elif c < 0.8:
            b.emit(f"bin {rnd.choice(progs.CMPS)} r{x} r{b.int_lit(n + rnd.choice([-1, 0, 1]))}", "?")
        else:
            o = small_fx(); b.emit(f"bin {rnd.choice(['add', 'sub'])} r{x} r{o}", "?")
        kinds = "I"
        op = "mk"
    elif shape in ("operand", "roperand"):
        if op in ("mul",):
            n = big_int(rnd, min(room, 70))
        else:
            n = big_int(rnd, room)
        if op in ("truediv", "floordiv", "mod") and shape == "operand" and rnd.random() < 0.8:
            n = abs(n)                      # negative divisors raise (recorded for the integer type); keep most divisors positive
        x_small = rnd.random() < 0.5
        if x_small:
            x = small_fx()
        else:
            # a fixed-point operand of the same magnitude (built from a float below 2^53 times a power of two, or from the int itself)
            x = b.emit(f"mk {rnd.choice(progs.X_KINDS)} r{b.int_lit(n + rnd.randrange(-2, 3) if rnd.random() < 0.6 else big_int(rnd, room))}", "X")
        i = b.int_lit(n)
        rr = b.emit(f"bin {op} r{x} r{i}" if shape == "operand" else f"bin {op} r{i} r{x}", "?")
        c = rnd.random()
        if c < 0.25 and op not in progs.CMPS:
            b.emit(f"un neg r{rr}", "?")
        elif c < 0.6 and op in ("add", "sub"):
            # undo the large operand again with an int next to it
            back = b.emit(f"bin {'sub' if (op == 'add') else 'add'} r{rr} r{b.int_lit(n + rnd.choice([0, 0, 1, -1]))}", "?")
            b.emit(f"call val r{back}" if x_small else f"un neg r{back}", "?")
        kinds = "XI" if shape == "operand" else "IX"
    else:
        # comparison of a large fixed-point value with the int one unit away (both orders), and of a large int secret with it
        n = big_int(rnd, room)
        op = rnd.choice(progs.CMPS)
        frac = rnd.randrange(0, 1 << res) if res else 0
        x = b.emit(f"mk {rnd.choice(progs.X_KINDS)} r{b.int_lit(n)}", "X")
        if frac and rnd.random() < 0.5:
            x = b.emit(f"bin add r{x} r{b.flt_lit(frac, res)}", "X")
        m = n + rnd.choice([-1, 0, 0, 1])
        if rnd.random() < 0.4:
            o = b.emit(f"mk {rnd.choice(['priv', 'pub'])} r{b.int_lit(m)}", "L"); kinds = "XL"
        else:
            o = b.int_lit(m); kinds = "XI"
        if rnd.random() < 0.5:
            b.emit(f"bin {op} r{x} r{o}", "?")
        else:
            b.emit(f"bin {op} r{o} r{x}", "?"); kinds = kinds[::-1]
    return progs.Case(cid, cfg, b.ins, {"shape": "fxp-bigint", "op": op, "kinds": kinds, "malformed": False, "form": shape})


# ------------------------------------------------------------------ asserting comparisons across kinds
ASSERT_REL = {"assert_lt": lambda x, y: x < y, "assert_le": lambda x, y: x <= y, "assert_eq": lambda x, y: x == y,
              "assert_ne": lambda x, y: x != y, "assert_gt": lambda x, y: x > y, "assert_ge": lambda x, y: x >= y}


def mixed_assert_case(rnd, cid, p=common.BN128):
    """`a.assert_lt/le/eq/ne/gt/ge(b)` and `a.assert_range(lo, hi)` with receiver and arguments of DIFFERENT kinds: an integer secret
    asserting against a fixed-point or boolean value, a fixed-point value asserting against an integer secret / int / float / boolean.
    Values are at most a few units in the last place apart and of either sign, so that comparing the wrong representation (scaled
    against unscaled) gives another answer than the represented numbers."""
    res = rnd.choice([1, 2, 4, 8, 8, 12])
    bl = rnd.choice([16, 24, 32, 48]) + res
    cfg = {"p": p, "bl": bl, "res": res, "ign": 0}
    b = progs.Builder(rnd, cfg)
    one = 1 << res
    ka = rnd.choice(["L", "L", "L", "X"])
    v = rnd.randrange(-40, 41)                                   # the receiver's number (an integer for L; X adds a fraction)
    fa = rnd.choice([0, 0, 1, one // 2, one - 1]) if ka == "X" else 0
    def near(kind):
        """register of kind `kind` holding a number next to v + fa/2^res"""
        if kind == "X":
            m = v * one + fa + rnd.choice([0, 0, 1, -1, one // 2, -(one // 2), one, -one, 3 * one, -3 * one, rnd.randrange(-2 * one, 2 * one + 1)])
            return b.emit(f"mk {rnd.choice(progs.X_KINDS)} r{b.flt_lit(m, res)}", "X")
        if kind == "B":
            return b.emit(f"mk {rnd.choice(progs.B_KINDS)} r{b.int_lit(rnd.choice([0, 1]))}", "B")
        if kind == "F":
            return b.flt_lit(v * one + fa + rnd.choice([0, 1, -1, one // 2, -one, one]), res)
        w = v + rnd.choice([0, 0, 1, -1, 2, -2])
        if kind == "L":
            return b.emit(f"mk {rnd.choice(progs.L_KINDS)} r{b.int_lit(w)}", "L")
        return b.int_lit(w)
    if ka == "L":
        if rnd.random() < 0.35:
            v = rnd.choice([0, 1, 0, 1, 2, -1])                  # next to the booleans
        ra = b.emit(f"mk {rnd.choice(progs.L_KINDS)} r{b.int_lit(v)}", "L")
        others = ["X", "X", "X", "B"]
    else:
        ra = b.emit(f"mk {rnd.choice(progs.X_KINDS)} r{b.flt_lit(v * one + fa, res)}", "X")
        others = ["L", "I", "F", "B", "X"]
    if rnd.random() < 0.75:
        m = rnd.choice(progs.ASSERTS)
        kb = rnd.choice(others)
        rb = near(kb)
        b.emit(f"call {m} r{ra} r{rb}", "N")
        kinds = ka + kb
    else:
        m = "assert_range"
        k1, k2 = rnd.choice([(o, rnd.choice(["I", "L", o])) for o in others] + [(rnd.choice(["I", "L"]), o) for o in others])
        r1 = near(k1); r2 = near(k2)
        b.emit(f"call assert_range r{ra} r{r1} r{r2}", "N")
        kinds = ka + k1 + k2
    return progs.Case(cid, cfg, b.ins, {"shape": "fxp-assert", "op": m, "kinds": kinds, "malformed": False})


def judge_mixed_assert(ex, r, R):
    """direct oracle of the asserting comparisons: the call raises, or the asserted relation holds between the REPRESENTED numbers"""
    i = len(r.case.instrs) - 1
    ins = r.case.instrs[i].split()
    if len(r.regs) <= i:
        ex.count("assert:raised")
        return                                                  # raised (in this call or before): allowed
    nums = [R.num(int(t[1:])) for t in ins[2:]]
    if any(t is None for _, t in nums):
        ex.count("assert:unjudged")
        return
    s = 1 << r.case.cfg["res"]
    vals = [Fraction(int(x * s), s) if t == "flt" else Fraction(x) for x, t in nums]      # a float argument is converted by truncation
    if ins[1] == "assert_range":
        holds = vals[1] <= vals[0] < vals[2]
        shown = f"{vals[1]} <= {vals[0]} < {vals[2]}"
    else:
        holds = ASSERT_REL[ins[1]](vals[0], vals[1])
        shown = f"{vals[0]} {ins[1][7:]} {vals[1]}"
    ex.count("assert:accepted-true" if holds else "assert:accepted-false")
    if not holds:
        sig = instr_sig(r.case, r.regs, i); sig["dev"] = "false-assertion-accepted"
        ex.violations.append(Violation(sig, f"r{i} ({r.case.instrs[i]}) returned without raising although the relation between the represented "
                                            f"numbers is false ({shown}; resolution {r.case.cfg['res']}; "
                                            f"{len(r.unsat)} of {len(r.cons)} recorded constraints violated by the recorded witness)",
                                       {"case": r.case.line(), "instruction": i}))


def explore(ctx, extended=False, focus=None):
    ex = Exploration()
    ex.rule = ("augmented assignments (+=, -=, *=, /=, //=, %=) on a second reference of a value followed by reads of the original; one fixed-point operation per case for every operator in {+,-,*,/,//,%,<,<=,==,!=,>,>=} and every operand type "
               "combination and order among fixed-point, secret int, secret boolean, int and float, at resolutions 0,1,4,8,12, with "
               "negative and fractional values, followed by val()/a further use; compared with the Fraction reference and, at level "
               "V, with the Lean model; LARGE INTEGERS: Python ints with more than 53 significant bits (2^53+1, 3^40+2, around 2^64, random "
               "up to the bitlength, both signs; controls 2^53, 2^53-1) as PrivValFxp/PubValFxp inputs and as the int operand of every "
               "operator in both orders at bitlengths 96..200, followed by a read-back, a cancelling subtraction or a comparison with "
               "the neighbouring int (reference: Fraction(n), never a float); ASSERTING COMPARISONS ACROSS KINDS: assert_lt/le/eq/ne/"
               "gt/ge and assert_range called on an integer secret with fixed-point / boolean arguments and on a fixed-point value with "
               "integer-secret / int / float / boolean / fixed-point arguments, operands a few units in the last place apart: the call "
               "raises or the relation holds between the represented numbers; distinct = (operator, kinds, resolution, error class)")
    n = ctx.n(3600, 120000) * (3 if extended else 1)
    cases = corpus_cases("C14") + [fx_case(ctx.rnd, f"c14_{i}") for i in range(n)]
    cases += [progs.inplace_case(ctx.rnd, f"c14i_{i}", fx=True) for i in range(n // 6)]
    cases += [bigint_case(ctx.rnd, f"c14b_{i}") for i in range(n // 6)]
    cases += [mixed_assert_case(ctx.rnd, f"c14a_{i}") for i in range(n // 6)]
    for r in execute_all(cases):
        account(ex, r)
        correspond(ex, r, LEVELS)
        m = r.case.meta
        ex.distinct.add((m.get("op"), m.get("kinds"), r.case.cfg["res"], r.errcls))
        ex.count(f"res:{r.case.cfg['res']}")
        if augmented_assignment_mutations(ex, r):
            continue        # the registers no longer hold what the reference (immutable values) has
        R = ref.Ref(r.case.cfg)
        R.run([t.split() for t in r.case.instrs])
        if m.get("shape") == "fxp-assert":
            judge_mixed_assert(ex, r, R)
        if m.get("shape") == "fxp-bigint":
            ex.count(f"bigint:{m.get('form')}")
        for i, got in enumerate(r.regs):
            rv = R.regs[i]
            d = None
            if rv[0] == "Q":
                d = ref.compare_fx(rv, got, r.case.cfg["res"])
            elif rv[0] in ("I", "F") and R.kinds[i] in ("B", "I", "F"):
                d = ref.compare(rv, R.kinds[i], got)
            if d:
                sig = instr_sig(r.case, r.regs, i); sig["dev"] = "wrong-value"
                ex.violations.append(Violation(sig, f"r{i} ({r.case.instrs[i]}): {d}", {"case": r.case.line(), "register": i}))
                break
            if rv[0] == "RAISE" and R.kinds[i] == "?" and r.case.instrs[i].startswith("bin"):
                sig = instr_sig(r.case, r.regs, i); sig["dev"] = "value-where-undefined"
                ex.violations.append(Violation(sig, f"r{i} ({r.case.instrs[i]}) returned {got[:50]} where the reference raises (zero divisor / "
                                                    f"negative shift count)", {"case": r.case.line()}))
                break
        if len(ex.samples) < 6 and r.cons:
            ex.samples.append(r.case.line())
    return ex


def replay(ctx, payload):
    replay_case(payload["replay"]["case"])
    return 0
