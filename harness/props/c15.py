"""C15 — secret-index array access reads and writes exactly one element."""
import multiprocessing as mp
from .. import common, progcheck, ref, solve, a2enc
from ..framework import Exploration, Violation
from ..gen import progs
from ..propsbase import *

ASSUMPTIONS = ["one-dimensional arrays of constants and secrets; histories of reads and writes at secret and plain indices compared with "
               "Python lists (harness/ref.py); shapes compared across index values; out-of-range secret indices: must raise with checks "
               "on, and with checks off the emitted system must be unsatisfiable (exhaustive witness search over p = 97)",
               "two-dimensional access (tuple indices, ArrayRow, rows as objects) is MODELLED (lean/PysnarkModel/Model/Array2D.lean) and "
               "proved against nested Python lists (Spec/Array2D.lean; Props/C15.lean C15_read2 … C15_oblivious2_history) for "
               "RECTANGULAR matrices whose elements are plain ints or LinComb's; every generated history is executed three times: on the "
               "real pysnark (harness/worker_array2d.py), on the list-of-lists reference in that worker, and on the model "
               "(Driver/ProtoArray2D.lean) — the model and the code must agree on the matrix after EVERY operation, on every value read, "
               "on the error class and the position of the failing operation, on the wire expression of every stored value and on the "
               "complete list of wires and constraints (S+W); histories over a 2-3 x 2-3 matrix with index OBJECTS created once and reused "
               "across operations, fresh secret and plain indices, rows read at plain indices (the inner object itself: aliasing is list "
               "semantics; the model keeps a heap of row objects) and at secret indices (read-only snapshots), copies, element reads "
               "a[i,j] / a[i][j] / r[j], writes a[i,j]=v, a[k][j]=v, r[j]=v, a[i]=row, reads inside a taken / not-taken if_then_else branch, "
               "some indices outside the array (must raise IndexError at their first use outside a branch that is not taken); rows read "
               "at a SECRET index and then stored at a constant position (`a[0] = a[PrivVal(2)]`), matrices built from previously read rows "
               "(`g = Array([a[PrivVal(1)], a[0]])`), followed by element writes through tuple indices with a constant or secret first "
               "index and reads back; every value also checked against its wire expression on the recorded witness",
               "not covered by the two-dimensional theorems: ragged matrices and row stores of a row of another length (the code zips: "
               "see the finding `secret-index row store/read truncates to the shortest row`), rows holding LinCombBool / LinCombFxp "
               "elements, arrays nested deeper than two levels, Array.__add__/__sub__/__rmul__/assert_eq/joined as user-level operations"]
PARTIAL = []
LEVELS = "VS"
P97 = 97


def small_array_case(rnd, cid, oob):
    """tiny instance over p = 97 for the witness search"""
    bl = rnd.choice([3, 4]); n = rnd.randrange(1, 4)
    cfg = {"p": P97, "bl": bl, "res": 0, "ign": 1 if oob else 0}
    b = progs.Builder(rnd, cfg)
    elems = []
    for _ in range(n):
        e = b.operand("L", value=rnd.randrange(0, 4)); b.ins[e] = b.ins[e].replace("const", "priv").replace("pub", "priv"); elems.append(e)
    arr = b.emit("arr " + " ".join(f"r{e}" for e in elems), "A")
    iv = rnd.choice([n, n + 1, -1]) if oob else rnd.randrange(0, n)
    idx = b.operand("L", value=iv); b.ins[idx] = b.ins[idx].replace("const", "priv").replace("pub", "priv")
    t = b.emit(f"aget r{arr} r{idx}", "?")
    return progs.Case(cid, cfg, b.ins, {"shape": "small-array", "op": "get-oob" if oob else "get", "kinds": f"n{n}", "target": t, "iv": iv, "n": n})


def sat_job(job):
    cons, fixed, unknown, lc = job
    vals = set(); n = 0
    try:
        for sol in solve.solve(cons, fixed, unknown, P97, limit=300000):
            n += 1
            full = dict(fixed); full.update(sol); full["1"] = 1
            if lc is not None:
                vals.add(solve.ev(solve.parse_lc(lc), full, P97))
            if n > 200:
                break
        return n, sorted(vals), True
    except solve.Limit:
        return n, sorted(vals), False


# scenario class "a row of another length stored in the matrix": reproduces the recorded finding
# C15-row-store-other-length (known_findings.json); part of every run (VERIF_C15_OTHER_LENGTH_ROWS=0 turns it off, development aid)
import os
OTHER_LENGTH_ROWS = os.environ.get("VERIF_C15_OTHER_LENGTH_ROWS", "1") == "1"


def gen_2d(rnd):
    """history over a matrix: index OBJECTS created once and reused across operations (loop-variable style), fresh secret and
    plain indices; rows read at plain indices (the inner object: aliasing is list semantics) and at secret indices (read-only
    snapshots), copies; element reads; writes through the matrix, through previously obtained rows and through a plain-index
    inner row; reads inside a taken / not-taken if_then_else branch; a few indices lie outside the array"""
    rows = rnd.randrange(2, 4); cols = rnd.randrange(2, 4)
    h = {"rows": rows, "cols": cols, "secret": rnd.random() < 0.7,
         "init": [[rnd.randrange(0, 9) for _ in range(cols)] for _ in range(rows)], "ops": []}
    ops = h["ops"]
    idxs = {}                    # name -> (secret, value, is it meant for rows?)
    rowvars = {}                 # name -> kind
    nvar = [0]
    val = [10]

    def fresh_val():
        val[0] += 1
        return val[0]

    def new_idx(for_rows):
        n = rows if for_rows else cols
        i = rnd.randrange(n) if rnd.random() < 0.9 else rnd.choice([n, n + 1, -1])
        name = f"i{len(idxs)}"
        sec = rnd.random() < 0.85 or not 0 <= i < n
        idxs[name] = (sec, i, for_rows)
        ops.append(["idx", name, sec, i])
        return name

    def spec(for_rows, plain_ok=True):
        n = rows if for_rows else cols
        c = rnd.random()
        named = [k for k, (s_, i_, fr) in idxs.items() if fr == for_rows or (0 <= i_ < n and rnd.random() < 0.3)]
        if c < 0.5 and named:
            return ["n", rnd.choice(named)]
        if c < 0.6:
            return ["n", new_idx(for_rows)]
        if c < 0.8 or not plain_ok:
            return ["s", rnd.randrange(n) if rnd.random() < 0.93 else rnd.choice([n, -1])]
        return ["p", rnd.randrange(n)]

    def newvar():
        nvar[0] += 1
        return f"v{nvar[0]}"

    def stored_views(gather):
        """a row read at a secret index is stored at a constant position, or the matrix is rebuilt from rows read before; then
        element writes through tuple indices (constant / secret first index) and reads back"""
        if gather and rnd.random() < 0.5:
            ops.append(["gather", [spec(True) if rnd.random() < 0.3 else ["s", rnd.randrange(rows)] for _ in range(rows)]])
            targets = list(range(rows))
        else:
            v = newvar(); rowvars[v] = "rowview"
            secret_row_idx = [k for k, (s_, i_, fr) in idxs.items() if s_ and fr]
            ops.append(["row", v, ["n", rnd.choice(secret_row_idx)] if secret_row_idx and rnd.random() < 0.3 else ["s", rnd.randrange(rows)]])
            r = rnd.randrange(rows)
            ops.append(["setrow", ["p", r], v])
            targets = [r]
        for _ in range(rnd.randrange(1, 4)):
            r = rnd.choice(targets)
            c = rnd.random()
            first = ["p", r] if c < 0.75 else ["s", r]
            second = ["p", rnd.randrange(cols)] if rnd.random() < 0.5 else spec(False)
            if rnd.random() < 0.8: ops.append(["set2", first, second, fresh_val()])
            else: ops.append([rnd.choice(["get2", "getrc"]), newvar(), first, second])

    for _ in range(rnd.randrange(1, 3)):
        new_idx(True)
    if OTHER_LENGTH_ROWS and rnd.random() < 0.15:
        # a row built outside the matrix, of the matrix's width or not, stored at a secret or plain row index
        v = newvar(); rowvars[v] = "array"
        ops.append(["newrow", v, [fresh_val() for _ in range(rnd.choice([cols, cols, max(1, cols - 1), cols + 1]))]])
        ops.append(["setrow", ["s", rnd.randrange(rows)] if rnd.random() < 0.7 else ["p", rnd.randrange(rows)], v])
    if rnd.random() < 0.2:
        stored_views(True)
    for _ in range(rnd.randrange(3, 9)):
        c = rnd.random()
        if c < 0.17:
            v = newvar(); sp = spec(True)
            rowvars[v] = "alias" if sp[0] == "p" or (sp[0] == "n" and not idxs[sp[1]][0]) else "rowview"
            ops.append(["row", v, sp])
        elif c < 0.25 and rowvars:
            v = newvar(); src = rnd.choice(list(rowvars)); rowvars[v] = "array"
            ops.append(["copy", v, src])
        elif c < 0.40:
            ops.append([rnd.choice(["get2", "get2", "getrc"]), newvar(), spec(True), spec(False)])
        elif c < 0.47 and rowvars:
            ops.append(["rowget", newvar(), rnd.choice(list(rowvars)), spec(False)])
        elif c < 0.57 and rowvars:
            ops.append(["set1", rnd.choice(list(rowvars)), spec(False), fresh_val()])
        elif c < 0.70:
            ops.append(["setchain", rnd.randrange(rows), spec(False), fresh_val()])
        elif c < 0.82:
            ops.append(["set2", spec(True), spec(False), fresh_val()])
        elif c < 0.90 and rowvars:
            v = rnd.choice(list(rowvars))
            # a plain-index row write stores the OBJECT; an alias of an inner row is stored that way only as a copy
            sp = spec(True, plain_ok=(rowvars[v] == "array"))
            if sp[0] == "n" and not idxs[sp[1]][0] and rowvars[v] != "array":
                sp = ["s", idxs[sp[1]][1]]
            ops.append(["setrow", sp, v])
        elif c < 0.94:
            stored_views(True)
        else:
            ops.append(["bget", newvar(), rnd.choice([0, 0, 1]), spec(True), spec(False)])
    # read everything back through the reused index objects
    for k, (sec, i, fr) in idxs.items():
        if fr and rnd.random() < 0.7:
            ops.append(["get2", newvar(), ["n", k], ["p", rnd.randrange(cols)]])
    return h


def classify_2d(h, at):
    """scenario class of a two-dimensional history (for the violation signature): what preceded the operation at which it
    went wrong (or the whole history)"""
    ops = h["ops"] if at is None else h["ops"][:at + 1]
    used = {}
    reuse = False; bypass = False; branch = False; stored = False; other = False
    views = set(); odd = set()
    for op in ops:
        if op[0] == "newrow" and len(op[2]) != h["cols"]: odd.add(op[1])
        if op[0] == "setrow" and op[2] in odd: other = True
        if op[0] == "row" and (op[2][0] == "s" or (op[2][0] == "n" and any(o[0] == "idx" and o[1] == op[2][1] and o[2] for o in h["ops"]))):
            views.add(op[1])
        if op[0] == "gather" or (op[0] == "setrow" and op[2] in views and op[1][0] != "s"): stored = True
        named = [x[1] for x in op if isinstance(x, list) and len(x) == 2 and x[0] == "n"]
        for nme in named:
            if used.get(nme): reuse = True
            used[nme] = True
            if op[0] == "bget" and not op[2]: branch = True
        if op[0] in ("setchain", "set1"): bypass = True
    return {"index_object_reused": reuse, "write_through_row": bypass, "index_first_used_in_branch_not_taken": branch,
            "secret_read_row_stored_in_matrix": stored, "row_of_other_length_stored": other}


def model_diff_2d(real, mrep, names):
    """the model's run of a history against the real run: None if they agree, "unmodelled", or the first difference"""
    m = a2enc.decode(mrep)
    if "bad" in m:
        raise common.Infra("model driver: " + m["bad"])
    if m["status"] == "UNMODELLED":
        return "unmodelled"
    if m["status"] != real["status"] or m["at"] != real["at"]:
        return f"model ends with {m['status']} at operation {m['at']}, the code with {real['status']} at operation {real['at']}"
    for k, (a, b) in enumerate(zip(m["trace"], real["trace"])):
        if a != b:
            return f"matrix after operation #{k}: model {a}, code {b}"
    if len(m["trace"]) != len(real["trace"]):
        return f"{len(m['trace'])} completed operations in the model, {len(real['trace'])} in the code"
    mv = {names[k]: v for k, v in m["vars"].items()}
    if mv != real["vars"]:
        return f"values read: model {mv}, code {real['vars']}"
    if m["state"] != real["state"]:
        fa = m["state"].split("|"); fb = real["state"].split("|")
        for x, y in zip(fa, fb):
            if x != y:
                ca = x.split(" & "); cb = y.split(" & ")
                i = next((i for i, (u, v) in enumerate(zip(ca, cb)) if u != v), min(len(ca), len(cb)))
                return (f"wires / constraints ({x.split('=')[0]}): model {len(ca)} entries, code {len(cb)}; first difference at #{i}: "
                        f"{(ca[i] if i < len(ca) else '-')[:200]} vs {(cb[i] if i < len(cb) else '-')[:200]}")
        return "state strings differ in length"
    mat, _, vs = m["lcs"].partition("#")
    ml = {"matrix": mat}
    for kv in vs.split(";"):
        if kv:
            k, _, v = kv.partition("="); ml[names[k]] = v
    if ml != real["lcs"]:
        k = next(k for k in sorted(set(ml) | set(real["lcs"])) if ml.get(k) != real["lcs"].get(k))
        return f"wire expression of {k}: model {str(ml.get(k))[:300]}, code {str(real['lcs'].get(k))[:300]}"
    return None


def explore_2d(ctx, ex):
    import json
    hs = [gen_2d(ctx.rnd) for _ in range(ctx.n(700, 14000))]
    outs = common.run_workers([f"A2|a{i}|{json.dumps(h)}" for i, h in enumerate(hs)], script="worker_array2d.py")
    # the same histories on the model (lean/PysnarkModel/Model/Array2D.lean through Driver/ProtoArray2D.lean)
    ok, out, _ = common.lake_build(["PysnarkModel.Driver.ProtoArray2D"])
    if not ok:
        raise common.Infra("model driver for two-dimensional histories does not build: " + out[-1500:])
    enc = []
    for i, h in enumerate(hs):
        try:
            enc.append(a2enc.encode(h, f"a{i}"))
        except a2enc.Unmodelled:
            enc.append(None)
    mreps = iter(common.lean_driver([e[0] for e in enc if e]))
    for h, o, e in zip(hs, outs, enc):
        ex.evaluations += 1
        d = json.loads(o.split("|", 1)[1])
        if "harness-error" in d:
            raise common.Infra(str(d))
        ex.count(f"2d:{d['status']}")
        ex.distinct.add(("2d", json.dumps(h["ops"])))
        cls = classify_2d(h, d.get("at"))
        for k, v in cls.items():
            if v: ex.count(f"2d:{k}")
        # correspondence: values after every operation, values read, error class and position, wires and constraints
        diff = "unmodelled" if e is None else model_diff_2d(d["real"], next(mreps), e[1])
        if diff == "unmodelled":
            ex.unmodelled += 1; ex.count("2d:unmodelled")
        elif diff:
            ex.disagreements.append({"case": "A2|r|" + json.dumps(h), "model": e[0], "diff": [diff]})
        else:
            ex.traces_validated += 1; ex.count("2d:model-agrees")
        if d["status"] == "ok" and d["refstatus"] == "ok":
            bad = None
            if d["m"] != d["ref"]:
                bad = (f"after operation #{d['at']} {h['ops'][d['at']]}: " if d.get("at") is not None else "") + \
                      f"array contents {d['m']} vs list semantics {d['ref']}"
            else:
                for k, v in d["rvars"].items():
                    if d["vars"].get(k) != v:
                        bad = f"{k}: {d['vars'].get(k)} vs list semantics {v}"; break
            if bad:
                ex.violations.append(Violation(dict(cls, instr="array2d", dev="wrong-value"),
                                               f"two-dimensional history: {bad}", {"history": h}))
            if d.get("unsat"):
                ex.violations.append(Violation(dict(cls, instr="array2d", dev="unsatisfied"),
                                               f"two-dimensional history: constraint #{d['unsat'][0]} not satisfied", {"history": h}))
            if d.get("incoh"):
                ex.violations.append(Violation(dict(cls, instr="array2d", dev="incoherent"),
                                               f"two-dimensional history: value of {d['incoh'][0]} differs from its wire expression on the recorded witness", {"history": h}))
        elif d["status"] != d["refstatus"] and "TypeError" not in (d["status"], d["refstatus"]):
            ex.violations.append(Violation(dict(cls, instr="array2d", dev="raises", error=d["status"], expected=d["refstatus"]),
                                           f"two-dimensional history: operation #{d.get('at')} {h['ops'][d['at']] if d.get('at') is not None else ''} "
                                           f"ends with {d['status']}, list semantics with {d['refstatus']}", {"history": h}))


def explore(ctx, extended=False, focus=None):
    ex = Exploration()
    ex.rule = ("(a) arrays of 1-5 constants/secrets, 1-4 reads/writes at secret or plain indices inside and outside the bounds, then every "
               "element read back: values vs Python lists, V+S correspondence with the model; the same history with other index "
               "values: identical shapes; (b) two-dimensional histories (gen_2d): code vs list-of-lists reference vs model "
               "(V after every operation, error class and position, S+W of the whole run); (c) tiny instances over p=97: in-range "
               "read determined, out-of-range index unsatisfiable; distinct = (history, length, index classes, bitlength)")
    n = ctx.n(900, 18000) * (3 if extended else 1)
    cases = corpus_cases("C15") + [progs.array_case(ctx.rnd, f"c15_{i}") for i in range(n)]
    recs = execute_all(cases)
    from .c06 import twin as c06_twin, first_difference
    twins = execute_all([c06_twin(c, ctx.rnd, invalid=False) for c in cases], with_model=False)
    for r, t in zip(recs, twins):
        account(ex, r)
        correspond(ex, r, LEVELS)
        m = r.case.meta
        ex.distinct.add((m.get("op"), m.get("kinds"), r.case.cfg["bl"], r.errcls))
        R = ref.Ref(r.case.cfg)
        R.run([x.split() for x in r.case.instrs[:len(r.regs) + (0 if r.ok else 1)]])
        if not r.ok:
            # the failing instruction did not execute in the implementation: undo nothing, but do not compare the array
            # register against a reference that executed it
            R2 = ref.Ref(r.case.cfg); R2.run([x.split() for x in r.case.instrs[:len(r.regs)]])
        else:
            R2 = R
        for i, got in enumerate(r.regs):
            d = ref.compare(R2.regs[i], R2.kinds[i], got)
            if d:
                sig = instr_sig(r.case, r.regs, i); sig["dev"] = "wrong-value"
                ex.violations.append(Violation(sig, f"r{i} ({r.case.instrs[i]}): {d} (Python list semantics)", {"case": r.case.line()}))
                break
        if not r.ok and r.case.cfg["ign"] == 0 and r.errpos is not None and r.errpos < len(r.case.instrs):
            pass
        # an out-of-range secret index must raise when checks are on
        if r.case.cfg["ign"] == 0:
            for i, ins in enumerate(r.case.instrs[:len(r.regs)]):
                w = ins.split()
                if w[0] in ("aget", "aset") and R.regs[i][0] == "RAISE":
                    sig = instr_sig(r.case, r.regs, i); sig["dev"] = "out-of-range-accepted"
                    ex.violations.append(Violation(sig, f"{ins}: index outside the array did not raise", {"case": r.case.line()}))
                    break
        if r.ok and t.ok and not t.harness_error:
            sa, sb = r.shape(), t.shape()
            free = {i for i, x in enumerate(r.case.instrs) if x.startswith("lit ") or x.startswith("call val")}
            ra_ = [x for i, x in enumerate(sa[3]) if i not in free]; rb_ = [x for i, x in enumerate(sb[3]) if i not in free]
            if (sa[0], sa[1], sa[2], ra_) != (sb[0], sb[1], sb[2], rb_):
                i, why = first_difference(r, t, r.case)
                sig = instr_sig(r.case, r.regs, i) if i is not None else {"instr": "?"}
                sig["dev"] = "shape-depends-on-index"
                ex.violations.append(Violation(sig, f"the constraints differ between two index/content choices: {why}",
                                               {"case_a": r.case.line(), "case_b": t.case.line()}))
        if len(ex.samples) < 5 and r.cons:
            ex.samples.append(r.case.line())
    explore_2d(ctx, ex)
    # (c) witness search on tiny instances
    small = [small_array_case(ctx.rnd, f"c15s_{i}", oob=(i % 2 == 1)) for i in range(ctx.n(240, 4500))]
    srecs = execute_all(small)
    jobs = []; keep = []
    for r in srecs:
        account(ex, r); correspond(ex, r, LEVELS)
        if not r.ok:
            continue
        t = r.case.meta["target"]
        cons = solve.parse_cons(r.cons)
        inputs = set()
        for j, ins in enumerate(r.case.instrs):
            if ins.startswith("mk ") and j < len(r.nc):
                lo = r.nc[j - 1][1] if j > 0 else 0
                if r.nc[j][1] > lo: inputs.add(lo)
        fixed = {f"w{i+1}": r.priv[i] % P97 for i in inputs}
        unknown = [f"w{i+1}" for i in range(len(r.priv)) if i not in inputs]
        import re
        mm = re.findall(r"[LBX]:-?\d+:([^,;\]\)]*)", r.regs[t])
        jobs.append((cons, fixed, unknown, mm[0] if mm else None)); keep.append(r)
    with mp.Pool(12) as pool:
        res = pool.map(sat_job, jobs, chunksize=4)
    for r, (nsol, vals, complete) in zip(keep, res):
        m = r.case.meta
        ex.distinct.add((m["op"], m["n"], m["iv"], r.case.cfg["bl"]))
        ex.count("search:" + ("complete" if complete else "limit"))
        if not complete:
            continue
        if m["op"] == "get-oob" and nsol > 0:
            ex.violations.append(Violation({"instr": "aget", "dev": "out-of-range-provable"},
                                           f"reading index {m['iv']} of an array of {m['n']} elements with checks off emits a satisfiable system "
                                           f"(result can be {vals[:5]}): an out-of-range access can be proven", {"case": r.case.line()}))
        if m["op"] == "get" and len(vals) != 1:
            ex.violations.append(Violation({"instr": "aget", "dev": "read-not-determined"},
                                           f"reading index {m['iv']}: satisfying assignments give results {vals[:6]}", {"case": r.case.line()}))
    return ex


def replay(ctx, payload):
    rp = payload["replay"]
    if "history" in rp:
        import json
        out = common.run_workers([f"A2|r|{json.dumps(rp['history'])}"], script="worker_array2d.py")[0]
        print("impl :", out[:3000])
        try:
            line, names = a2enc.encode(rp["history"], "r")
            ml = common.lean_driver([line])[0]
            print("model:", ml[:3000])
            print("diff :", model_diff_2d(json.loads(out.split("|", 1)[1])["real"], ml, names))
        except a2enc.Unmodelled as e:
            print("model: history not expressible in the model's event language:", e)
        return 0
    replay_case(rp.get("case") or rp.get("case_a"))
    return 0
