"""C15 — secret-index array access reads and writes exactly one element."""
import multiprocessing as mp
from .. import common, progcheck, ref, solve, a2enc
from ..framework import Exploration, Violation
from ..gen import progs
from ..propsbase import *

ASSUMPTIONS = ["one-dimensional arrays of constants and secrets; histories of reads and writes at secret and plain indices compared with "
               "Python lists (harness/ref.py); shapes compared across index values; out-of-range secret indices: must raise with checks "
               "on, and with checks off the emitted system must be unsatisfiable (exhaustive witness search over p = 97)",
               "two-dimensional access (tuple indices, ArrayRow, rows as objects) is MODELLED (lean/PysnarkModel/Model/Array2D.lean) and "
               "proved against nested Python lists (Spec/Array2D.lean; Props/C15.lean C15_read2 … C15_oblivious2_history) for "
               "RECTANGULAR matrices whose elements are plain ints or LinComb's; every generated history is executed three times: on the "
               "real pysnark (harness/worker_array2d.py), on the list-of-lists reference in that worker, and on the model "
               "(Driver/ProtoArray2D.lean) — the model and the code must agree on the matrix after EVERY operation, on every value read, "
               "on the error class and the position of the failing operation, on the wire expression of every stored value and on the "
               "complete list of wires and constraints (S+W); histories over a 2-3 x 2-3 matrix with index OBJECTS created once and reused "
               "across operations, fresh secret and plain indices, rows read at plain indices (the inner object itself: aliasing is list "
               "semantics; the model keeps a heap of row objects) and at secret indices (read-only snapshots), copies, element reads "
               "a[i,j] / a[i][j] / r[j], writes a[i,j]=v, a[k][j]=v, r[j]=v, a[i]=row, reads inside a taken / not-taken if_then_else branch, "
               "some indices outside the array (must raise IndexError at their first use outside a branch that is not taken); rows read "
               "at a SECRET index and then stored at a constant position (`a[0] = a[PrivVal(2)]`), matrices built from previously read rows "
               "(`g = Array([a[PrivVal(1)], a[0]])`), followed by element writes through tuple indices with a constant or secret first "
               "index and reads back; every value also checked against its wire expression on the recorded witness",
               "EMPTY DIMENSIONS (zero-length arrays, n x 0 matrices, matrices without rows, three-level arrays with an empty level): every "
               "index is outside, so every element access through such a dimension must be refused -- an exception of any class (the "
               "unchanged tree: IndexError with the checks on, AttributeError with them off; the model raises the same classes: "
               "C15_empty_refused, C15_empty_refused2) or, with the checks off, a recorded constraint violated by the recorded witness; a "
               "silent return is a violation.  Executed through the program protocol (`arr` without operands, model-compared), through "
               "two-dimensional histories (gen_2d_empty, model-compared) and through the direct ND oracle (worker_array2d.py protocol ND: "
               "one access on an array nested 1-3 levels deep, all index-kind patterns, a[..], a[..][..], a[..] = v, a[..][..] = v, both error modes)",
               "ACCESSES WITH THE CHECKS OFF (ignore_errors(True)): for every access form and nesting depth 1-3, with the first / a middle / the "
               "LAST index component secret and outside the array (-1, n, n+3): the run must raise or leave a recorded constraint violated by "
               "the recorded witness (ND oracle; two-dimensional histories gen_2d_checks_off, whose wires and constraints are also compared "
               "with the model run in that mode); the HONEST circuit of a read / tuple-index write over a small prime (97; 13 for three "
               "levels) with the wire of one secret component re-fixed to n, n+3, -1 must be unsatisfiable (exhaustive search, every "
               "internal wire free); the constraint list must be identical for all values of the secret components and both error modes",
               "rows of ANOTHER LENGTH built outside the matrix (one shorter / longer) stored at plain indices (legitimate: the matrix becomes "
               "ragged, as a list of lists would) and at secret indices, then reads and writes: wherever rows have to be combined "
               "element-wise (a store at a secret row index, a row read at a secret index of a ragged matrix, also inside a branch that is "
               "not taken) the code must REFUSE with ValueError, never truncate (finding C15-row-store-other-length, repaired; model: "
               "addRows/subRows raise, theorem C15_other_length_refused; the reference in worker_array2d.py raises at the same points)",
               "not covered by the history theorems (C15_history2 ...): histories that create rows of another length (Ev.okWidth); rows holding LinCombBool / LinCombFxp "
               "elements, arrays nested deeper than two levels (single accesses on three-level arrays are covered by the direct ND oracle only), "
               "Array.__add__/__sub__/__rmul__/assert_eq/joined as user-level operations; an access to an empty dimension inside a branch "
               "that is NOT taken (the unchanged tree raises AttributeError there: dead code is not inert -- C07's subject) is not generated"]
PARTIAL = []
LEVELS = "VS"
P97 = 97


def small_array_case(rnd, cid, oob):
    """tiny instance over p = 97 for the witness search"""
    bl = rnd.choice([3, 4]); n = rnd.randrange(1, 4)
    cfg = {"p": P97, "bl": bl, "res": 0, "ign": 1 if oob else 0}
    b = progs.Builder(rnd, cfg)
    elems = []
    for _ in range(n):
        e = b.operand("L", value=rnd.randrange(0, 4)); b.ins[e] = b.ins[e].replace("const", "priv").replace("pub", "priv"); elems.append(e)
    arr = b.emit("arr " + " ".join(f"r{e}" for e in elems), "A")
    iv = rnd.choice([n, n + 1, -1]) if oob else rnd.randrange(0, n)
    idx = b.operand("L", value=iv); b.ins[idx] = b.ins[idx].replace("const", "priv").replace("pub", "priv")
    t = b.emit(f"aget r{arr} r{idx}", "?")
    return progs.Case(cid, cfg, b.ins, {"shape": "small-array", "op": "get-oob" if oob else "get", "kinds": f"n{n}", "target": t, "iv": iv, "n": n})


def sat_job(job):
    cons, fixed, unknown, lc = job
    vals = set(); n = 0
    try:
        for sol in solve.solve(cons, fixed, unknown, P97, limit=300000):
            n += 1
            full = dict(fixed); full.update(sol); full["1"] = 1
            if lc is not None:
                vals.add(solve.ev(solve.parse_lc(lc), full, P97))
            if n > 200:
                break
        return n, sorted(vals), True
    except solve.Limit:
        return n, sorted(vals), False


# scenario class "a row of another length stored in the matrix" (finding C15-row-store-other-length, repaired: such rows are
# refused with ValueError wherever rows are combined element-wise); part of every run (VERIF_C15_OTHER_LENGTH_ROWS=0 turns it off)
import os
OTHER_LENGTH_ROWS = os.environ.get("VERIF_C15_OTHER_LENGTH_ROWS", "1") == "1"


def gen_2d(rnd):
    """history over a matrix: index OBJECTS created once and reused across operations (loop-variable style), fresh secret and
    plain indices; rows read at plain indices (the inner object: aliasing is list semantics) and at secret indices (read-only
    snapshots), copies; element reads; writes through the matrix, through previously obtained rows and through a plain-index
    inner row; reads inside a taken / not-taken if_then_else branch; a few indices lie outside the array"""
    rows = rnd.randrange(2, 4); cols = rnd.randrange(2, 4)
    h = {"rows": rows, "cols": cols, "secret": rnd.random() < 0.7,
         "init": [[rnd.randrange(0, 9) for _ in range(cols)] for _ in range(rows)], "ops": []}
    ops = h["ops"]
    idxs = {}                    # name -> (secret, value, is it meant for rows?)
    rowvars = {}                 # name -> kind
    nvar = [0]
    val = [10]

    def fresh_val():
        val[0] += 1
        return val[0]

    def new_idx(for_rows):
        n = rows if for_rows else cols
        i = rnd.randrange(n) if rnd.random() < 0.9 else rnd.choice([n, n + 1, -1])
        name = f"i{len(idxs)}"
        sec = rnd.random() < 0.85 or not 0 <= i < n
        idxs[name] = (sec, i, for_rows)
        ops.append(["idx", name, sec, i])
        return name

    def spec(for_rows, plain_ok=True):
        n = rows if for_rows else cols
        c = rnd.random()
        named = [k for k, (s_, i_, fr) in idxs.items() if fr == for_rows or (0 <= i_ < n and rnd.random() < 0.3)]
        if c < 0.5 and named:
            return ["n", rnd.choice(named)]
        if c < 0.6:
            return ["n", new_idx(for_rows)]
        if c < 0.8 or not plain_ok:
            return ["s", rnd.randrange(n) if rnd.random() < 0.93 else rnd.choice([n, -1])]
        return ["p", rnd.randrange(n)]

    def newvar():
        nvar[0] += 1
        return f"v{nvar[0]}"

    def stored_views(gather):
        """a row read at a secret index is stored at a constant position, or the matrix is rebuilt from rows read before; then
        element writes through tuple indices (constant / secret first index) and reads back"""
        if gather and rnd.random() < 0.5:
            ops.append(["gather", [spec(True) if rnd.random() < 0.3 else ["s", rnd.randrange(rows)] for _ in range(rows)]])
            targets = list(range(rows))
        else:
            v = newvar(); rowvars[v] = "rowview"
            secret_row_idx = [k for k, (s_, i_, fr) in idxs.items() if s_ and fr]
            ops.append(["row", v, ["n", rnd.choice(secret_row_idx)] if secret_row_idx and rnd.random() < 0.3 else ["s", rnd.randrange(rows)]])
            r = rnd.randrange(rows)
            ops.append(["setrow", ["p", r], v])
            targets = [r]
        for _ in range(rnd.randrange(1, 4)):
            r = rnd.choice(targets)
            c = rnd.random()
            first = ["p", r] if c < 0.75 else ["s", r]
            second = ["p", rnd.randrange(cols)] if rnd.random() < 0.5 else spec(False)
            if rnd.random() < 0.8: ops.append(["set2", first, second, fresh_val()])
            else: ops.append([rnd.choice(["get2", "getrc"]), newvar(), first, second])

    for _ in range(rnd.randrange(1, 3)):
        new_idx(True)
    if OTHER_LENGTH_ROWS and rnd.random() < 0.15:
        # a row built outside the matrix, of the matrix's width or not, stored at a secret or plain row index
        v = newvar(); rowvars[v] = "array"
        ops.append(["newrow", v, [fresh_val() for _ in range(rnd.choice([cols, cols, max(1, cols - 1), cols + 1]))]])
        ops.append(["setrow", ["s", rnd.randrange(rows)] if rnd.random() < 0.7 else ["p", rnd.randrange(rows)], v])
    if rnd.random() < 0.2:
        stored_views(True)
    for _ in range(rnd.randrange(3, 9)):
        c = rnd.random()
        if c < 0.17:
            v = newvar(); sp = spec(True)
            rowvars[v] = "alias" if sp[0] == "p" or (sp[0] == "n" and not idxs[sp[1]][0]) else "rowview"
            ops.append(["row", v, sp])
        elif c < 0.25 and rowvars:
            v = newvar(); src = rnd.choice(list(rowvars)); rowvars[v] = "array"
            ops.append(["copy", v, src])
        elif c < 0.40:
            ops.append([rnd.choice(["get2", "get2", "getrc"]), newvar(), spec(True), spec(False)])
        elif c < 0.47 and rowvars:
            ops.append(["rowget", newvar(), rnd.choice(list(rowvars)), spec(False)])
        elif c < 0.57 and rowvars:
            ops.append(["set1", rnd.choice(list(rowvars)), spec(False), fresh_val()])
        elif c < 0.70:
            ops.append(["setchain", rnd.randrange(rows), spec(False), fresh_val()])
        elif c < 0.82:
            ops.append(["set2", spec(True), spec(False), fresh_val()])
        elif c < 0.90 and rowvars:
            v = rnd.choice(list(rowvars))
            # a plain-index row write stores the OBJECT; an alias of an inner row is stored that way only as a copy
            sp = spec(True, plain_ok=(rowvars[v] == "array"))
            if sp[0] == "n" and not idxs[sp[1]][0] and rowvars[v] != "array":
                sp = ["s", idxs[sp[1]][1]]
            ops.append(["setrow", sp, v])
        elif c < 0.94:
            stored_views(True)
        else:
            ops.append(["bget", newvar(), rnd.choice([0, 0, 1]), spec(True), spec(False)])
    # read everything back through the reused index objects
    for k, (sec, i, fr) in idxs.items():
        if fr and rnd.random() < 0.7:
            ops.append(["get2", newvar(), ["n", k], ["p", rnd.randrange(cols)]])
    return h


def gen_2d_checks_off(rnd, k):
    """(T) a two-dimensional history run with the Python-level checks OFF (ignore_errors(True)): a few honest operations, then ONE
    access with a secret component outside the matrix (-1, n, n+3) in each access form (k selects the form: row / column
    component of a[i,j], a[i][j], a[i,j] = v with a secret or plain row, r[j], r[j] = v, a[k][j] = v, a[i], a[i] = row, a read
    in a taken branch), then more operations (compared with the model only: values are unspecified after the access)"""
    rows = rnd.randrange(2, 4); cols = rnd.randrange(2, 4)
    h = {"rows": rows, "cols": cols, "secret": rnd.random() < 0.8, "ign": 1,
         "init": [[rnd.randrange(0, 9) for _ in range(cols)] for _ in range(rows)], "ops": []}
    ops = h["ops"]; nv = [0]; val = [20]

    def var():
        nv[0] += 1
        return f"v{nv[0]}"

    def fresh():
        val[0] += 1
        return val[0]

    def good(n, plain_ok=True):
        c = rnd.random()
        if c < 0.3 and plain_ok: return ["p", rnd.randrange(n)]
        if c < 0.5:
            name = f"i{sum(1 for o in ops if o[0] == 'idx')}"
            ops.append(["idx", name, True, rnd.randrange(n)])
            return ["n", name]
        return ["s", rnd.randrange(n)]

    def bad(n):
        v = rnd.choice([-1, n, n + 3])
        if rnd.random() < 0.3:
            name = f"i{sum(1 for o in ops if o[0] == 'idx')}"
            ops.append(["idx", name, True, v])
            return ["n", name]
        return ["s", v]

    def honest():
        c = rnd.random()
        if c < 0.35: ops.append([rnd.choice(["get2", "getrc"]), var(), good(rows), good(cols)])
        elif c < 0.75: ops.append(["set2", good(rows), good(cols), fresh()])
        elif c < 0.9: ops.append(["setchain", rnd.randrange(rows), good(cols), fresh()])
        else:
            v = var(); ops.append(["row", v, good(rows)]); ops.append(["rowget", var(), v, good(cols)])

    for _ in range(rnd.randrange(0, 3)):
        honest()
    forms = ["get2-row", "get2-col", "getrc-row", "getrc-col", "set2-row", "set2-col", "set2-col", "set2-col-plain-row", "rowget", "set1",
             "setchain", "row", "setrow", "bget-col"]
    form = forms[k % len(forms)]
    if form == "get2-row": ops.append(["get2", var(), bad(rows), good(cols)])
    elif form == "get2-col": ops.append(["get2", var(), good(rows), bad(cols)])
    elif form == "getrc-row": ops.append(["getrc", var(), bad(rows), good(cols)])
    elif form == "getrc-col": ops.append(["getrc", var(), good(rows), bad(cols)])
    elif form == "set2-row": ops.append(["set2", bad(rows), good(cols), fresh()])
    elif form == "set2-col": ops.append(["set2", good(rows, plain_ok=False), bad(cols), fresh()])
    elif form == "set2-col-plain-row": ops.append(["set2", ["p", rnd.randrange(rows)], bad(cols), fresh()])
    elif form == "rowget":
        v = var(); ops.append(["row", v, good(rows)]); ops.append(["rowget", var(), v, bad(cols)])
    elif form == "set1":
        v = var(); ops.append(["row", v, ["p", rnd.randrange(rows)]]); ops.append(["set1", v, bad(cols), fresh()])
    elif form == "setchain": ops.append(["setchain", rnd.randrange(rows), bad(cols), fresh()])
    elif form == "row": ops.append(["row", var(), bad(rows)])
    elif form == "setrow":
        v = var(); ops.append(["row", v, good(rows)]); ops.append(["setrow", bad(rows), v])
    else: ops.append(["bget", var(), 1, good(rows), bad(cols)])
    for _ in range(rnd.randrange(0, 3)):
        honest()
    return h


def gen_2d_empty(rnd, k):
    """(E) matrices with an EMPTY dimension (no rows; 1-3 rows without elements) and rows built outside without elements, checks on
    (k even) and off (k odd): operations on whole rows (legitimate for an n x 0 matrix), then one ELEMENT access in each form,
    index components secret / plain, values 0, 1, -1, 3: every one of them is outside"""
    rows = [0, 1, 2, 3][(k // 2) % 4]
    h = {"rows": rows, "cols": 0, "secret": True, "ign": k % 2, "init": [[] for _ in range(rows)], "ops": []}
    ops = h["ops"]; nv = [0]

    def var():
        nv[0] += 1
        return f"v{nv[0]}"

    def anyix(n=None):
        """an index specification; inside [0, n) if n is given"""
        v = rnd.randrange(n) if n else rnd.choice([0, 1, -1, 3])
        c = rnd.random()
        if c < 0.3: return ["p", v]
        if c < 0.5:
            name = f"i{sum(1 for o in ops if o[0] == 'idx')}"
            ops.append(["idx", name, True, v])
            return ["n", name]
        return ["s", v]

    rowvar = None
    if rows and rnd.random() < 0.6:
        rowvar = var(); ops.append(["row", rowvar, anyix(rows)])
        if rnd.random() < 0.4:
            c = var(); ops.append(["copy", c, rowvar]); rowvar = c
        if rnd.random() < 0.4:
            ops.append(["setrow", ["s", rnd.randrange(rows)], rowvar])
    if rowvar is None or rnd.random() < 0.3:
        rowvar = var(); ops.append(["newrow", rowvar, []])
    forms = ["get2", "getrc", "set2", "rowget", "set1"] + (["setchain"] if rows else ["row", "setrow"])
    form = forms[(k // 8) % len(forms)]
    r = anyix(rows or None)
    if form in ("get2", "getrc"): ops.append([form, var(), r, anyix()])
    elif form == "set2": ops.append(["set2", r, anyix(), 7])
    elif form == "rowget": ops.append(["rowget", var(), rowvar, anyix()])
    elif form == "set1": ops.append(["set1", rowvar, anyix(), 7])
    elif form == "setchain": ops.append(["setchain", rnd.randrange(rows), anyix(), 7])
    elif form == "row": ops.append(["row", var(), r])
    else: ops.append(["setrow", r, rowvar])
    return h


def classify_2d(h, at):
    """scenario class of a two-dimensional history (for the violation signature): what preceded the operation at which it
    went wrong (or the whole history)"""
    ops = h["ops"] if at is None else h["ops"][:at + 1]
    used = {}
    reuse = False; bypass = False; branch = False; stored = False; other = False
    views = set(); odd = set()
    for op in ops:
        if op[0] == "newrow" and len(op[2]) != h["cols"]: odd.add(op[1])
        if op[0] == "setrow" and op[2] in odd: other = True
        if op[0] == "row" and (op[2][0] == "s" or (op[2][0] == "n" and any(o[0] == "idx" and o[1] == op[2][1] and o[2] for o in h["ops"]))):
            views.add(op[1])
        if op[0] == "gather" or (op[0] == "setrow" and op[2] in views and op[1][0] != "s"): stored = True
        named = [x[1] for x in op if isinstance(x, list) and len(x) == 2 and x[0] == "n"]
        for nme in named:
            if used.get(nme): reuse = True
            used[nme] = True
            if op[0] == "bget" and not op[2]: branch = True
        if op[0] in ("setchain", "set1"): bypass = True
    return {"index_object_reused": reuse, "write_through_row": bypass, "index_first_used_in_branch_not_taken": branch,
            "secret_read_row_stored_in_matrix": stored, "row_of_other_length_stored": other,
            "checks_off": bool(h.get("ign")), "empty_dimension": not h["init"] or any(not r for r in h["init"])}


def model_diff_2d(real, mrep, names):
    """the model's run of a history against the real run: None if they agree, "unmodelled", or the first difference"""
    m = a2enc.decode(mrep)
    if "bad" in m:
        raise common.Infra("model driver: " + m["bad"])
    if m["status"] == "UNMODELLED":
        return "unmodelled"
    if m["status"] != real["status"] or m["at"] != real["at"]:
        return f"model ends with {m['status']} at operation {m['at']}, the code with {real['status']} at operation {real['at']}"
    for k, (a, b) in enumerate(zip(m["trace"], real["trace"])):
        if a != b:
            return f"matrix after operation #{k}: model {a}, code {b}"
    if len(m["trace"]) != len(real["trace"]):
        return f"{len(m['trace'])} completed operations in the model, {len(real['trace'])} in the code"
    mv = {names[k]: v for k, v in m["vars"].items()}
    if mv != real["vars"]:
        return f"values read: model {mv}, code {real['vars']}"
    if m["state"] != real["state"]:
        fa = m["state"].split("|"); fb = real["state"].split("|")
        for x, y in zip(fa, fb):
            if x != y:
                ca = x.split(" & "); cb = y.split(" & ")
                i = next((i for i, (u, v) in enumerate(zip(ca, cb)) if u != v), min(len(ca), len(cb)))
                return (f"wires / constraints ({x.split('=')[0]}): model {len(ca)} entries, code {len(cb)}; first difference at #{i}: "
                        f"{(ca[i] if i < len(ca) else '-')[:200]} vs {(cb[i] if i < len(cb) else '-')[:200]}")
        return "state strings differ in length"
    mat, _, vs = m["lcs"].partition("#")
    ml = {"matrix": mat}
    for kv in vs.split(";"):
        if kv:
            k, _, v = kv.partition("="); ml[names[k]] = v
    if ml != real["lcs"]:
        k = next(k for k in sorted(set(ml) | set(real["lcs"])) if ml.get(k) != real["lcs"].get(k))
        return f"wire expression of {k}: model {str(ml.get(k))[:300]}, code {str(real['lcs'].get(k))[:300]}"
    return None


def explore_2d(ctx, ex):
    import json
    hs = [gen_2d(ctx.rnd) for _ in range(ctx.n(700, 14000))]
    hs += [gen_2d_checks_off(ctx.rnd, k) for k in range(ctx.n(140, 2800))]
    hs += [gen_2d_empty(ctx.rnd, k) for k in range(ctx.n(112, 1120))]
    outs = common.run_workers([f"A2|a{i}|{json.dumps(h)}" for i, h in enumerate(hs)], script="worker_array2d.py")
    # the same histories on the model (lean/PysnarkModel/Model/Array2D.lean through Driver/ProtoArray2D.lean)
    ok, out, _ = common.lake_build(["PysnarkModel.Driver.ProtoArray2D"])
    if not ok:
        raise common.Infra("model driver for two-dimensional histories does not build: " + out[-1500:])
    enc = []
    for i, h in enumerate(hs):
        try:
            enc.append(a2enc.encode(h, f"a{i}"))
        except a2enc.Unmodelled:
            enc.append(None)
    mreps = iter(common.lean_driver([e[0] for e in enc if e]))
    for h, o, e in zip(hs, outs, enc):
        ex.evaluations += 1
        d = json.loads(o.split("|", 1)[1])
        if "harness-error" in d:
            raise common.Infra(str(d))
        ex.count(f"2d:{d['status']}")
        ex.distinct.add(("2d", json.dumps(h["ops"])))
        cls = classify_2d(h, d.get("at"))
        for k, v in cls.items():
            if v: ex.count(f"2d:{k}")
        # correspondence: values after every operation, values read, error class and position, wires and constraints
        diff = "unmodelled" if e is None else model_diff_2d(d["real"], next(mreps), e[1])
        if diff == "unmodelled":
            ex.unmodelled += 1; ex.count("2d:unmodelled")
        elif diff:
            ex.disagreements.append({"case": "A2|r|" + json.dumps(h), "model": e[0], "diff": [diff]})
        else:
            ex.traces_validated += 1; ex.count("2d:model-agrees")
        if d["status"] == "ok" and d["refstatus"] == "ok":
            bad = None
            if d["m"] != d["ref"]:
                bad = (f"after operation #{d['at']} {h['ops'][d['at']]}: " if d.get("at") is not None else "") + \
                      f"array contents {d['m']} vs list semantics {d['ref']}"
            else:
                for k, v in d["rvars"].items():
                    if d["vars"].get(k) != v:
                        bad = f"{k}: {d['vars'].get(k)} vs list semantics {v}"; break
            if bad:
                ex.violations.append(Violation(dict(cls, instr="array2d", dev="wrong-value"),
                                               f"two-dimensional history: {bad}", {"history": h}))
            if d.get("unsat"):
                ex.violations.append(Violation(dict(cls, instr="array2d", dev="unsatisfied"),
                                               f"two-dimensional history: constraint #{d['unsat'][0]} not satisfied", {"history": h}))
            if d.get("incoh"):
                ex.violations.append(Violation(dict(cls, instr="array2d", dev="incoherent"),
                                               f"two-dimensional history: value of {d['incoh'][0]} differs from its wire expression on the recorded witness", {"history": h}))
        elif h.get("ign") and d["refstatus"] == "IndexError" and d["status"] != "TypeError":
            # checks off, an index outside the array (or any access through an empty dimension): a refusal of any class is
            # fine; a completed operation must have recorded a constraint that the recorded witness violates
            if d["status"] == "ok" and not d["unsat_first"]:
                ex.violations.append(Violation(dict(cls, instr="array2d", dev="out-of-range-silent"),
                                               f"two-dimensional history, checks off: operation #{d['at']} {h['ops'][d['at']]} uses an index outside the "
                                               f"array; it completes and every constraint recorded up to its end holds on the recorded witness: an "
                                               f"access outside the array can be proven", {"history": h}))
        elif d["status"] != d["refstatus"] and "TypeError" not in (d["status"], d["refstatus"]):
            ex.violations.append(Violation(dict(cls, instr="array2d", dev="raises", error=d["status"], expected=d["refstatus"]),
                                           f"two-dimensional history: operation #{d.get('at')} {h['ops'][d['at']] if d.get('at') is not None else ''} "
                                           f"ends with {d['status']}, list semantics with {d['refstatus']}", {"history": h}))



# ---------------------------------------------------------------------------------------------------------------------------
# Scenario classes added after the sixth seeded round (DESIGN.md 10.6)
#
# (E) EMPTY DIMENSIONS.  A zero-length array, an n x 0 / 0 x n matrix, a three-level array with an empty level: EVERY index is
#     outside such a dimension, so every element access through it must be REFUSED — an exception (IndexError with the checks
#     on; with the checks off the unchanged tree raises AttributeError, because `sum([])` is the int 0: any class is a refusal)
#     or, with the checks off, a recorded constraint that the recorded witness violates.  A silent return is a violation.
#     All access forms (a[i], a[i] = v, a[i,j], a[i][j], a[i,j] = v, a[k][j] = v, rows), index components secret / plain, both
#     error modes.  Three carriers: the one-dimensional program protocol (`arr` without operands: model-compared), the
#     two-dimensional histories (`gen_2d_empty`: model-compared, Model/Array2D.lean) and the direct `ND` oracle (1-3 levels).
# (T) TUPLE-INDEX WRITES (AND READS) WITH A COMPONENT OUTSIDE THE ARRAY, CHECKS OFF.  `a[i,j] = v`, `a[i,j,k] = v` with the
#     first / a middle / the LAST component secret and outside (-1, n, n+3): (a) run under ignore_errors(True) the recorded
#     witness must violate a recorded constraint (`out-of-range-silent` otherwise); (b) the HONEST circuit over p = 97 with the
#     component's wire re-fixed to the outside value (all other inputs as recorded, every internal wire free) must be
#     unsatisfiable (`out-of-range-provable` otherwise); (c) the circuit must be the same for every index value.
#     Carriers: `ND` oracle (1-3 levels, every kind pattern) and two-dimensional histories run with the checks off
#     (`gen_2d_checks_off`: model-compared at S+W, so the model's constraint list is compared with the code's in that mode too).

def empty_array_case(rnd, cid, k):
    """one access to a ZERO-LENGTH array through the program protocol (model-compared): secret / plain index, read / write,
    checks on / off, index values 0, 1, -1, 3"""
    form = ["aget-s", "aset-s", "aget-p", "aset-p"][(k // 2) % 4]
    iv = [0, 1, -1, 3][(k // 8) % 4]
    cfg = {"p": common.BN128, "bl": 8, "res": 0, "ign": k % 2}
    b = progs.Builder(rnd, cfg)
    arr = b.emit("arr", "A")
    idx = b.operand("L" if form.endswith("-s") else "I", value=iv)
    if form.startswith("aget"):
        b.emit(f"aget r{arr} r{idx}", "?")
    else:
        v = b.operand(rnd.choice("LI"), value=7)
        b.emit(f"aset r{arr} r{idx} r{v}", "N")
    return progs.Case(cid, cfg, b.ins, {"shape": "empty-array", "op": form, "kinds": "n0", "iv": iv, "malformed": True})


def nd_build(shape, cnt=None):
    cnt = cnt if cnt is not None else [0]
    if len(shape) == 1:
        out = []
        for _ in range(shape[0]):
            cnt[0] += 1; out.append(cnt[0])
        return out
    return [nd_build(shape[1:], cnt) for _ in range(shape[0])]


def nd_ref(h):
    """Python-list semantics of one access (harness/worker_array2d.py, protocol ND): {"oob": level or None, "kind", "res", "after"};
    components are evaluated left to right; a secret component must lie in [0, n), a plain one in [-n, n)"""
    import copy
    before = nd_build(h["shape"])
    after = copy.deepcopy(before)
    cur = after; parent = None
    for lvl, (kind, v) in enumerate(h["idx"]):
        n = len(cur)
        if (kind == "s" and not 0 <= v < n) or (kind == "p" and not -n <= v < n):
            return {"oob": lvl, "kind": "secret" if kind == "s" else "plain", "before": before}
        parent = cur; cur = cur[v]
    if h["op"].startswith("set"):
        parent[h["idx"][-1][1]] = h["val"]
        return {"oob": None, "before": before, "after": after, "res": None}
    return {"oob": None, "before": before, "after": before, "res": cur}


ND_EMPTY = [[0], [2, 0], [3, 0], [0, 2], [0, 0], [2, 2, 0], [2, 0, 2], [0, 2, 2]]
ND_SHAPES = [[1], [2], [3], [4], [2, 2], [3, 2], [2, 3], [1, 3], [2, 2, 2], [2, 3, 2], [3, 1, 2]]
ND_SMALL = [[2], [3], [2, 2], [3, 2], [2, 2, 2]]          # witness-space search over p = 97


def nd_cases(rnd, thorough=False):
    """(E) and (T): enumerated (every class is in every run, whatever the seed), values drawn"""
    import itertools
    out = []

    def comp(kind, n, outside):
        if outside:
            return rnd.choice([-1, n, n + 3]) if kind == "s" else rnd.choice([n, -n - 1])
        return rnd.randrange(n) if kind == "s" or rnd.random() < 0.8 else rnd.randrange(-n, 0)

    def mk(shape, op, kinds, ign, bad=None, badval=None, secret=None):
        idx = []
        for lvl, kind in enumerate(kinds):
            n = shape[lvl]
            if n == 0:
                v = rnd.choice([0, 1, -1, 3])
            elif lvl == bad:
                v = badval if badval is not None else comp(kind, n, True)
            else:
                v = comp(kind, n, False)
            idx.append([kind, v])
        h = {"shape": shape, "secret": (rnd.random() < 0.8) if secret is None else secret, "idx": idx, "op": op, "ign": ign}
        if op.startswith("set"):
            h["val"] = 70 + rnd.randrange(20); h["valsecret"] = rnd.random() < 0.7
        if len(idx) == 1 and rnd.random() < 0.15:
            h["tuple1"] = True
        return h

    for shape in ND_EMPTY:
        d = len(shape)
        for ign in (0, 1):
            for op in ("get", "getchain", "set", "setchain"):
                for kinds in itertools.product("sp", repeat=d):
                    if op == "setchain" and "s" in kinds[:-1]:
                        continue        # a[PrivVal(i)][j] = v is refused by design (ArrayRow)
                    out.append(mk(shape, op, kinds, ign))
            if d > 1:                   # rows of a matrix with an empty dimension
                for kind in "sp":
                    out.append(mk(shape, "get", (kind,), ign))
    for shape in ND_SHAPES:
        d = len(shape)
        for ign in (0, 1):
            for op in ("get", "getchain", "set", "setchain"):
                for kinds in itertools.product("sp", repeat=d):
                    if op == "setchain" and "s" in kinds[:-1]:
                        continue
                    for bad in [None] + list(range(d)):
                        last_secret_write = op == "set" and d > 1 and bad == d - 1 and kinds[-1] == "s"
                        if last_secret_write:
                            # the class of 10.6 (T): every outside value, checks on and off
                            for bv in (-1, shape[bad], shape[bad] + 3):
                                out.append(mk(shape, op, kinds, ign, bad, bv))
                        elif thorough or bad is None or d < 3 or rnd.random() < 0.5:
                            out.append(mk(shape, op, kinds, ign, bad))
    return out


def nd_small_cases(rnd):
    """honest accesses over a small prime whose circuits are handed to the witness-space search: p = 97 for one and two
    levels, p = 13 for three (each in-range secret component leaves one free auxiliary wire — the `inverse` of the zero
    difference — so the search tree has p^(number of earlier secret components) branches before the last one-hot vector)"""
    import itertools
    out = []
    for shape in ND_SMALL:
        d = len(shape)
        for op in ("get", "set"):
            for kinds in itertools.product("sp", repeat=d):
                if "s" not in kinds:
                    continue
                h = {"shape": shape, "secret": True, "idx": [[k, rnd.randrange(shape[l])] for l, k in enumerate(kinds)], "op": op,
                     "ign": 0, "p": P97 if d < 3 else 13}
                if op == "set":
                    h["val"] = 9 + rnd.randrange(4); h["valsecret"] = True
                out.append(h)
    return out


def nd_class(h, ref=None):
    ref = ref or nd_ref(h)
    d = len(h["shape"])
    where = None
    if ref["oob"] is not None:
        where = "only" if d == 1 else "first" if ref["oob"] == 0 else "last" if ref["oob"] == d - 1 else "middle"
    return {"instr": "arraynd", "op": h["op"], "depth": d,
            "empty_dimension": 0 in h["shape"], "outside": None if where is None else f"{ref['kind']}-{where}",
            "mode": "checks-off" if h.get("ign") else "checks-on"}


def nd_sat_job(job):
    """is the system satisfiable?  (True / False, complete?)"""
    cons, fixed, unknown, p, limit = job
    try:
        for _ in solve.solve(cons, fixed, unknown, p, limit=limit):
            return True, True
        return False, True
    except solve.Limit:
        return False, False


def nd_run(hs):
    import json
    outs = common.run_workers([f"ND|n{i}|{json.dumps(h)}" for i, h in enumerate(hs)], script="worker_array2d.py")
    res = []
    for o in outs:
        d = json.loads(o.split("|", 1)[1])
        if "harness-error" in d:
            raise common.Infra(str(d))
        res.append(d)
    return res


def nd_transplant_job(h, d, lvl, value, limit=3000000):
    """the circuit of the honest access `h` (result `d`), all inputs as recorded except the wire of component `lvl`, which is
    fixed to `value`; every wire created by the access is unknown"""
    p = h["p"]
    cons = solve.parse_cons(d["cons"])
    fixed = {f"w{i + 1}": d["priv"][i] % p for i in range(d["ninputs"])}
    fixed[d["idxw"][lvl]] = value % p
    unknown = [f"w{i + 1}" for i in range(d["ninputs"], len(d["priv"]))]
    return (cons, fixed, unknown, p, limit)


def explore_nd(ctx, ex):
    hs = nd_cases(ctx.rnd, ctx.thorough())
    ds = nd_run(hs)
    groups = {}
    for h, d in zip(hs, ds):
        ex.evaluations += 1
        ref = nd_ref(h); cls = nd_class(h, ref)
        ex.count(f"nd:{d['status']}")
        ex.count("nd:" + ("empty-dimension" if cls["empty_dimension"] else f"depth{cls['depth']}") + f":{cls['op']}:{cls['mode']}:" +
                 (cls["outside"] or "inside"))
        ex.distinct.add(("nd", tuple(h["shape"]), h["op"], "".join(k for k, _ in h["idx"]), cls["outside"], h.get("ign")))
        rp = {"nd": h}
        what = f"{h['op']} at {h['idx']} on an array of shape {h['shape']} ({cls['mode']})"
        if ref["oob"] is None:
            if d["status"] != "ok":
                ex.violations.append(Violation(dict(cls, dev="raises", error=d["status"]),
                                               f"{what}: every component is inside the array, the access raises {d['status']}: {d['msg']}", rp))
            elif d["after"] != ref["after"] or (h["op"].startswith("get") and d["res"] != ref["res"]):
                ex.violations.append(Violation(dict(cls, dev="wrong-value"),
                                               f"{what}: array {d['after']} value read {d['res']}; list semantics: {ref['after']}, {ref['res']}", rp))
            elif d["unsat"]:
                ex.violations.append(Violation(dict(cls, dev="unsatisfied"), f"{what}: constraint #{d['unsat'][0]} not satisfied by the recorded witness", rp))
            elif d["incoh"]:
                ex.violations.append(Violation(dict(cls, dev="incoherent"), f"{what}: the value read differs from its wire expression on the recorded witness", rp))
        elif d["status"] == "ok":
            # a component outside the array (for an empty dimension: any component) and no exception
            if not h.get("ign") or ref["kind"] == "plain":
                ex.violations.append(Violation(dict(cls, dev="out-of-range-accepted"),
                                               f"{what}: component #{ref['oob']} is outside the array and nothing is raised "
                                               f"(value read {d['res']}, array afterwards {d['after']})", rp))
            elif not d["unsat"]:
                ex.violations.append(Violation(dict(cls, dev="out-of-range-silent"),
                                               f"{what}: component #{ref['oob']} is outside the array; the access completes (value read {d['res']}, "
                                               f"array afterwards {d['after']}) and ALL {len(d['cons'])} recorded constraints hold on the recorded "
                                               f"witness: an access outside the array can be proven", rp))
        if any(d["dirty"]) and d["status"] == "ok":
            ex.violations.append(Violation(dict(cls, dev="state-left-dirty"), f"{what}: guard / ONE not restored", rp))
        if d["status"] == "ok":
            # plain components and a plain value written are constants of the circuit
            key = (tuple(h["shape"]), h["op"], tuple(k if k == "s" else v for k, v in h["idx"]), h["secret"],
                   h.get("valsecret") or h.get("val"), h.get("tuple1"))
            groups.setdefault(key, []).append((h, d))
    # (c) the circuit does not depend on the values of the secret components (nor on the error mode)
    for key, members in groups.items():
        h0, d0 = members[0]
        for h1, d1 in members[1:]:
            if d1["cons"] != d0["cons"] or len(d1["priv"]) != len(d0["priv"]):
                k = next((i for i, (a, b) in enumerate(zip(d0["cons"], d1["cons"])) if a != b), min(len(d0["cons"]), len(d1["cons"])))
                ex.violations.append(Violation(dict(nd_class(h1), outside=None, mode=None, dev="shape-depends-on-index"),
                                               f"{h1['op']} on shape {h1['shape']}: the constraints differ between index {h0['idx']} (checks "
                                               f"{'off' if h0.get('ign') else 'on'}: {len(d0['cons'])} constraints) and {h1['idx']} (checks "
                                               f"{'off' if h1.get('ign') else 'on'}: {len(d1['cons'])}), first at #{k}", {"nd": h0, "nd_b": h1}))
                break
    # (b) witness-space search: the honest circuit with one secret component re-fixed to a value outside the array
    small = nd_small_cases(ctx.rnd)
    sds = nd_run(small)
    jobs = []; meta = []
    for h, d in zip(small, sds):
        ex.evaluations += 1
        if d["status"] != "ok" or d["unsat"]:
            ex.violations.append(Violation(dict(nd_class(h), dev="raises" if d["status"] != "ok" else "unsatisfied", field="small-prime"),
                                           f"honest {h['op']} at {h['idx']} on shape {h['shape']} over p = {h['p']}: {d['status']} {d['msg']} {d['unsat']}", {"nd": h}))
            continue
        for lvl, (kind, v) in enumerate(h["idx"]):
            if kind != "s":
                continue
            n = h["shape"][lvl]
            for value in (n, n + 3, -1):
                jobs.append(nd_transplant_job(h, d, lvl, value)); meta.append((h, d, lvl, value))
        # control: the recorded (inside) assignment of the inputs is satisfiable
        jobs.append(nd_transplant_job(h, d, next(l for l, (k, _) in enumerate(h["idx"]) if k == "s"),
                                      next(v for k, v in h["idx"] if k == "s"))); meta.append((h, d, None, None))
    with mp.Pool(12) as pool:
        res = pool.map(nd_sat_job, jobs, chunksize=2)
    for (h, d, lvl, value), (sat, complete) in zip(meta, res):
        dd = len(h["shape"])
        ex.count("nd-search:" + ("complete" if complete else "limit"))
        if not complete:
            continue
        if lvl is None:
            if not sat:
                raise common.Infra(f"witness search: the recorded assignment of {h} is reported unsatisfiable")
            continue
        ex.distinct.add(("nd-search", tuple(h["shape"]), h["op"], "".join(k for k, _ in h["idx"]), lvl, value))
        if sat:
            where = "only" if dd == 1 else "first" if lvl == 0 else "last" if lvl == dd - 1 else "middle"
            ex.violations.append(Violation(dict(nd_class(h), outside=f"secret-{where}", mode="witness-search", dev="out-of-range-provable"),
                                           f"{h['op']} at {h['idx']} on shape {h['shape']} over p = {h['p']}: with the wire of component #{lvl} set to "
                                           f"{value} (outside [0, {h['shape'][lvl]})) and every other input as recorded, the {len(d['cons'])} "
                                           f"constraints of the honest circuit are satisfiable: an access outside the array can be proven",
                                           {"nd": h, "transplant": {"component": lvl, "value": value}}))


def explore(ctx, extended=False, focus=None):
    ex = Exploration()
    ex.rule = ("(a) arrays of 1-5 constants/secrets, 1-4 reads/writes at secret or plain indices inside and outside the bounds, then every "
               "element read back: values vs Python lists, V+S correspondence with the model; the same history with other index "
               "values: identical shapes; (b) two-dimensional histories (gen_2d): code vs list-of-lists reference vs model "
               "(V after every operation, error class and position, S+W of the whole run); (c) tiny instances over p=97: in-range "
               "read determined, out-of-range index unsatisfiable; (d) zero-length arrays through the program protocol, matrices with an empty "
               "dimension and histories with the checks off through (b), single accesses on arrays nested 1-3 levels deep (ND oracle: "
               "empty dimensions, a component outside with the checks on / off, honest circuits over p=97/13 with one component re-fixed "
               "outside: unsatisfiable; same circuit for every index value); distinct = (history, length, index classes, bitlength)")
    n = ctx.n(900, 18000) * (3 if extended else 1)
    cases = corpus_cases("C15") + [progs.array_case(ctx.rnd, f"c15_{i}") for i in range(n)]
    # (E) zero-length arrays: every access form x index value x error mode, twice (other operand kinds)
    cases += [empty_array_case(ctx.rnd, f"c15e_{i}", i) for i in range(64 * (3 if extended else 1))]
    recs = execute_all(cases)
    from .c06 import twin as c06_twin, first_difference
    twins = execute_all([c06_twin(c, ctx.rnd, invalid=False) for c in cases], with_model=False)
    for r, t in zip(recs, twins):
        account(ex, r)
        correspond(ex, r, LEVELS)
        m = r.case.meta
        ex.distinct.add((m.get("op"), m.get("kinds"), r.case.cfg["bl"], r.errcls))
        R = ref.Ref(r.case.cfg)
        R.run([x.split() for x in r.case.instrs[:len(r.regs) + (0 if r.ok else 1)]])
        if not r.ok:
            # the failing instruction did not execute in the implementation: undo nothing, but do not compare the array
            # register against a reference that executed it
            R2 = ref.Ref(r.case.cfg); R2.run([x.split() for x in r.case.instrs[:len(r.regs)]])
        else:
            R2 = R
        for i, got in enumerate(r.regs):
            d = ref.compare(R2.regs[i], R2.kinds[i], got)
            if d:
                sig = instr_sig(r.case, r.regs, i); sig["dev"] = "wrong-value"
                ex.violations.append(Violation(sig, f"r{i} ({r.case.instrs[i]}): {d} (Python list semantics)", {"case": r.case.line()}))
                break
        if m.get("shape") == "empty-array":
            # every index is outside a zero-length array: the access (the last instruction) must be refused -- an exception of any
            # class, or, with the checks off and a secret index, a recorded constraint that the recorded witness violates
            secret = m["op"].endswith("-s")
            if r.ok and not (secret and r.case.cfg["ign"] == 1 and r.unsat):
                ex.violations.append(Violation({"instr": m["op"].split("-")[0], "index": "secret" if secret else "plain",
                                                "scenario": "zero-length-array", "mode": "checks-off" if r.case.cfg["ign"] else "checks-on",
                                                "dev": "out-of-range-silent" if r.case.cfg["ign"] else "out-of-range-accepted"},
                                               f"{r.case.instrs[-1]} on an array of length 0 (index value {m['iv']}, checks "
                                               f"{'off' if r.case.cfg['ign'] else 'on'}) completes: result {r.regs[-1][:60]}, {len(r.cons)} constraints "
                                               f"recorded, none violated by the recorded witness", {"case": r.case.line()}))
            continue
        # an out-of-range secret index must raise when checks are on
        if r.case.cfg["ign"] == 1:
            # ... and with the checks off the first such access must leave a constraint that the recorded witness violates
            for i, ins in enumerate(r.case.instrs[:len(r.regs)]):
                w = ins.split()
                if w[0] in ("aget", "aset") and R.regs[i][0] == "RAISE":
                    if R.kinds[int(w[2][1:])] != "I" and i < len(r.nc) and not any(u < r.nc[i][0] for u in r.unsat):
                        sig = instr_sig(r.case, r.regs, i); sig["dev"] = "out-of-range-silent"; sig["mode"] = "checks-off"
                        ex.violations.append(Violation(sig, f"{ins}: secret index outside the array, checks off: the access completes and every "
                                                            f"constraint recorded so far holds on the recorded witness", {"case": r.case.line()}))
                    break
        if r.case.cfg["ign"] == 0:
            for i, ins in enumerate(r.case.instrs[:len(r.regs)]):
                w = ins.split()
                if w[0] in ("aget", "aset") and R.regs[i][0] == "RAISE":
                    sig = instr_sig(r.case, r.regs, i); sig["dev"] = "out-of-range-accepted"
                    ex.violations.append(Violation(sig, f"{ins}: index outside the array did not raise", {"case": r.case.line()}))
                    break
        if r.ok and t.ok and not t.harness_error:
            sa, sb = r.shape(), t.shape()
            free = {i for i, x in enumerate(r.case.instrs) if x.startswith("lit ") or x.startswith("call val")}
            ra_ = [x for i, x in enumerate(sa[3]) if i not in free]; rb_ = [x for i, x in enumerate(sb[3]) if i not in free]
            if (sa[0], sa[1], sa[2], ra_) != (sb[0], sb[1], sb[2], rb_):
                i, why = first_difference(r, t, r.case)
                sig = instr_sig(r.case, r.regs, i) if i is not None else {"instr": "?"}
                sig["dev"] = "shape-depends-on-index"
                ex.violations.append(Violation(sig, f"the constraints differ between two index/content choices: {why}",
                                               {"case_a": r.case.line(), "case_b": t.case.line()}))
        if len(ex.samples) < 5 and r.cons:
            ex.samples.append(r.case.line())
    explore_2d(ctx, ex)
    explore_nd(ctx, ex)
    # (c) witness search on tiny instances
    small = [small_array_case(ctx.rnd, f"c15s_{i}", oob=(i % 2 == 1)) for i in range(ctx.n(240, 4500))]
    srecs = execute_all(small)
    jobs = []; keep = []
    for r in srecs:
        account(ex, r); correspond(ex, r, LEVELS)
        if not r.ok:
            continue
        t = r.case.meta["target"]
        cons = solve.parse_cons(r.cons)
        inputs = set()
        for j, ins in enumerate(r.case.instrs):
            if ins.startswith("mk ") and j < len(r.nc):
                lo = r.nc[j - 1][1] if j > 0 else 0
                if r.nc[j][1] > lo: inputs.add(lo)
        fixed = {f"w{i+1}": r.priv[i] % P97 for i in inputs}
        unknown = [f"w{i+1}" for i in range(len(r.priv)) if i not in inputs]
        import re
        mm = re.findall(r"[LBX]:-?\d+:([^,;\]\)]*)", r.regs[t])
        jobs.append((cons, fixed, unknown, mm[0] if mm else None)); keep.append(r)
    with mp.Pool(12) as pool:
        res = pool.map(sat_job, jobs, chunksize=4)
    for r, (nsol, vals, complete) in zip(keep, res):
        m = r.case.meta
        ex.distinct.add((m["op"], m["n"], m["iv"], r.case.cfg["bl"]))
        ex.count("search:" + ("complete" if complete else "limit"))
        if not complete:
            continue
        if m["op"] == "get-oob" and nsol > 0:
            ex.violations.append(Violation({"instr": "aget", "dev": "out-of-range-provable"},
                                           f"reading index {m['iv']} of an array of {m['n']} elements with checks off emits a satisfiable system "
                                           f"(result can be {vals[:5]}): an out-of-range access can be proven", {"case": r.case.line()}))
        if m["op"] == "get" and len(vals) != 1:
            ex.violations.append(Violation({"instr": "aget", "dev": "read-not-determined"},
                                           f"reading index {m['iv']}: satisfying assignments give results {vals[:6]}", {"case": r.case.line()}))
    return ex


def replay(ctx, payload):
    rp = payload["replay"]
    if "nd" in rp:
        import json
        for key in ("nd", "nd_b"):
            if key in rp:
                d = nd_run([rp[key]])[0]
                print(f"{key}   :", json.dumps(rp[key]))
                print("impl :", json.dumps({k: v for k, v in d.items() if k not in ("cons", "priv")}), f"{len(d['cons'])} constraints")
                print("lists:", json.dumps(nd_ref(rp[key])))
        if "transplant" in rp:
            t = rp["transplant"]; d = nd_run([rp["nd"]])[0]
            sat, complete = nd_sat_job(nd_transplant_job(rp["nd"], d, t["component"], t["value"]))
            print(f"search: component #{t['component']} fixed to {t['value']}: satisfiable={sat} complete={complete}")
        return 0
    if "history" in rp:
        import json
        out = common.run_workers([f"A2|r|{json.dumps(rp['history'])}"], script="worker_array2d.py")[0]
        print("impl :", out[:3000])
        try:
            line, names = a2enc.encode(rp["history"], "r")
            ml = common.lean_driver([line])[0]
            print("model:", ml[:3000])
            print("diff :", model_diff_2d(json.loads(out.split("|", 1)[1])["real"], ml, names))
        except a2enc.Unmodelled as e:
            print("model: history not expressible in the model's event language:", e)
        return 0
    replay_case(rp.get("case") or rp.get("case_a"))
    return 0
