"""C16 — bit decomposition and packing round-trip at the requested width."""
import json
import multiprocessing as mp
from .. import common, progcheck, solve
from ..framework import Exploration, Violation
from ..gen import progs
from ..propsbase import *
from . import c03

ASSUMPTIONS = ["bits: to_bits(n) -> from_bits -> val() on the real code for widths n independent of the global bitlength, values in and "
               "just outside [0, 2^n); the width actually enforced is determined by exhaustive witness search over p = 97 (as in C03)",
               "packers: random schemas built from PackBool, PackIntMod (powers of two and other moduli, incl. 1), PackList, PackRepeat; "
               "pack/unpack on plain values and on secret values; compared with the original value; out-of-range plain values must raise",
               "range check on unpack: unpack alone on caller-supplied RAW secret bits (PrivVal(0/1), the branch of PackIntMod.unpack that "
               "makes the check) for schemas of 1-3 fields, moduli that are / are not powers of two and moduli wider than the bitlength, field "
               "values mod-1, mod, mod+1, 0, 2^n-1, random: run-time accept/reject = (value < mod for every field); with error checking off the "
               "emitted system with the bit wires fixed is satisfiable iff that relation holds (exhaustive over p = 97; recorded witness on the "
               "large fields); model-compared (result, wire expression, constraints) through the K|..|U line of Driver/ProtoStruct.lean"]
ASSUMPTIONS += ["bit vectors that MIX secret bits with plain 0/1 constants: (i) programs `bits = x.to_bits(n)`, some positions replaced by "
                "the literals 0/1 (none, one, several, all; a constant 1 in the lowest / highest place), a secret bit used twice, the "
                "vector shortened or extended by constants, then LinComb.from_bits and val(): the recomposed value is the plain sum, its "
                "wire expression evaluates to it on the recorded witness (INCOH), every recorded constraint holds (UNSAT), and the whole "
                "program is model-compared at V+S; (ii) packer schemas whose leaves are plain or secret independently (mode `mixed`, the "
                "pattern LinComb.from_bits(schema.pack([plain, secret])) of examples/secretsanta.py): pack/unpack model-compared as in "
                "the other modes, and for EVERY mode from_bits of the packing is compared with the all-plain packing number, on the "
                "witness, followed by val()"]
PARTIAL = ["secret round trip: proved/validated at value level for bounded-integer leaves; PackBool on the boolean type is the identity "
           "(C16_pack_bool_lcb; was finding C16-pack-bool, repaired); PackIntMod.unpack performs no range check on the bits produced by pack (finding C16-unpack-unchecked)"]
LEVELS = "VS"
P97 = 97


def bits_case(rnd, cid, small):
    bl = rnd.choice([2, 3, 4, 5]) if small else rnd.choice([4, 8, 16, 32])
    n = rnd.choice([0, 1, 2, 3, bl - 1, bl, bl + 1, bl + 3, 2 * bl])
    v = rnd.choice([0, 1, (1 << n) - 1, 1 << n, (1 << n) + 1, (1 << n) // 2, -1, rnd.randrange(0, (1 << n) + 2)])
    cfg = {"p": P97 if small else common.BN128, "bl": bl, "res": 0, "ign": 0}
    ins = [progs.lit_int(v), "mk priv r0", progs.lit_int(n), "call to_bits r1 r2", "call from_bits r3"]
    ins.append("call val r4" if n > 0 else "lit n")
    return progs.Case(cid, cfg, ins, {"shape": "bits", "op": "to_bits", "kinds": "L", "abc": (v, n, 0), "width": n})


def bits_twice_case(rnd, cid):
    """two decompositions of the SAME object at different widths (state carried on the object must not leak)"""
    bl = rnd.choice([8, 16])
    n1 = rnd.choice([None, 6, 8, bl]); w1 = bl if n1 is None else n1
    n2 = rnd.randrange(1, w1 + 2)
    v = rnd.choice([(1 << n2) - 1, 1 << n2, (1 << n2) + 1, rnd.randrange(0, 1 << w1)])
    v = min(v, (1 << w1) - 1)
    cfg = {"p": common.BN128, "bl": bl, "res": 0, "ign": 0}
    ins = [progs.lit_int(v), "mk priv r0"]
    first = rnd.choice(["to_bits", "rshift", "and", "to_bits"])
    if first == "to_bits" and n1 is not None:
        ins += [progs.lit_int(n1), "call to_bits r1 r2"]
    elif first == "rshift":
        ins += [progs.lit_int(1), "bin rshift r1 r2"]; w1 = bl
    elif first == "and":
        ins += ["lit n", "bin and r1 r1"]; w1 = bl
    else:
        ins += ["lit n", "call to_bits r1"]; w1 = bl
    if v >= (1 << w1):
        v = (1 << w1) - 1; ins[0] = progs.lit_int(v)
    ins += [progs.lit_int(n2), "call to_bits r1 r4", "call from_bits r5", "call val r6"]
    return progs.Case(cid, cfg, ins, {"shape": "bits-twice", "op": first, "kinds": "L", "abc": (v, n2, 0), "width": n2})


MIX_SCENARIOS = ["one-const-1", "one-const-0", "high-const-1", "low-const-1", "several", "all-const", "none", "reuse-bit", "extend", "shorten"]


def mixed_bits_case(rnd, cid, k=None):
    """`bits = x.to_bits(n)`, positions overwritten by the plain constants 0/1, then from_bits and val()"""
    bl = rnd.choice([4, 8, 16, 32])
    n = rnd.choice([1, 2, 3, 4, bl - 1, bl, min(bl + 2, 12)])
    v = rnd.choice([0, 1, (1 << n) - 1, (1 << n) // 2, rnd.randrange(0, 1 << n), rnd.randrange(0, 1 << n)])
    sc = MIX_SCENARIOS[k % len(MIX_SCENARIOS)] if k is not None else rnd.choice(MIX_SCENARIOS)
    cfg = {"p": rnd.choice([common.BN128, common.BN128, common.BLS381]), "bl": bl, "res": 0, "ign": 0}
    ins = [progs.lit_int(v), "mk priv r0", progs.lit_int(n), "call to_bits r1 r2"]      # r3 = the n bits
    pos = list(range(n))
    if sc == "shorten" and n > 1: pos = pos[:rnd.randrange(1, n)]
    const = {}
    if sc == "one-const-1": const = {rnd.choice(pos): 1}
    elif sc == "one-const-0": const = {rnd.choice(pos): 0}
    elif sc == "high-const-1": const = {pos[-1]: 1}
    elif sc == "low-const-1": const = {pos[0]: 1}
    elif sc == "several": const = {i: rnd.choice([0, 1, 1]) for i in rnd.sample(pos, rnd.randrange(1, len(pos) + 1))}
    elif sc == "all-const": const = {i: rnd.choice([0, 1]) for i in pos}
    src = {i: i for i in pos}                       # which secret bit sits at place i
    if sc == "reuse-bit" and len(pos) > 1:
        a, b = rnd.sample(pos, 2); src[a] = b
    items = []; expect = 0
    for place, i in enumerate(pos):
        if i in const:
            ins.append(progs.lit_int(const[i])); bit = const[i]
        else:
            ins.append(f"idx r3 {src[i]}"); bit = (v >> src[i]) & 1
        items.append(f"r{len(ins) - 1}"); expect += bit << place
    if sc == "extend":
        for _ in range(rnd.randrange(1, 4)):
            b = rnd.choice([0, 1, 1]); ins.append(progs.lit_int(b)); items.append(f"r{len(ins) - 1}"); expect += b << (len(items) - 1)
    ins.append("list " + " ".join(items)); lreg = len(ins) - 1
    ins.append(f"call from_bits r{lreg}")
    allconst = all(i in const for i in pos)           # then from_bits returns a plain int: nothing to open
    ins.append("lit n" if allconst else f"call val r{lreg + 1}")
    return progs.Case(cid, cfg, ins, {"shape": "bits-mixed", "op": "from_bits", "kinds": "L", "abc": (v, n, 0), "width": n, "mix": sc,
                                      "expect": expect, "fb": lreg + 1, "nconst": len(const) + (len(items) - len(pos))})


def gen_schema(rnd, depth=0):
    c = rnd.random()
    if depth >= 2 or c < 0.45:
        if rnd.random() < 0.4:
            return ["B"]
        return ["M", rnd.choice([2, 4, 16, 256, 3, 10, 100, 1, 17, 1 << 20, 7, 15, 1000, 65537, 100000, 0x10FFFF, (1 << 20) + 7, (1 << 33) + 5])]   # incl. 2^k-1 and moduli wider than any global bitlength used
    if c < 0.8:
        return ["L", [gen_schema(rnd, depth + 1) for _ in range(rnd.randrange(1, 4))]]
    return ["R", gen_schema(rnd, depth + 1), rnd.randrange(1, 4)]


def gen_value(rnd, s, bad=False):
    if s[0] == "B": return rnd.choice([0, 1])
    if s[0] == "M":
        if bad: return rnd.choice([s[1], s[1] + 1, -1])
        return rnd.choice([0, s[1] - 1, min(1, s[1] - 1), rnd.randrange(0, s[1]), rnd.randrange(0, s[1])])
    if s[0] == "L": return [gen_value(rnd, x, bad and i == 0) for i, x in enumerate(s[1])]
    if s[0] == "R": return [gen_value(rnd, s[1], bad and i == 0) for i in range(s[2])]


def out_of_range(s, v):
    if s[0] == "B": return v not in (0, 1)
    if s[0] == "M": return not (0 <= v < s[1])
    if s[0] == "L": return any(out_of_range(x, y) for x, y in zip(s[1], v))
    return any(out_of_range(s[1], y) for y in v)


def schema_str(s):
    if s[0] == "B": return "B"
    if s[0] == "M": return f"M{s[1]}"
    if s[0] == "L": return "L(" + ",".join(schema_str(x) for x in s[1]) + ")"
    return f"R{s[2]}({schema_str(s[1])})"


def value_str(s, v, mode):
    if s[0] == "B":
        return f"i:{v}" if mode == "plain" else (f"B:{v}" if mode == "secret:bool" else f"L:{v}")
    if s[0] == "M":
        return f"i:{v}" if mode == "plain" else f"L:{v}"
    if s[0] == "L":
        return "[" + ",".join(value_str(x, y, mode) for x, y in zip(s[1], v)) + "]"
    return "[" + ",".join(value_str(s[1], y, mode) for y in v) + "]"


def leaves_of(s, v):
    if s[0] in ("B", "M"): return [(s, v)]
    if s[0] == "L": return [l for x, y in zip(s[1], v) for l in leaves_of(x, y)]
    return [l for y in v for l in leaves_of(s[1], y)]


def value_str_mixed(s, v, mask):
    """model value string with plain / secret chosen per leaf (`mask`: iterator over 0 = plain, 1 = secret integer)"""
    if s[0] in ("B", "M"):
        return f"L:{v}" if next(mask) else f"i:{v}"
    if s[0] == "L":
        return "[" + ",".join(value_str_mixed(x, y, mask) for x, y in zip(s[1], v)) + "]"
    return "[" + ",".join(value_str_mixed(s[1], y, mask) for y in v) + "]"


def plain_of_valstr(t):
    """model register string -> nested plain ints"""
    from .. import ref
    def conv(x):
        if x[0] in ("list", "tuple"): return [conv(y[0]) for y in x[1]]
        return x[1]
    return conv(ref.parse_val(t)[0])


def has(s, tag):
    return tag in json.dumps(s)


def bitlen(s):
    if s[0] == "B": return 1
    if s[0] == "M": return (s[1] - 1).bit_length()
    if s[0] == "L": return sum(bitlen(x) for x in s[1])
    return bitlen(s[1]) * s[2]


def explore(ctx, extended=False, focus=None):
    ex = Exploration()
    ex.rule = ("(a) bit round trips at widths {0,1,2,3,bl-1,bl,bl+1,bl+3,2bl} with values 0, 1, 2^n-1, 2^n, 2^n+1, -1, random, "
               "model-compared at V+S; (b) width enforcement by exhaustive witness search over p=97 (to_bits(n), assert_positive(n)); "
               "(c) packer schemas of depth <= 3 on plain values, plain out-of-range values, secret values (integers as PrivVal; "
               "booleans as PrivVal and as PrivValBool); (d) unpack alone on raw secret bits at and around each modulus (see assumptions); "
               "distinct = distinct (schema, value, mode) / (width, value, bitlength)")
    n = ctx.n(750, 18000) * (2 if extended else 1)
    cases = corpus_cases("C16") + [bits_case(ctx.rnd, f"c16_{i}", small=False) for i in range(n)]
    mixed = [mixed_bits_case(ctx.rnd, f"c16m_{i}", i if i < 3 * len(MIX_SCENARIOS) else None) for i in range(max(60, n // 3))]
    for r in execute_all(mixed):
        account(ex, r); correspond(ex, r, LEVELS)
        m = r.case.meta
        ex.count("bits-mixed:" + m["mix"])
        ex.distinct.add(("bits-mixed", m["mix"], m["width"], m["abc"][0], m["expect"], r.case.cfg["bl"]))
        sig = {"op": "from_bits", "history": "secret-bits-mixed-with-plain-constants", "mix": m["mix"]}
        rp = {"case": r.case.line(), "expected_value": m["expect"]}
        if not r.ok:
            ex.violations.append(Violation(dict(sig, dev="raises", error=r.errcls),
                                           f"from_bits of {m['width']} bits of {m['abc'][0]} with {m['nconst']} plain constant(s) ({m['mix']}): "
                                           f"{r.errcls} at instruction {r.errpos}", rp))
            continue
        fb = r.regs[m["fb"]]
        got = fb.split(":")[1] if fb[:2] in ("L:", "I:") else None
        if got != str(m["expect"]):
            ex.violations.append(Violation(dict(sig, dev="round-trip"),
                                           f"from_bits of secret bits mixed with plain constants ({m['mix']}) gives {fb[:60]}, the bits spell {m['expect']}", rp))
        if r.incoh:
            i = r.incoh[0]
            ex.violations.append(Violation(dict(sig, dev="recomposed-wire-expression-off-the-witness"),
                                           f"from_bits of secret bits mixed with plain constants ({m['mix']}, {m['nconst']} constant(s)): register r{i} = "
                                           f"{r.regs[i][:80]} has value {m['expect'] if i == m['fb'] else '?'} but its wire expression evaluates to "
                                           f"something else on the recorded witness", rp))
        if r.unsat:
            ex.violations.append(Violation(dict(sig, dev="unsatisfied"),
                                           f"after from_bits of a mixed bit vector ({m['mix']}) and val(), recorded constraint #{r.unsat[0]} does not "
                                           f"hold on the recorded witness", rp))
    twice = [bits_twice_case(ctx.rnd, f"c16t_{i}") for i in range(n // 2)]
    for r in execute_all(twice):
        account(ex, r); correspond(ex, r, LEVELS)
        v, w, _ = r.case.meta["abc"]
        ex.distinct.add(("bits-twice", r.case.meta["op"], w, v, r.case.cfg["bl"]))
        inside = 0 <= v < (1 << w)
        second = 5
        if r.ok and not inside:
            ex.violations.append(Violation({"op": "to_bits", "dev": "accepts-value-out-of-range", "history": "second-decomposition"},
                                           f"after a first decomposition, to_bits({w}) accepts {v}", {"case": r.case.line()}))
        if inside and not r.ok and r.errpos == second:
            ex.violations.append(Violation({"op": "to_bits", "dev": "rejects-value-in-range", "history": "second-decomposition"},
                                           f"after a first decomposition, to_bits({w}) of {v} raises {r.errcls}", {"case": r.case.line()}))
        if inside and r.ok and (r.regs[5].count("B:") != w or r.regs[7] != f"I:{v}"):
            ex.violations.append(Violation({"op": "to_bits", "dev": "round-trip", "history": "second-decomposition"},
                                           f"second decomposition at width {w} of {v}: {r.regs[5].count('B:')} bits, recomposed {r.regs[7]}", {"case": r.case.line()}))
        if inside and r.ok and r.nc[5][0] - r.nc[4][0] != w + 1:
            ex.violations.append(Violation({"op": "to_bits", "dev": "constraints-missing", "history": "second-decomposition"},
                                           f"second decomposition at width {w} emitted {r.nc[5][0] - r.nc[4][0]} constraints, expected {w + 1}", {"case": r.case.line()}))
    for r in execute_all(cases):
        account(ex, r); correspond(ex, r, LEVELS)
        v, w, _ = r.case.meta.get("abc", (0, 0, 0))
        ex.distinct.add(("bits", w, v, r.case.cfg["bl"]))
        inside = 0 <= v < (1 << w)
        if inside and not r.ok:
            ex.violations.append(Violation({"op": "to_bits", "dev": "rejects-value-in-range"},
                                           f"to_bits({w}) of {v} at bitlength {r.case.cfg['bl']} raises {r.errcls}", {"case": r.case.line()}))
        if not inside and r.ok:
            ex.violations.append(Violation({"op": "to_bits", "dev": "accepts-value-out-of-range"},
                                           f"to_bits({w}) accepts {v}", {"case": r.case.line()}))
        if inside and r.ok:
            if r.regs[3].count("B:") != w:
                ex.violations.append(Violation({"op": "to_bits", "dev": "wrong-number-of-bits"},
                                               f"to_bits({w}) returned {r.regs[3].count('B:')} bits", {"case": r.case.line()}))
            back = r.regs[5] if w > 0 else "I:0"
            if back != f"I:{v}" and not (w == 0 and v == 0):
                ex.violations.append(Violation({"op": "to_bits", "dev": "round-trip"},
                                               f"from_bits(to_bits({w})) of {v} gives {back}", {"case": r.case.line()}))
    # (b) width actually enforced: C03's machinery restricted to the two width-taking calls
    saved = c03.KINDS
    try:
        c03.KINDS = ["assert_positive_w", "to_bits_w"]
        sub = c03.explore(ctx, extended=extended)
    finally:
        c03.KINDS = saved
    ex.evaluations += sub.evaluations; ex.distinct |= sub.distinct; ex.violations += sub.violations
    ex.disagreements += sub.disagreements; ex.traces_validated += sub.traces_validated
    for k, v in sub.hist.items(): ex.hist[k] = ex.hist.get(k, 0) + v
    # (c) packers
    jobs = []
    for i in range(ctx.n(900, 18000)):
        s = gen_schema(ctx.rnd)
        mode = ctx.rnd.choice(["plain", "plain", "plain-bad", "secret:int", "secret:int", "secret:bool", "mixed", "mixed"])
        bad = mode == "plain-bad" and has(s, '"M"')
        val = gen_value(ctx.rnd, s, bad)
        jobs.append({"schema": s, "value": val, "mode": "plain" if mode.startswith("plain") else mode, "bad": out_of_range(s, val)})
        if mode == "mixed":
            # every leaf plain or secret on its own; at least one of each when there are two leaves
            nl = len(leaves_of(s, val))
            mask = [ctx.rnd.choice([0, 1]) for _ in range(nl)]
            if nl >= 2 and len(set(mask)) == 1: mask[ctx.rnd.randrange(nl)] ^= 1
            jobs[-1]["mask"] = mask
    bls = [ctx.rnd.choice([8, 16, 32]) for _ in jobs]
    outs = common.run_workers([f"K|k{i}|{bl}|{json.dumps(j)}" for i, (j, bl) in enumerate(zip(jobs, bls))], script="worker_pack.py")
    mlines = common.lean_driver([f"K|k{i}|{bl}|{schema_str(j['schema'])}|" +
                                 (value_str_mixed(j['schema'], j['value'], iter(j['mask'])) if j['mode'] == 'mixed' else value_str(j['schema'], j['value'], j['mode']))
                                 for i, (j, bl) in enumerate(zip(jobs, bls))])
    for j, o, m in zip(jobs, outs, mlines):
        # model correspondence: status class, bit length, bit values, unpacked values, number of constraints
        dd = json.loads(o.split("|", 1)[1]) if "harness-error" not in o else {}
        mf = m.split("|")
        if dd:
            if "UNMODELLED" in m:
                ex.unmodelled += 1
            else:
                impl_status = "ok" if dd.get("pack") == "ok" and dd.get("unpack") == "ok" else "err:" + (dd.get("pack") if dd.get("pack") != "ok" else dd.get("unpack"))
                agree = mf[1] == impl_status and int(mf[2]) == dd["bitlen"]
                if agree and mf[1] == "ok":
                    try:
                        agree = plain_of_valstr(mf[3]) == dd["bits"] and plain_of_valstr(mf[4]) == dd["back"] and int(mf[5].split("=")[1]) == dd["ncons"]
                    except Exception:
                        agree = False
                if not agree:
                    ex.disagreements.append({"job": j, "impl": {k: dd.get(k) for k in ("pack", "unpack", "bitlen", "bits", "back", "ncons")}, "model": m[:300]})
                else:
                    ex.traces_validated += 1
        ex.evaluations += 1
        d = json.loads(o.split("|", 1)[1])
        if "harness-error" in d:
            raise common.Infra(str(d))
        ex.distinct.add(("pack", json.dumps(j["schema"]), json.dumps(j["value"]), j["mode"]))
        ex.count(f"pack-mode:{j['mode']}{'-bad' if j['bad'] else ''}"); ex.count(f"pack:{d['pack']}")
        s = j["schema"]; sig = {"op": "pack", "mode": j["mode"], "has_bool": has(s, '"B"'), "mod1": '["M", 1]' in json.dumps(s)}
        rep = {"job": j, "observed": d}
        if d["bitlen"] != bitlen(s):
            ex.violations.append(Violation(dict(sig, dev="bitlen"), f"bitlen() = {d['bitlen']}, schema needs {bitlen(s)} bits", rep))
        if j["bad"]:
            if d["pack"] == "ok":
                ex.violations.append(Violation(dict(sig, dev="accepts-out-of-range"), f"pack accepts the out-of-range plain value {j['value']}", rep))
            continue
        if d["pack"] != "ok":
            ex.violations.append(Violation(dict(sig, dev="pack-raises", error=d["pack"]), f"pack raises {d['pack']} on a well-typed {j['mode']} value", rep))
            continue
        if d["nbits"] != d["bitlen"]:
            ex.violations.append(Violation(dict(sig, dev="length"), f"pack returned {d['nbits']} bits, bitlen() says {d['bitlen']}", rep))
        if d["unpack"] != "ok":
            ex.violations.append(Violation(dict(sig, dev="unpack-raises", error=d["unpack"]), f"unpack(pack(x)) raises {d['unpack']}", rep))
        elif d["back"] != j["value"]:
            ex.violations.append(Violation(dict(sig, dev="round-trip"), f"unpack(pack({j['value']})) = {d['back']}", rep))
        if d.get("unsat"):
            ex.violations.append(Violation(dict(sig, dev="unsatisfied"), "a constraint emitted while packing is not satisfied", rep))
        # from_bits of the packing (examples/secretsanta.py: LinComb.from_bits(schema.pack([...]))) = the all-plain packing number
        fb = d.get("fb")
        if fb is not None:
            want = sum(b << i for i, b in enumerate(d["bits"]))
            mixk = "all-plain" if not fb.get("nsecret") else "all-secret" if fb["nsecret"] == d["nbits"] else "secret-and-plain-bits"
            ex.count("from-bits-of-packing:" + mixk)
            fsig = dict(sig, op="from_bits-of-packing", bits=mixk)
            if "error" in fb:
                ex.violations.append(Violation(dict(fsig, dev="raises", error=fb["error"]), f"from_bits(pack(x)) raises {fb['error']} ({mixk})", rep))
            else:
                if fb["value"] != want:
                    ex.violations.append(Violation(dict(fsig, dev="round-trip"), f"from_bits(pack(x)) = {fb['value']}, the packed bits spell {want} ({mixk})", rep))
                if not fb["coherent"]:
                    ex.violations.append(Violation(dict(fsig, dev="recomposed-wire-expression-off-the-witness"),
                                                   f"from_bits(pack(x)) with {fb['nsecret']} secret and {d['nbits'] - fb['nsecret']} plain bits ({sum(d['bits'][i] for i in fb['plain_at'])} "
                                                   f"of them 1): value {fb['value']}, but its wire expression evaluates to {fb['lc_on_witness']} on the recorded witness", rep))
                if fb.get("unsat_after_val"):
                    ex.violations.append(Violation(dict(fsig, dev="unsatisfied"),
                                                   f"from_bits(pack(x)).val() ({mixk}): recorded constraint #{fb['unsat_after_val'][0]} does not hold on the witness", rep))
        if len(ex.samples) < 5:
            ex.samples.append(j)
    return ex


def replay(ctx, payload):
    r = payload["replay"]
    if "history" in r or r.get("job", {}).get("mode") == "unpack-raw":
        return c03.replay(ctx, payload)
    if "case" in r:
        replay_case(r["case"])
    else:
        print(common.run_workers([f"K|r|16|{json.dumps(r['job'])}"], script="worker_pack.py")[0])
    return 0
