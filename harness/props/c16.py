"""C16 — bit decomposition and packing round-trip at the requested width."""
import json
import multiprocessing as mp
from .. import common, progcheck, solve
from ..framework import Exploration, Violation
from ..gen import progs
from ..propsbase import *
from . import c03

ASSUMPTIONS = ["bits: to_bits(n) -> from_bits -> val() on the real code for widths n independent of the global bitlength, values in and "
               "just outside [0, 2^n); the width actually enforced is determined by exhaustive witness search over p = 97 (as in C03)",
               "packers: random schemas built from PackBool, PackIntMod (powers of two and other moduli, incl. 1), PackList, PackRepeat; "
               "pack/unpack on plain values and on secret values; compared with the original value; out-of-range plain values must raise"]
PARTIAL = ["secret round trip: proved/validated at value level for bounded-integer leaves; PackBool on the boolean type raises "
           "(finding C16-pack-bool); PackIntMod.unpack performs no range check on the bits produced by pack (finding C16-unpack-unchecked)"]
LEVELS = "VS"
P97 = 97


def bits_case(rnd, cid, small):
    bl = rnd.choice([2, 3, 4, 5]) if small else rnd.choice([4, 8, 16, 32])
    n = rnd.choice([0, 1, 2, 3, bl - 1, bl, bl + 1, bl + 3, 2 * bl])
    v = rnd.choice([0, 1, (1 << n) - 1, 1 << n, (1 << n) + 1, (1 << n) // 2, -1, rnd.randrange(0, (1 << n) + 2)])
    cfg = {"p": P97 if small else common.BN128, "bl": bl, "res": 0, "ign": 0}
    ins = [progs.lit_int(v), "mk priv r0", progs.lit_int(n), "call to_bits r1 r2", "call from_bits r3"]
    ins.append("call val r4" if n > 0 else "lit n")
    return progs.Case(cid, cfg, ins, {"shape": "bits", "op": "to_bits", "kinds": "L", "abc": (v, n, 0), "width": n})


def gen_schema(rnd, depth=0):
    c = rnd.random()
    if depth >= 2 or c < 0.45:
        if rnd.random() < 0.4:
            return ["B"]
        return ["M", rnd.choice([2, 4, 16, 256, 3, 10, 100, 1, 17, 1 << 20])]
    if c < 0.8:
        return ["L", [gen_schema(rnd, depth + 1) for _ in range(rnd.randrange(1, 4))]]
    return ["R", gen_schema(rnd, depth + 1), rnd.randrange(1, 4)]


def gen_value(rnd, s, bad=False):
    if s[0] == "B": return rnd.choice([0, 1])
    if s[0] == "M":
        if bad: return rnd.choice([s[1], s[1] + 1, -1])
        return rnd.randrange(0, s[1])
    if s[0] == "L": return [gen_value(rnd, x, bad and i == 0) for i, x in enumerate(s[1])]
    if s[0] == "R": return [gen_value(rnd, s[1], bad and i == 0) for i in range(s[2])]


def out_of_range(s, v):
    if s[0] == "B": return v not in (0, 1)
    if s[0] == "M": return not (0 <= v < s[1])
    if s[0] == "L": return any(out_of_range(x, y) for x, y in zip(s[1], v))
    return any(out_of_range(s[1], y) for y in v)


def has(s, tag):
    return tag in json.dumps(s)


def bitlen(s):
    if s[0] == "B": return 1
    if s[0] == "M": return (s[1] - 1).bit_length()
    if s[0] == "L": return sum(bitlen(x) for x in s[1])
    return bitlen(s[1]) * s[2]


def explore(ctx, extended=False, focus=None):
    ex = Exploration()
    ex.rule = ("(a) bit round trips at widths {0,1,2,3,bl-1,bl,bl+1,bl+3,2bl} with values 0, 1, 2^n-1, 2^n, 2^n+1, -1, random, "
               "model-compared at V+S; (b) width enforcement by exhaustive witness search over p=97 (to_bits(n), assert_positive(n)); "
               "(c) packer schemas of depth <= 3 on plain values, plain out-of-range values, secret values (integers as PrivVal; "
               "booleans as PrivVal and as PrivValBool); distinct = distinct (schema, value, mode) / (width, value, bitlength)")
    n = ctx.n(250, 6000) * (2 if extended else 1)
    cases = corpus_cases("C16") + [bits_case(ctx.rnd, f"c16_{i}", small=False) for i in range(n)]
    for r in execute_all(cases):
        account(ex, r); correspond(ex, r, LEVELS)
        v, w, _ = r.case.meta.get("abc", (0, 0, 0))
        ex.distinct.add(("bits", w, v, r.case.cfg["bl"]))
        inside = 0 <= v < (1 << w)
        if inside and not r.ok:
            ex.violations.append(Violation({"op": "to_bits", "dev": "rejects-value-in-range"},
                                           f"to_bits({w}) of {v} at bitlength {r.case.cfg['bl']} raises {r.errcls}", {"case": r.case.line()}))
        if not inside and r.ok:
            ex.violations.append(Violation({"op": "to_bits", "dev": "accepts-value-out-of-range"},
                                           f"to_bits({w}) accepts {v}", {"case": r.case.line()}))
        if inside and r.ok:
            if r.regs[3].count("B:") != w:
                ex.violations.append(Violation({"op": "to_bits", "dev": "wrong-number-of-bits"},
                                               f"to_bits({w}) returned {r.regs[3].count('B:')} bits", {"case": r.case.line()}))
            back = r.regs[5] if w > 0 else "I:0"
            if back != f"I:{v}" and not (w == 0 and v == 0):
                ex.violations.append(Violation({"op": "to_bits", "dev": "round-trip"},
                                               f"from_bits(to_bits({w})) of {v} gives {back}", {"case": r.case.line()}))
    # (b) width actually enforced: C03's machinery restricted to the two width-taking calls
    saved = c03.KINDS
    try:
        c03.KINDS = ["assert_positive_w", "to_bits_w"]
        sub = c03.explore(ctx, extended=extended)
    finally:
        c03.KINDS = saved
    ex.evaluations += sub.evaluations; ex.distinct |= sub.distinct; ex.violations += sub.violations
    ex.disagreements += sub.disagreements; ex.traces_validated += sub.traces_validated
    for k, v in sub.hist.items(): ex.hist[k] = ex.hist.get(k, 0) + v
    # (c) packers
    jobs = []
    for i in range(ctx.n(300, 6000)):
        s = gen_schema(ctx.rnd)
        mode = ctx.rnd.choice(["plain", "plain", "plain-bad", "secret:int", "secret:int", "secret:bool"])
        bad = mode == "plain-bad" and has(s, '"M"')
        val = gen_value(ctx.rnd, s, bad)
        jobs.append({"schema": s, "value": val, "mode": "plain" if mode.startswith("plain") else mode, "bad": out_of_range(s, val)})
    outs = common.run_workers([f"K|k{i}|{ctx.rnd.choice([8, 16, 32])}|{json.dumps(j)}" for i, j in enumerate(jobs)], script="worker_pack.py")
    for j, o in zip(jobs, outs):
        ex.evaluations += 1
        d = json.loads(o.split("|", 1)[1])
        if "harness-error" in d:
            raise common.Infra(str(d))
        ex.distinct.add(("pack", json.dumps(j["schema"]), json.dumps(j["value"]), j["mode"]))
        ex.count(f"pack-mode:{j['mode']}{'-bad' if j['bad'] else ''}"); ex.count(f"pack:{d['pack']}")
        s = j["schema"]; sig = {"op": "pack", "mode": j["mode"], "has_bool": has(s, '"B"'), "mod1": '["M", 1]' in json.dumps(s)}
        rep = {"job": j, "observed": d}
        if d["bitlen"] != bitlen(s):
            ex.violations.append(Violation(dict(sig, dev="bitlen"), f"bitlen() = {d['bitlen']}, schema needs {bitlen(s)} bits", rep))
        if j["bad"]:
            if d["pack"] == "ok":
                ex.violations.append(Violation(dict(sig, dev="accepts-out-of-range"), f"pack accepts the out-of-range plain value {j['value']}", rep))
            continue
        if d["pack"] != "ok":
            ex.violations.append(Violation(dict(sig, dev="pack-raises", error=d["pack"]), f"pack raises {d['pack']} on a well-typed {j['mode']} value", rep))
            continue
        if d["nbits"] != d["bitlen"]:
            ex.violations.append(Violation(dict(sig, dev="length"), f"pack returned {d['nbits']} bits, bitlen() says {d['bitlen']}", rep))
        if d["unpack"] != "ok":
            ex.violations.append(Violation(dict(sig, dev="unpack-raises", error=d["unpack"]), f"unpack(pack(x)) raises {d['unpack']}", rep))
        elif d["back"] != j["value"]:
            ex.violations.append(Violation(dict(sig, dev="round-trip"), f"unpack(pack({j['value']})) = {d['back']}", rep))
        if d.get("unsat"):
            ex.violations.append(Violation(dict(sig, dev="unsatisfied"), "a constraint emitted while packing is not satisfied", rep))
        if len(ex.samples) < 5:
            ex.samples.append(j)
    return ex


def replay(ctx, payload):
    r = payload["replay"]
    if "case" in r:
        replay_case(r["case"])
    else:
        print(common.run_workers([f"K|r|16|{json.dumps(r['job'])}"], script="worker_pack.py")[0])
    return 0
