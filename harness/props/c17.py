"""C17 — a @snark function exposes exactly its arguments and results as public values."""
import json
from fractions import Fraction
from .. import common
from ..framework import Exploration, Violation

ASSUMPTIONS = ["function bodies come from a fixed library working on the numeric leaves of any nested argument structure (products, "
               "sums, element-wise maps, mixed tuples/lists/dicts of integer, boolean and fixed-point results, the same object returned "
               "in several slots, plain returns, pass-through); arguments are random nestings of ints and dyadic floats in lists, "
               "tuples and dicts; 1-3 wrapped calls per run on the real decorator, incl. calls refused for keyword arguments",
               "Python bool arguments are not generated (they are ints to the decorator)"]
PARTIAL = ["C17_inputs_single_kind: argument order is preserved when all numeric leaves are of one kind; with mixed int/float leaves the "
           "public inputs are grouped by type (finding C17-type-grouping); likewise for results of mixed kinds"]
TEMPLATES = ["square", "sum", "each", "mixed", "twice", "fx", "fxmix", "plain", "passthrough"]


def gen_arg(rnd, depth, kinds):
    c = rnd.random()
    if depth >= 2 or c < 0.55:
        if "f" in kinds and rnd.random() < 0.4:
            return ["f", rnd.randrange(-40, 41), rnd.choice([0, 1, 2])]
        return ["i", rnd.randrange(-9, 10)]
    if c < 0.75: return ["l", [gen_arg(rnd, depth + 1, kinds) for _ in range(rnd.randrange(0, 4))]]
    if c < 0.9: return ["t", [gen_arg(rnd, depth + 1, kinds) for _ in range(rnd.randrange(1, 3))]]
    return ["d", {k: gen_arg(rnd, depth + 1, kinds) for k in rnd.sample(["a", "b", "c"], rnd.randrange(1, 3))}]


def flat(a):
    if a[0] in ("i", "f"): yield a
    elif a[0] in ("l", "t"):
        for x in a[1]: yield from flat(x)
    elif a[0] == "d":
        for k in a[1]: yield from flat(a[1][k])


def ret_leaves(r):
    if r[0] in ("i", "q", "?"): yield r
    elif r[0] in ("l", "t"):
        for x in r[1]: yield from ret_leaves(x)
    elif r[0] == "d":
        for k in r[1]: yield from ret_leaves(r[1][k])


def same_shape_value(a, b):
    """returned plain structure vs what the undecorated function returns (bools as 0/1)"""
    if a[0] != b[0] and not ({a[0], b[0]} <= {"i", "q"}): return False
    if a[0] in ("l", "t"):
        return len(a[1]) == len(b[1]) and all(same_shape_value(x, y) for x, y in zip(a[1], b[1]))
    if a[0] == "d":
        return list(a[1]) == list(b[1]) and all(same_shape_value(a[1][k], b[1][k]) for k in a[1])
    va = Fraction(a[1], a[2]) if a[0] == "q" else a[1]
    vb = Fraction(b[1], b[2]) if b[0] == "q" else b[1]
    return va == vb


def gen_struct(rnd, depth, leaves):
    c = rnd.random()
    if depth >= 2 or c < 0.55:
        k = rnd.choice(leaves)
        if k == "i": return f"i:{rnd.randrange(-9, 10)}"
        if k == "f": return f"f:{rnd.randrange(-40, 41)}:{rnd.choice([0, 1, 2])}"
        if k == "L": return f"L:{rnd.randrange(-9, 10)}"
        if k == "B": return f"B:{rnd.choice([0, 1])}"
        return f"X:{rnd.randrange(-40, 41)}:{rnd.choice([0, 1, 2])}"
    items = [gen_struct(rnd, depth + 1, leaves) for _ in range(rnd.randrange(0 if depth else 1, 4))]
    if rnd.random() < 0.6:
        return "[" + ",".join(items) + "]"
    return "(" + ",".join(items) + ("," if False else "") + ")"


def conversions(ctx, ex):
    """model correspondence of the two conversions of the decorator"""
    lines = []
    for i in range(ctx.n(600, 12000)):
        res = ctx.rnd.choice([8, 8, 4, 0])
        if i % 2 == 0:
            items = [gen_struct(ctx.rnd, 1, ["i", "i", "f"]) for _ in range(ctx.rnd.randrange(1, 4))]
            lines.append(f"NI|ni{i}|{res}|(" + ",".join(items) + ")")
        else:
            lines.append(f"NO|no{i}|{res}|" + gen_struct(ctx.rnd, 0, ["L", "L", "X", "B", "i"]))
    py = common.run_workers(lines, script="worker_snark.py")
    ml = common.lean_driver(lines)
    for l, a, b in zip(lines, py, ml):
        ex.evaluations += 1
        ex.distinct.add(("conv", l.split("|", 2)[2]))
        ex.count("conv:" + l.split("|")[0])
        if a != b:
            ex.disagreements.append({"line": l, "impl": a[:300], "model": b[:300]})
        else:
            ex.traces_validated += 1


def explore(ctx, extended=False, focus=None):
    ex = Exploration()
    ex.rule = ("runs of 1-3 wrapped calls (see assumptions); per call: public values added = argument leaves then result leaves; every "
               "result leaf tied to a fresh public wire by a 0*0 = r - o constraint; returned plain structure = undecorated function on "
               "the plain arguments; keyword arguments refused without side effects; distinct = distinct (template, argument structure)")
    conversions(ctx, ex)
    n = ctx.n(1200, 24000) * (2 if extended else 1)
    runs = []
    for i in range(n):
        calls = []
        for _ in range(ctx.rnd.randrange(1, 4)):
            t = ctx.rnd.choice(TEMPLATES)
            kinds = "if" if t in ("fx", "fxmix", "passthrough") and ctx.rnd.random() < 0.8 else "i"
            args = [gen_arg(ctx.rnd, 0, kinds) for _ in range(ctx.rnd.randrange(1, 4))]
            calls.append({"template": t, "args": args, "kwargs": ctx.rnd.random() < 0.08})
        runs.append({"res": ctx.rnd.choice([8, 8, 4]), "calls": calls})
    outs = common.run_workers([f"N|n{i}|{json.dumps(r)}" for i, r in enumerate(runs)], script="worker_snark.py")
    for run, o in zip(runs, outs):
        ex.evaluations += 1
        d = json.loads(o.split("|", 1)[1])
        if "harness-error" in d:
            raise common.Infra(str(d))
        res = run["res"]
        for c, rec in zip(run["calls"], d["calls"]):
            leaves = list(flat(["t", c["args"]]))
            kinds = {x[0] for x in leaves}
            ex.distinct.add((c["template"], json.dumps(c["args"])))
            ex.count(f"template:{c['template']}"); ex.count("argkinds:" + "".join(sorted(kinds)))
            sig = {"template": c["template"], "argkinds": "".join(sorted(kinds)), "kwargs": bool(c["kwargs"])}
            rep = {"run": run, "call": c, "observed": rec}
            if c["kwargs"]:
                if rec["status"] != "ValueError":
                    ex.violations.append(Violation(dict(sig, dev="kwargs-accepted"), f"keyword arguments: {rec['status']}", rep))
                if rec["pubs"] or rec["npriv"]:
                    ex.violations.append(Violation(dict(sig, dev="refused-call-leaks"),
                                                   f"a call refused for keyword arguments still published {rec['pubs']}", rep))
                continue
            if rec["status"] != "ok":
                if rec["plain"][0] != "!":
                    ex.violations.append(Violation(dict(sig, dev="raises", error=rec["status"]), f"wrapped call raises {rec['status']}", rep))
                continue
            ex.traces_validated += 1
            want_in = [x[1] if x[0] == "i" else int(Fraction(x[1], 2 ** x[2]) * (1 << res)) for x in leaves]
            rl = list(ret_leaves(rec["ret"]))
            if rec["plain"][0] == "!":
                continue
            pl = list(ret_leaves(rec["plain"]))
            nsecret_out = len(rec["pubs"]) - len(want_in)
            got_in = rec["pubs"][:len(want_in)]
            if sorted(got_in) != sorted(want_in) or nsecret_out < 0:
                ex.violations.append(Violation(dict(sig, dev="inputs-wrong"), f"public inputs {got_in}, argument leaves {want_in}", rep))
            elif got_in != want_in:
                ex.violations.append(Violation(dict(sig, dev="inputs-order"),
                                               f"public inputs {got_in} are not in argument order {want_in}", rep))
            # outputs: one public wire per secret result leaf (kinds from a probe run of the body on secret arguments)
            rk = rec.get("retkinds")
            if rk is None:
                continue
            expected_secret = len([k for k in rk if k != "-"])
            sig["retkinds"] = "".join(sorted(set(k for k in rk if k != "-")))
            if nsecret_out >= 0 and nsecret_out != expected_secret:
                ex.violations.append(Violation(dict(sig, dev="outputs-count"),
                                               f"{nsecret_out} public outputs for {expected_secret} secret result leaves", rep))
            elif nsecret_out >= 0:
                # values: each secret result leaf appears among the outputs; in result order when all are of one kind
                vals = [pl[i] for i, k in enumerate(rk) if k != "-"] if len(pl) == len(rk) else None
                if vals is not None:
                    want_out = [(v[1] if v[0] == "i" else int(Fraction(v[1], v[2]) * (1 << res))) for v in vals]
                    got_out = rec["pubs"][len(want_in):]
                    if sorted(got_out) != sorted(want_out):
                        ex.violations.append(Violation(dict(sig, dev="outputs-wrong"), f"public outputs {got_out}, secret results {want_out}", rep))
                    elif got_out != want_out:
                        ex.violations.append(Violation(dict(sig, dev="outputs-order"),
                                                       f"public outputs {got_out} are not in result order {want_out}", rep))
            outs_idx = list(range(len(want_in), len(rec["pubs"])))
            if sorted(rec["links"]) != outs_idx:
                ex.violations.append(Violation(dict(sig, dev="outputs-not-tied"),
                                               f"public outputs at positions {outs_idx}, linking constraints for {sorted(rec['links'])}", rep))
            if not same_shape_value(rec["ret"], rec["plain"]):
                ex.violations.append(Violation(dict(sig, dev="return-differs"),
                                               f"returned {json.dumps(rec['ret'])[:100]}, undecorated function gives {json.dumps(rec['plain'])[:100]}", rep))
            if rec["unsat"]:
                ex.violations.append(Violation(dict(sig, dev="unsatisfied"), "a constraint of the wrapped call is not satisfied", rep))
        if len(ex.samples) < 4:
            ex.samples.append(run)
    return ex


def replay(ctx, payload):
    print(common.run_workers([f"N|r|{json.dumps(payload['replay']['run'])}"], script="worker_snark.py")[0][:3000])
    return 0
