"""C17 — a @snark function exposes exactly its arguments and results as public values."""
import json, re
from fractions import Fraction
from .. import common
from ..framework import Exploration, Violation

ASSUMPTIONS = ["function bodies come from a fixed library working on the numeric leaves of any nested argument structure (products, "
               "sums, element-wise maps, mixed tuples/lists/dicts of integer, boolean and fixed-point results, the same object returned "
               "in several slots, the same list/tuple CONTAINER returned in several slots, the (converted) argument structure itself, "
               "plain returns, pass-through); arguments are random nestings of ints and dyadic floats in lists, "
               "tuples and dicts; 1-3 wrapped calls per run on the real decorator, incl. calls refused for keyword arguments",
               "shared sub-containers: in about a third of the calls a position of the argument structure may hold a reference to a "
               "container built earlier in the same structure (the SAME Python object: f(v, v), [row, row], a dict reached twice); the "
               "expected public vector is the full flattening with repetition. The model has no object identity: in NI/NO lines `@k` "
               "is the same value again (for results: the same wires revealed again), which is what the unchanged code does",
               "guarded calls: about a third of the calls are made inside guarded(c1) or guarded(c1)(guarded(c2)) of pysnark.runtime with "
               "ci = PrivVal(g) or PrivValBool(g), g in {0,1}; the publics count/positions, the linking constraints and the "
               "satisfaction of every recorded constraint are checked for every g; the returned plain values are compared with the "
               "undecorated function only when all guards are 1 (under a guard of value 0 the body computes dummies by design; the "
               "public outputs are then compared with the values the call returned). Half of the guarded runs are executed a second "
               "time with other guard values and the per-call public layout of the two runs must be identical. NI/NO lines with a "
               "guard prefix tie snarkIn/snarkOut inside guarded regions to the model (whole tracer state compared); theorem "
               "C17_outputs_guarded / C17_outputs_any_guard. Calls in oblivious _if/_while/_for branches are not generated "
               "(they set the same runtime.guard)",
               "objects owned by the caller: about a quarter of the runs hold a POOL of 1-2 lists/dicts built once and handed (at top "
               "level or nested) to two or more calls of the run; around every call the worker describes the argument objects before "
               "and after, and the object the body returned before and after the wrapper converted it: both must be unchanged "
               "(`arguments-mutated`, `result-object-mutated`); a returned structure that still holds a non-plain object is "
               "`return-not-plain`; a reply the oracle cannot interpret is a violation (`unjudgeable-reply`), never a crash",
               "bodies that format or convert their values (templates fmt:<conv>, conv in str, repr, %s/%r, f-string, format(), "
               "print to a stream, logging, a caught exception message, printed containers, deepcopy, and the conversions Python "
               "refuses for circuit values: bool, int, float, hash, index, len, iteration - each caught by the body), applied to one "
               "secret intermediate of every kind (integer, boolean, fixed point), to the public arguments and to a list of them: the "
               "public values added by the call must still be exactly the argument leaves followed by the result leaves",
               "Python bool arguments (True/False) replace integer leaves in about a quarter of the calls, at top level and nested, before / "
               "between / after int and float leaves: they are public inputs at their position in argument order like every other numeric "
               "leaf (value 0/1); to the pinned decorator a bool is an int (its third conversion pass never fires), the model has no "
               "separate class for it: in NI lines a leaf `b:v` is handed to the real decorator as bool(v) and to the model as `i:v`, so "
               "the correspondence also states that a bool argument arrives as the integer class"]
from .c17_twin import ASSUMPTIONS as _TWIN_ASSUMPTIONS
ASSUMPTIONS = ASSUMPTIONS + _TWIN_ASSUMPTIONS
PARTIAL = ["C17_inputs_single_kind: argument order is preserved when all numeric leaves are of one kind; with mixed int/float leaves the "
           "public inputs are grouped by type (finding C17-type-grouping); likewise for results of mixed kinds"]
TEMPLATES = ["square", "sum", "each", "mixed", "twice", "fx", "fxmix", "plain", "passthrough",
             "echo", "sharedret", "sharedrows", "sharedtuple"]
SHARED_RET = ("sharedret", "sharedrows", "sharedtuple")
FMT = ["str", "repr", "pct_s", "pct_r", "fstring", "format", "print", "log", "exc", "container", "deepcopy",
       "bool", "int", "float", "hash", "index", "len", "iter"]            # = worker_snark.FMT


def gen_arg(rnd, depth, kinds, share=None):
    """share: None, or [number of containers completed so far in this call's argument structure]: a position may then hold
    ["ref", k], the k-th of them again (the same object)"""
    if share is not None and share[0] > 0 and rnd.random() < 0.3:
        return ["ref", rnd.randrange(share[0])]
    c = rnd.random()
    if depth >= 2 or c < (0.55 if share is None else 0.4 if share[0] else 0.25):
        if "f" in kinds and rnd.random() < 0.4:
            return ["f", rnd.randrange(-40, 41), rnd.choice([0, 1, 2])]
        return ["i", rnd.randrange(-9, 10)]
    if c < 0.75: r = ["l", [gen_arg(rnd, depth + 1, kinds, share) for _ in range(rnd.randrange(0, 4))]]
    elif c < 0.9: r = ["t", [gen_arg(rnd, depth + 1, kinds, share) for _ in range(rnd.randrange(1, 3))]]
    else: r = ["d", {k: gen_arg(rnd, depth + 1, kinds, share) for k in rnd.sample(["a", "b", "c"], rnd.randrange(1, 3))}]
    if share is not None: share[0] += 1
    return r


def expand(a, memo=None, pool=()):
    """the plain structure that a structure with shared sub-containers stands for (same order as the worker's `build`);
    ["g", k] is the k-th object of the run's pool (already expanded)"""
    if memo is None: memo = []
    if a[0] in ("i", "f", "b"): return a
    if a[0] == "ref": return memo[a[1]]
    if a[0] == "g": return pool[a[1]]
    if a[0] in ("l", "t"): r = [a[0], [expand(x, memo, pool) for x in a[1]]]
    else: r = ["d", {k: expand(v, memo, pool) for k, v in a[1].items()}]
    memo.append(r)
    return r


def gen_pool(rnd, kinds):
    """1-2 mutable containers (list or dict, possibly nested, never empty of numbers) built once per run"""
    out = []
    for _ in range(rnd.choice([1, 1, 2])):
        while True:
            a = gen_arg(rnd, 0, kinds)
            if a[0] in ("l", "d") and list(flat(a)):
                out.append(a); break
    return out


def with_pool(rnd, args, npool):
    """put a pool object into an argument list: as an argument of its own, or inside a list/dict argument"""
    k = ["g", rnd.randrange(npool)]
    c = rnd.random()
    if c < 0.6 or not args:
        args.insert(rnd.randrange(len(args) + 1), k)
    elif c < 0.8:
        args.append(["l", [["i", rnd.randrange(-9, 10)], k]])
    else:
        args.append(["d", {"a": k, "b": ["i", rnd.randrange(-9, 10)]}])
    return args


def with_bools(rnd, args):
    """Python bool arguments (True/False: node ["b", 0|1]) in place of some integer leaves, at top level and nested in lists,
    tuples and dicts, so that bools sit before, between and after int and float leaves; at least one leaf is replaced when there
    is an integer leaf at all.  References (["ref", k]) and pool objects are left alone."""
    sites = []
    def walk(a):
        if a[0] in ("l", "t"):
            for k, x in enumerate(a[1]):
                if x[0] == "i": sites.append((a[1], k))
                else: walk(x)
        elif a[0] == "d":
            for k, x in a[1].items():
                if x[0] == "i": sites.append((a[1], k))
                else: walk(x)
    walk(["l", args])
    if not sites:
        args.insert(rnd.randrange(len(args) + 1), ["b", rnd.choice([0, 1])])
        return args
    rnd.shuffle(sites)
    for holder, k in sites[:max(1, rnd.randrange(len(sites) + 1))]:
        holder[k] = ["b", rnd.choice([0, 1])]
    if rnd.random() < 0.5:
        args.insert(0, ["b", rnd.choice([0, 1])])          # a flag first, the amounts after it
    return args


def input_order_signature(sig, leaves, got_in, want_in):
    """signature of `the public inputs are a permutation of the argument leaves`.  The recorded deviation of the pinned tree
    (C17-type-grouping-inputs) is exactly ONE permutation: the leaves the decorator's first pass takes (int, and bool, which is an
    int to it) in argument order, then the float leaves in argument order; it is reported with the classes the decorator
    distinguishes (`argkinds` over {f, i}).  Any other permutation is a different signature; when Python bools are among the
    arguments it keeps `b` in `argkinds` and says so in `order`, so that the recorded grouping can never absorb it."""
    kinds = [x[0] for x in leaves]
    grouped = [v for k, v in zip(kinds, want_in) if k != "f"] + [v for k, v in zip(kinds, want_in) if k == "f"]
    s = dict(sig, dev="inputs-order")
    if got_in == grouped:
        s["order"] = "ints-then-floats"
        s["argkinds"] = "".join(sorted({"i" if k == "b" else k for k in kinds}))
        if "b" in kinds: s["bool_arguments"] = True
    elif "b" in kinds:
        s["order"] = "bool-leaves-displaced"
    else:
        s["order"] = "other-permutation"
        s["argkinds"] = "".join(sorted(set(kinds))) + ":other-permutation" if len(set(kinds)) > 1 else s["argkinds"]
    return s


def gen_guards(rnd):
    return [[rnd.choice(["L", "L", "B"]), rnd.choice([0, 1])] for _ in range(1 if rnd.random() < 0.7 else 2)]


def flat(a):
    if a[0] in ("i", "f", "b"): yield a
    elif a[0] in ("l", "t"):
        for x in a[1]: yield from flat(x)
    elif a[0] == "d":
        for k in a[1]: yield from flat(a[1][k])


def ret_leaves(r):
    if r[0] in ("i", "q", "?"): yield r
    elif r[0] in ("l", "t"):
        for x in r[1]: yield from ret_leaves(x)
    elif r[0] == "d":
        for k in r[1]: yield from ret_leaves(r[1][k])


def same_shape_value(a, b):
    """returned plain structure vs what the undecorated function returns (bools as 0/1)"""
    if a[0] != b[0] and not ({a[0], b[0]} <= {"i", "q"}): return False
    if a[0] in ("l", "t"):
        return len(a[1]) == len(b[1]) and all(same_shape_value(x, y) for x, y in zip(a[1], b[1]))
    if a[0] == "d":
        return list(a[1]) == list(b[1]) and all(same_shape_value(a[1][k], b[1][k]) for k in a[1])
    va = Fraction(a[1], a[2]) if a[0] == "q" else a[1]
    vb = Fraction(b[1], b[2]) if b[0] == "q" else b[1]
    return va == vb


def gen_struct(rnd, depth, leaves, share=None):
    """share as in gen_arg; a reference is written `@k`"""
    if share is not None and share[0] > 0 and rnd.random() < 0.3:
        return f"@{rnd.randrange(share[0])}"
    c = rnd.random()
    if depth >= 2 or c < (0.55 if share is None else 0.4 if share[0] else 0.25):
        k = rnd.choice(leaves)
        if k == "i": return f"i:{rnd.randrange(-9, 10)}"
        if k == "f": return f"f:{rnd.randrange(-40, 41)}:{rnd.choice([0, 1, 2])}"
        if k == "b": return f"b:{rnd.choice([0, 1])}"
        if k == "L": return f"L:{rnd.randrange(-9, 10)}"
        if k == "B": return f"B:{rnd.choice([0, 1])}"
        return f"X:{rnd.randrange(-40, 41)}:{rnd.choice([0, 1, 2])}"
    items = [gen_struct(rnd, depth + 1, leaves, share) for _ in range(rnd.randrange(0 if depth else 1, 4))]
    if share is not None: share[0] += 1
    if rnd.random() < 0.6:
        return "[" + ",".join(items) + "]"
    return "(" + ",".join(items) + ("," if False else "") + ")"


def conversions(ctx, ex):
    """model correspondence of the two conversions of the decorator, outside and inside guarded regions, with and without
    shared sub-containers"""
    lines = []
    for i in range(ctx.n(600, 12000)):
        res = ctx.rnd.choice([8, 8, 4, 0])
        share = [0] if ctx.rnd.random() < 0.5 else None
        if i % 2 == 0:
            items = [gen_struct(ctx.rnd, 1, ["i", "i", "f", "b"] if i % 8 == 0 else ["i", "i", "f"], share) for _ in range(ctx.rnd.randrange(1, 4))]
            l = f"NI|ni{i}|{res}|(" + ",".join(items) + ")"
        else:
            l = f"NO|no{i}|{res}|" + gen_struct(ctx.rnd, 0, ["L", "L", "X", "B", "i"], share)
        if ctx.rnd.random() < 0.25:
            l += "|" + ",".join(f"{k}:{g}" for k, g in gen_guards(ctx.rnd))
        lines.append(l)
    py = common.run_workers(lines, script="worker_snark.py")
    ml = common.lean_driver([re.sub(r"(?<![A-Za-z])b:", "i:", l) if l.startswith("NI|") else l for l in lines])   # a bool is an int to the decorator
    for l, a, b in zip(lines, py, ml):
        ex.evaluations += 1
        ex.distinct.add(("conv", l.split("|", 2)[2]))
        f = l.split("|")
        if f[0] == "NI" and re.search(r"(?<![A-Za-z])b:", f[3]):
            ex.count("conv:NI:bool-leaves")
            # the wire value of a bool argument IS the Python object True/False (an int equal to 1/0): rendered as the integer
            a = re.sub(r"\bTrue\b", "1", re.sub(r"\bFalse\b", "0", a))
        ex.count("conv:" + f[0] + (":shared" if "@" in f[3] else "") + (":guarded" if len(f) > 4 else ""))
        if a != b:
            ex.disagreements.append({"line": l, "impl": a[:300], "model": b[:300]})
        else:
            ex.traces_validated += 1


def judge_run(run, d, ex):
    """the direct oracle; a reply it cannot interpret is a violation of its own kind, never a crash of the check"""
    try:
        if not isinstance(d.get("calls"), list) or len(d["calls"]) != len(run["calls"]):
            raise ValueError(f"{len(d.get('calls') or [])} call records for {len(run['calls'])} calls")
        judge_run_(run, d, ex)
    except Exception as e:
        import traceback
        ex.violations.append(Violation({"dev": "unjudgeable-reply", "error": type(e).__name__,
                                        "templates": ",".join(sorted({c["template"].split(":")[0] for c in run["calls"]})),
                                        "pool": bool(run.get("pool"))},
                                       f"the oracle could not interpret what the run reported ({type(e).__name__}: {e})",
                                       {"run": run, "observed": d, "traceback": traceback.format_exc().splitlines()[-4:]}))


def judge_run_(run, d, ex):
    """the direct oracle on one executed run (`d`: what the worker observed)"""
    res = run["res"]
    pool = [expand(x) for x in run.get("pool", [])]
    used = {}           # pool object -> number of earlier calls of this run that received it
    for c, rec in zip(run["calls"], d["calls"]):
        leaves = list(flat(expand(["t", c["args"]], None, pool)))
        mine = sorted({int(k) for k in re.findall(r'\["g", (\d+)\]', json.dumps(c["args"]))})
        reuse = "same-object-as-earlier-call" if any(used.get(k) for k in mine) else "pool-first-use" if mine else "no"
        for k in mine: used[k] = used.get(k, 0) + 1
        kinds = {x[0] for x in leaves}
        guards = c.get("guards", [])
        gstr = "".join(str(g) for _, g in guards) or "no"
        transparent = all(g == 1 for _, g in guards)      # every enclosing guard is on: the call behaves as outside
        shared_args = '"ref"' in json.dumps(c["args"])
        sharing = shared_args or c["template"] in SHARED_RET
        ex.distinct.add((c["template"], json.dumps(c["args"]), gstr))
        ex.count(f"template:{c['template']}"); ex.count("argkinds:" + "".join(sorted(kinds)))
        ex.count("guarded:" + gstr); ex.count("sharing:" + ("args" if shared_args else "ret" if sharing else "no"))
        ex.count("argument-object:" + reuse)
        if "b" in kinds:
            ks = [x[0] for x in leaves]
            after_first_bool = ks[ks.index("b"):]
            ex.count("bool-arguments:" + ("only" if kinds == {"b"} else "last" if set(after_first_bool) == {"b"} else "before-other-leaves"))
        sig = {"template": c["template"], "argkinds": "".join(sorted(kinds)), "kwargs": bool(c["kwargs"]),
               "sharing": sharing, "guarded": gstr, "argument_object": reuse}
        rep = {"run": run, "call": c, "observed": rec}
        if rec.get("args_changed"):
            ex.violations.append(Violation(dict(sig, dev="arguments-mutated"),
                                           f"the caller's argument objects were changed by the wrapped call: before "
                                           f"{json.dumps(rec['args_changed'][0])[:160]}, after {json.dumps(rec['args_changed'][1])[:160]}", rep))
        if rec.get("ret_changed"):
            ex.violations.append(Violation(dict(sig, dev="result-object-mutated"),
                                           f"the object returned by the body was changed by the wrapper: the body returned "
                                           f"{json.dumps(rec['ret_changed'][0])[:160]}, it now holds {json.dumps(rec['ret_changed'][1])[:160]}", rep))
        if rec.get("pubs_around"):
            ex.violations.append(Violation(dict(sig, dev="extra-publics"),
                                           f"{rec['pubs_around']} public value(s) created around the wrapped call, outside its window", rep))
        if c["kwargs"]:
            if rec["status"] != "ValueError":
                ex.violations.append(Violation(dict(sig, dev="kwargs-accepted"), f"keyword arguments: {rec['status']}", rep))
            if rec["pubs"] or rec["npriv"]:
                ex.violations.append(Violation(dict(sig, dev="refused-call-leaks"),
                                               f"a call refused for keyword arguments still published {rec['pubs']}", rep))
            continue
        if rec["status"] != "ok":
            if rec["plain"][0] != "!":
                ex.violations.append(Violation(dict(sig, dev="raises", error=rec["status"]), f"wrapped call raises {rec['status']}", rep))
            continue
        ex.traces_validated += 1
        want_in = [x[1] if x[0] in ("i", "b") else int(Fraction(x[1], 2 ** x[2]) * (1 << res)) for x in leaves]
        rl = list(ret_leaves(rec["ret"]))
        if rec["plain"][0] == "!":
            continue
        if any(x[0] == "?" for x in rl):
            ex.violations.append(Violation(dict(sig, dev="return-not-plain"),
                                           f"the wrapped call returned a structure still holding {[x[1] for x in rl if x[0] == '?'][:3]}: "
                                           f"{json.dumps(rec['ret'])[:120]}", rep))
            continue
        if any(x[0] == "?" for x in ret_leaves(rec["plain"])):
            raise ValueError(f"undecorated function returned a non-plain value: {json.dumps(rec['plain'])[:120]}")
        # under a guard of value 0 the body computes dummies: the outputs are then the values the call RETURNED
        pl = list(ret_leaves(rec["plain"] if transparent else rec["ret"]))
        nsecret_out = len(rec["pubs"]) - len(want_in)
        got_in = rec["pubs"][:len(want_in)]
        inputs_wrong = sorted(got_in) != sorted(want_in) or nsecret_out < 0
        if inputs_wrong:
            ex.violations.append(Violation(dict(sig, dev="inputs-wrong"),
                                           f"public values of the call {rec['pubs']}: the inputs are not the argument leaves {want_in}", rep))
        elif got_in != want_in:
            ex.violations.append(Violation(input_order_signature(sig, leaves, got_in, want_in),
                                           f"public inputs {got_in} are not in argument order {want_in}", rep))
        # outputs: one public wire per secret result leaf (kinds from a probe run of the body on secret arguments)
        rk = rec.get("retkinds")
        if rk is None:
            continue
        if inputs_wrong:
            # where the outputs start is then unknown: only the position-independent checks remain
            if transparent and not same_shape_value(rec["ret"], rec["plain"]):
                ex.violations.append(Violation(dict(sig, dev="return-differs"),
                                               f"returned {json.dumps(rec['ret'])[:100]}, undecorated function gives {json.dumps(rec['plain'])[:100]}", rep))
            if rec["unsat"]:
                ex.violations.append(Violation(dict(sig, dev="unsatisfied"), "a constraint of the wrapped call is not satisfied", rep))
            continue
        expected_secret = len([k for k in rk if k != "-"])
        sig["retkinds"] = "".join(sorted(set(k for k in rk if k != "-")))
        if nsecret_out >= 0 and nsecret_out != expected_secret:
            ex.violations.append(Violation(dict(sig, dev="outputs-count"),
                                           f"{nsecret_out} public outputs for {expected_secret} secret result leaves", rep))
        elif nsecret_out >= 0:
            # values: each secret result leaf appears among the outputs; in result order when all are of one kind
            vals = [pl[i] for i, k in enumerate(rk) if k != "-"] if len(pl) == len(rk) else None
            if vals is not None:
                want_out = [(v[1] if v[0] == "i" else int(Fraction(v[1], v[2]) * (1 << res))) for v in vals]
                got_out = rec["pubs"][len(want_in):]
                if sorted(got_out) != sorted(want_out):
                    ex.violations.append(Violation(dict(sig, dev="outputs-wrong"), f"public outputs {got_out}, secret results {want_out}", rep))
                elif got_out != want_out:
                    ex.violations.append(Violation(dict(sig, dev="outputs-order"),
                                                   f"public outputs {got_out} are not in result order {want_out}", rep))
        outs_idx = list(range(len(want_in), len(rec["pubs"])))
        if sorted(rec["links"]) != outs_idx:
            ex.violations.append(Violation(dict(sig, dev="outputs-not-tied"),
                                           f"public outputs at positions {outs_idx}, linking constraints for {sorted(rec['links'])}", rep))
        if transparent and not same_shape_value(rec["ret"], rec["plain"]):
            ex.violations.append(Violation(dict(sig, dev="return-differs"),
                                           f"returned {json.dumps(rec['ret'])[:100]}, undecorated function gives {json.dumps(rec['plain'])[:100]}", rep))
        if rec["unsat"]:
            ex.violations.append(Violation(dict(sig, dev="unsatisfied"), "a constraint of the wrapped call is not satisfied", rep))


def judge_twins(run_a, run_b, da, db, ex):
    """the same program under other guard values: same number of public values per call"""
    la = [len(r["pubs"]) for r in da["calls"]]
    lb = [len(r["pubs"]) for r in db["calls"]]
    ex.count("twin-runs")
    if la != lb:
        k = next(x for x in range(len(la)) if la[x] != lb[x])
        ca, cb = run_a["calls"][k], run_b["calls"][k]
        ga, gb = ("".join(str(g) for _, g in c.get("guards", [])) or "no" for c in (ca, cb))
        ex.violations.append(Violation({"dev": "layout-depends-on-guard", "template": ca["template"], "kwargs": bool(ca["kwargs"]),
                                        "guarded": f"{ga}/{gb}"},
                                       f"public values per call {la} with guards {ga}, {lb} with guards {gb}: the layout depends on the guard",
                                       {"run": run_a, "twin": run_b, "layout": la, "twin_layout": lb}))

def explore(ctx, extended=False, focus=None):
    ex = Exploration()
    ex.rule = ("runs of 1-3 wrapped calls (see assumptions); per call: public values added = argument leaves then result leaves; every "
               "result leaf tied to a fresh public wire by a 0*0 = r - o constraint; returned plain structure = undecorated function on "
               "the plain arguments (when no enclosing guard is 0); keyword arguments refused without side effects; the same holds for "
               "arguments/results with shared sub-containers (full flattening with repetition) and for calls made inside guarded "
               "regions, whose per-call number of public values must not depend on the guard values (twin runs); "
               "distinct = distinct (template, argument structure, guard values)")
    conversions(ctx, ex)
    n = ctx.n(1200, 24000) * (2 if extended else 1)
    runs = []
    twins = {}          # index of a twin run -> index of the run it repeats with other guard values
    for i in range(n):
        calls = []
        # a quarter of the runs: containers built once, handed to two or more of the run's calls (the same mutable objects)
        pool = gen_pool(ctx.rnd, ctx.rnd.choice(["i", "i", "if"])) if ctx.rnd.random() < 0.25 else []
        pool_kinds = {x[0] for a in pool for x in flat(a)}
        ncalls = ctx.rnd.randrange(2, 4) if pool else ctx.rnd.randrange(1, 4)
        for k in range(ncalls):
            t = ctx.rnd.choice(TEMPLATES) if ctx.rnd.random() < 0.8 else "fmt:" + ctx.rnd.choice(FMT)
            kinds = "if" if (t in ("fx", "fxmix", "passthrough") or t.startswith("fmt:")) and ctx.rnd.random() < 0.8 else "i"
            share = [0] if ctx.rnd.random() < 0.35 else None
            args = [gen_arg(ctx.rnd, 0, kinds, share) for _ in range(ctx.rnd.randrange(1, 4))]
            if ctx.rnd.random() < 0.25:
                args = with_bools(ctx.rnd, args)          # Python bool arguments mixed with ints / floats, nested too
            if pool and (k < 2 or ctx.rnd.random() < 0.6):
                args = with_pool(ctx.rnd, args, len(pool) if k >= 2 else 1)      # object 0 goes to the first two calls at least
            call = {"template": t, "args": args, "kwargs": ctx.rnd.random() < (0.03 if pool else 0.08)}
            if ctx.rnd.random() < 0.3:
                call["guards"] = gen_guards(ctx.rnd)
            calls.append(call)
        run = {"res": ctx.rnd.choice([8, 8, 4]), "calls": calls}
        if pool:
            run["pool"] = pool
        runs.append(run)
        if any("guards" in c for c in calls) and ctx.rnd.random() < 0.5:
            # the same program with other guard values: the public layout must be the same
            twin = json.loads(json.dumps(run))
            while twin == run:
                for c in twin["calls"]:
                    for g in c.get("guards", []):
                        g[1] = ctx.rnd.choice([0, 1])
            twins[len(runs)] = len(runs) - 1
            runs.append(twin)
    outs = common.run_workers([f"N|n{i}|{json.dumps(r)}" for i, r in enumerate(runs)], script="worker_snark.py")
    parsed = []
    for run, o in zip(runs, outs):
        ex.evaluations += 1
        d = json.loads(o.split("|", 1)[1])
        if "harness-error" in d:
            raise common.Infra(str(d))
        parsed.append(d)
        judge_run(run, d, ex)
        if len(ex.samples) < 4 or (len(ex.samples) < 8 and any("guards" in c or '"ref"' in json.dumps(c["args"]) for c in run["calls"])):
            ex.samples.append(run)
    for j, i in twins.items():
        judge_twins(runs[i], runs[j], parsed[i], parsed[j], ex)
    # the same decorated call on other argument VALUES: its contribution to the constraint system must not change (c17_twin.py)
    from . import c17_twin
    c17_twin.twin_runs(ctx, ex, "C17", ctx.n(160, 3000) * (2 if extended else 1))
    from . import c17_defaults
    c17_defaults.default_parameter_cases(ctx, ex, extended)      # decorated functions that have default parameters
    return ex


def replay(ctx, payload):
    """re-execute the recorded run (and its twin) on the real code, print what is observed and what the oracle says"""
    rp = payload["replay"]
    if "twin_group" in rp:
        from . import c17_twin
        return c17_twin.replay(payload)
    if "defaults_run" in rp:
        from . import c17_defaults
        return c17_defaults.replay(ctx, payload)
    ex = Exploration()
    o = common.run_workers([f"N|r|{json.dumps(rp['run'])}"], script="worker_snark.py")[0]
    print(o[:3000])
    d = json.loads(o.split("|", 1)[1])
    if "harness-error" not in d:
        judge_run(rp["run"], d, ex)
    if "twin" in rp:
        o2 = common.run_workers([f"N|twin|{json.dumps(rp['twin'])}"], script="worker_snark.py")[0]
        print(o2[:3000])
        d2 = json.loads(o2.split("|", 1)[1])
        if "harness-error" not in d and "harness-error" not in d2:
            judge_twins(rp["run"], rp["twin"], d, d2, ex)
    for v in ex.violations:
        print("reproduced:" if v.signature.get("dev") == payload.get("signature", {}).get("dev") else "also:", json.dumps(v.signature), v.what)
    if not ex.violations:
        print("not reproduced on this tree")
    return 0
