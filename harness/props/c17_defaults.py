"""C17, scenario class `default parameters`: the decorated function is a real `def` whose signature has parameters WITH DEFAULT
VALUES (numbers, containers holding numbers, None, strings, booleans, floats; positional, after `*rest`, keyword-only), and the
caller omits them, passes some of them positionally, passes all of them, tries a keyword, or gets the arity wrong.

Oracle (direct, on the real decorator; worker_snark.py line kind `ND`):
  * the public values added by the call are exactly the numeric leaves of the arguments the caller PASSED (in argument order; the
    recorded grouping by type is classified under its own recorded signature), followed by one output per secret result leaf,
    each tied by a linking constraint; a default value the caller did not pass is not an argument of the call;
  * an omitted parameter reaches the body as the default OBJECT of the signature (as in the undecorated function), and the default
    objects are not modified;
  * the value returned equals what the undecorated function returns; every recorded constraint holds;
  * a keyword argument is refused with ValueError and allocates nothing; a call with the wrong number of arguments ends in the
    same exception class as the undecorated function.
Signatures name the scenario, the deviation, how the call was made and which kinds of default were left out - never a seed."""
import json
from fractions import Fraction
from .. import common
from ..framework import Exploration, Violation

SCENARIO = "default-parameters"
NAMES = ["x", "factor", "offset", "scale", "bias", "opts"]


def gen_value(rnd, kind, depth=0):
    """kind: i, f, b, n, s, c (container holding numbers, possibly with None/strings, possibly empty or nested)"""
    if kind == "i": return ["i", rnd.choice([0, 1, -1, 2, 3, rnd.randrange(-9, 10)])]
    if kind == "f": return ["f", rnd.randrange(-40, 41), rnd.choice([0, 1, 2])]
    if kind == "b": return ["b", rnd.choice([0, 1])]
    if kind == "n": return ["n"]
    if kind == "s": return ["s", rnd.choice(["", "x", "3", "sum", "0.5"])]
    inner = [gen_value(rnd, rnd.choice("iiifbnsc" if depth < 1 else "iiifbns"), depth + 1) for _ in range(rnd.choice([0, 1, 2, 2, 3]))]
    c = rnd.random()
    if c < 0.45: return ["l", inner]
    if c < 0.8: return ["t", inner]
    return ["d", {k: v for k, v in zip(["a", "b", "c"], inner)}]


def num_leaves(a):
    if a[0] in ("i", "f", "b"): yield a
    elif a[0] in ("l", "t"):
        for x in a[1]: yield from num_leaves(x)
    elif a[0] == "d":
        for k in a[1]: yield from num_leaves(a[1][k])


def kinds_of(a):
    """leaf/container kinds occurring in a value: subset of i f b n s c"""
    if a[0] in ("l", "t"): return {"c"}.union(*[kinds_of(x) for x in a[1]])
    if a[0] == "d": return {"c"}.union(*[kinds_of(x) for x in a[1].values()])
    return {a[0]}


def gen_call(rnd):
    nreq = rnd.choice([0, 1, 1, 1, 2])
    ndef = rnd.choice([1, 1, 2, 2, 3])
    var = rnd.random() < 0.15
    kwonly = rnd.random() < 0.25
    params = []
    names = list(NAMES)
    for _ in range(nreq): params.append({"name": names.pop(0), "kind": "pos"})
    for _ in range(ndef): params.append({"name": names.pop(0), "kind": "pos", "default": gen_value(rnd, rnd.choice("iiiiffbbnscc"))})
    if var: params.append({"name": "rest", "kind": "var"})
    if kwonly: params.append({"name": "mode", "kind": "kwonly", "default": gen_value(rnd, rnd.choice("iifbnsc"))})
    how = rnd.choice(["omit-all", "omit-all", "omit-all", "omit-some", "omit-some", "omit-some", "pass-all", "pass-all",
                      "keyword", "arity"])
    if how == "arity":
        wrong = ([nreq - 1] if nreq else []) + ([] if var else [nreq + ndef + 1, nreq + ndef + 2])
        if wrong: npass = rnd.choice(wrong)
        else: how = "omit-all"
    if how == "omit-all": npass = nreq
    elif how == "omit-some": npass = nreq + rnd.randrange(1, ndef) if ndef > 1 else nreq
    elif how == "pass-all": npass = nreq + ndef + (rnd.randrange(0, 3) if var else 0)
    elif how == "keyword": npass = nreq + rnd.randrange(0, ndef)
    args = [gen_value(rnd, rnd.choice("iiiiiffbnsc")) for _ in range(npass)]
    call = {"params": params, "body": rnd.choice(["fold", "fold", "echo"]), "args": args, "how": how}
    if how == "keyword":
        free = [q for q in params[npass:] if q["kind"] != "var"]
        q = rnd.choice(free)
        call["kwargs"] = {q["name"]: gen_value(rnd, rnd.choice("iifbn"))}
    return call


def same_value(a, b):
    """returned structure vs the undecorated function's (bools as 0/1, floats exactly)"""
    if a[0] in ("i", "q") and b[0] in ("i", "q"):
        va = Fraction(a[1], a[2]) if a[0] == "q" else a[1]
        vb = Fraction(b[1], b[2]) if b[0] == "q" else b[1]
        return va == vb
    if a[0] != b[0]: return False
    if a[0] in ("l", "t"): return len(a[1]) == len(b[1]) and all(same_value(x, y) for x, y in zip(a[1], b[1]))
    if a[0] == "d": return list(a[1]) == list(b[1]) and all(same_value(a[1][k], b[1][k]) for k in a[1])
    return a == b


def ret_num_leaves(r):
    if r[0] in ("i", "q", "?"): yield r
    elif r[0] in ("l", "t"):
        for x in r[1]: yield from ret_num_leaves(x)
    elif r[0] == "d":
        for k in r[1]: yield from ret_num_leaves(r[1][k])


def scaled(x, res):
    return x[1] if x[0] in ("i", "b") else int(Fraction(x[1], 2 ** x[2]) * (1 << res))


def judge(run, d, ex):
    from .c17 import input_order_signature
    res = run["res"]
    if not isinstance(d.get("calls"), list) or len(d["calls"]) != len(run["calls"]):
        raise common.Infra(f"ND reply not understood: {str(d)[:300]}")
    for c, rec in zip(run["calls"], d["calls"]):
        how = c["how"]
        bound = {}                              # parameter name -> passed positionally?
        pos = [q for q in c["params"] if q["kind"] == "pos"]
        for k, q in enumerate(pos): bound[q["name"]] = k < len(c["args"])
        omitted = [q for q in c["params"] if "default" in q and not bound.get(q["name"], False) and q["name"] not in c.get("kwargs", {})]
        okinds = "".join(sorted(set().union(*[kinds_of(q["default"]) for q in omitted]))) if omitted else "-"
        leaves = [x for a in c["args"] for x in num_leaves(a)]
        onum = "none" if not omitted else "numeric" if set(okinds) & set("ifb") else "non-numeric"
        sig = {"scenario": SCENARIO, "call": how, "omitted_defaults": onum, "body": c["body"]}
        rep = {"defaults_run": run, "call": c, "observed": rec}
        ex.distinct.add((SCENARIO, json.dumps(c)))
        ex.count(f"defaults:call:{how}"); ex.count(f"defaults:omitted:{okinds}"); ex.count(f"defaults:body:{c['body']}")
        V = lambda dev, what, **kw: ex.violations.append(Violation(dict(sig, dev=dev, **kw), what, rep))
        if rec.get("defaults_changed"):
            V("default-objects-mutated", f"the default objects of the signature were changed by the wrapped call: "
              f"{json.dumps(rec['defaults_changed'][0])[:140]} -> {json.dumps(rec['defaults_changed'][1])[:140]}")
        if how == "keyword":
            if rec["status"] != "ValueError":
                V("kwargs-accepted", f"keyword argument {list(c['kwargs'])} of a function with defaults: {rec['status']}")
            if rec["pubs"] or rec["npriv"]:
                V("refused-call-leaks", f"a call refused for a keyword argument still published {rec['pubs']}")
            continue
        if how == "arity":
            want = rec["plain"][1] if rec["plain"][0] == "!" else "ok"
            if rec["status"] != want:
                V("arity-outcome", f"call with {len(c['args'])} positional arguments: wrapped call ends in {rec['status']}, the undecorated "
                  f"function in {want}")
            continue
        if rec["status"] != "ok" or rec["plain"][0] == "!":
            if rec["status"] != (rec["plain"][1] if rec["plain"][0] == "!" else "ok"):
                V("raises", f"wrapped call: {rec['status']}; undecorated function: {rec['plain']}", error=rec["status"])
            continue
        ex.traces_validated += 1
        want_in = [scaled(x, res) for x in leaves]
        rk = rec.get("retkinds")
        n_out = len([k for k in rk if k != "-"]) if rk is not None else None
        pubs = rec["pubs"]
        dflt = [scaled(x, res) for q in omitted for x in num_leaves(q["default"])]
        if n_out is not None and len(pubs) != len(want_in) + n_out or len(pubs) < len(want_in):
            extra = ""
            mid = pubs[len(want_in):len(pubs) - (n_out or 0)]
            if dflt and sorted(mid) == sorted(dflt):
                extra = f": the extra values {mid} are the defaults of the omitted parameter(s) {[q['name'] for q in omitted]}"
            V("publics-count", f"{len(pubs)} public values {pubs} for a call that PASSED the numeric leaves {want_in} and has "
              f"{n_out} secret result leaf/leaves{extra}")
        else:
            got_in = pubs[:len(want_in)]
            if sorted(got_in) != sorted(want_in):
                V("inputs-wrong", f"public values of the call {pubs}: the inputs are not the leaves of the passed arguments {want_in}")
            elif got_in != want_in:
                s = input_order_signature(dict(sig, argkinds="".join(sorted({x[0] for x in leaves}))), leaves, got_in, want_in)
                ex.violations.append(Violation(s, f"public inputs {got_in} are not in argument order {want_in}", rep))
            if n_out is not None:
                outs_idx = list(range(len(want_in), len(pubs)))
                if sorted(rec["links"]) != outs_idx:
                    V("outputs-not-tied", f"public outputs at positions {outs_idx}, linking constraints for {sorted(rec['links'])}")
                pl = [x for x in ret_num_leaves(rec["plain"])]
                if len(pl) == len(rk):
                    want_out = [(v[1] if v[0] == "i" else int(Fraction(v[1], v[2]) * (1 << res))) for v, k in zip(pl, rk) if k != "-"]
                    if sorted(pubs[len(want_in):]) != sorted(want_out):
                        V("outputs-wrong", f"public outputs {pubs[len(want_in):]}, secret results {want_out}")
        # omitted parameters: the body must receive the default object of the signature
        notsame = [k for k in (rec.get("same") or {}) if not rec["same"][k] and k in {q["name"] for q in omitted}]
        if notsame:
            k = notsame[0]
            V("default-replaced", f"the omitted parameter `{k}` reached the body as {json.dumps(rec['arrived'][k])[:80]}, not as the default "
              f"object of the signature {json.dumps(next(q['default'] for q in omitted if q['name'] == k))[:80]}")
        if any(x[0] == "?" for x in ret_num_leaves(rec["ret"])):
            V("return-not-plain", f"the wrapped call returned {json.dumps(rec['ret'])[:120]}")
        elif not same_value(rec["ret"], rec["plain"]):
            V("return-differs", f"returned {json.dumps(rec['ret'])[:100]}, undecorated function gives {json.dumps(rec['plain'])[:100]}")
        if rec["unsat"]:
            V("unsatisfied", "a constraint of the wrapped call is not satisfied")


def default_parameter_cases(ctx, ex, extended=False):
    """generate, run on the real decorator, judge"""
    n = ctx.n(400, 6000) * (2 if extended else 1)
    runs = [{"res": ctx.rnd.choice([8, 8, 4]), "calls": [gen_call(ctx.rnd) for _ in range(ctx.rnd.randrange(1, 4))]} for _ in range(n)]
    outs = common.run_workers([f"ND|d{i}|{json.dumps(r)}" for i, r in enumerate(runs)], script="worker_snark.py")
    for run, o in zip(runs, outs):
        ex.evaluations += 1
        d = json.loads(o.split("|", 1)[1])
        if "harness-error" in d:
            raise common.Infra(str(d))
        judge(run, d, ex)


def replay(ctx, payload):
    rp = payload["replay"]
    ex = Exploration()
    o = common.run_workers([f"ND|r|{json.dumps(rp['defaults_run'])}"], script="worker_snark.py")[0]
    print(o[:3000])
    d = json.loads(o.split("|", 1)[1])
    if "harness-error" not in d:
        judge(rp["defaults_run"], d, ex)
    for v in ex.violations:
        print("reproduced:" if v.signature.get("dev") == payload.get("signature", {}).get("dev") else "also:", json.dumps(v.signature), v.what)
    if not ex.violations:
        print("not reproduced on this tree")
    return 0
