"""Value-independence oracle for calls of @snark-decorated functions (shared by C17 and C06).

The same decorated call (same body, same argument STRUCTURE, same enclosing guards) is executed several times on the real
decorator with different argument VALUES: the values drawn by the generator, then every int leaf 0 or 1, then one leaf 0 / 1
among others >= 2, then negative and large values; float leaves 0.0, 1.0, halves.  Everything the call contributes to the
constraint system must be the same in all runs: number of public / private wires and constraints, every constraint in
canonical form, the class under which each argument leaf arrives in the body (an int argument is a LinComb whatever its
value), and the type skeleton of the returned structure.  Oracle on the real code only (harness/worker_snarktwin.py); the
Lean side states the conversion per leaf KIND (snarkIn), which is what makes the shape a function of the structure."""
import json
from .. import common
from ..framework import Violation

TWIN_TEMPLATES = ["square", "sum", "each", "mixed", "twice", "fx", "fxmix", "plain", "passthrough", "echo", "sharedret", "sharedrows"]
ASSUMPTIONS = ["value independence of decorated calls: groups of 4-5 runs of one decorated call on one argument structure (nested lists / "
               "tuples / dicts of ints and dyadic floats, shared sub-containers, 0-2 enclosing guarded() regions with fixed guard values) with "
               "different argument values - generator values, all int leaves in {0,1}, a single leaf 0 or 1 among values >= 2, negative and "
               "large values, float leaves 0.0 / 1.0 / fractions -: wire and constraint counts, canonical constraints, the class of every "
               "argument leaf as the body receives it, and the type skeleton of the result must coincide (harness/props/c17_twin.py, "
               "harness/worker_snarktwin.py; direct oracle only)"]


def revalue(a, rnd, mode, state):
    """the same structure with other leaf values"""
    t = a[0]
    if t == "i":
        state["k"] += 1
        if mode == "all01": return ["i", rnd.choice([0, 1])]
        if mode == "one01": return ["i", rnd.choice([0, 1]) if state["k"] == state["pick"] else rnd.randrange(2, 50)]
        if mode == "big": return ["i", rnd.choice([-1, -2, -17, 1 << 20, 12345, -(1 << 16)])]
        if mode == "none01": return ["i", rnd.randrange(2, 9)]
        return a
    if t == "f":
        if mode in ("all01", "one01"): return ["f", rnd.choice([0, 1, 2]), 0]
        if mode == "big": return ["f", rnd.choice([-37, 1001, 3, -1]), rnd.choice([0, 1, 2])]
        return ["f", rnd.choice([1, 3, 5, 7]), rnd.choice([1, 2])]
    if t == "b": return ["b", rnd.choice([0, 1])]          # a Python bool argument: True / False are its only values
    if t in ("ref", "g"): return a
    if t in ("l", "t"): return [t, [revalue(x, rnd, mode, state) for x in a[1]]]
    return ["d", {k: revalue(v, rnd, mode, state) for k, v in a[1].items()}]


def nleaves(a):
    if a[0] == "i": return 1
    if a[0] in ("f", "b", "ref", "g"): return 0
    if a[0] in ("l", "t"): return sum(nleaves(x) for x in a[1])
    if a[0] == "d": return sum(nleaves(v) for v in a[1].values())
    return 0


def leaf_values(a, memo=None):
    """flattening with repetition (as the decorator sees it)"""
    if memo is None: memo = []
    if a[0] == "i": return [a[1]]
    if a[0] == "f": return [("f", a[1], a[2])]
    if a[0] == "b": return [bool(a[1])]
    if a[0] == "ref": return memo[a[1]]
    r = []
    for x in (a[1] if a[0] in ("l", "t") else a[1].values()): r += leaf_values(x, memo)
    memo.append(r)
    return r


def shape_of(rec):
    return (rec["status"], rec["npub"], rec["npriv"], rec["ncons"], tuple(rec["cons"]), tuple(rec["argclasses"]), json.dumps(rec.get("ret")))


def first_difference(a, b):
    names = ["status", "number of public wires", "number of private wires", "number of constraints", "constraints", "classes of the argument leaves in the body",
             "type skeleton of the result"]
    for nm, x, y in zip(names, shape_of(a), shape_of(b)):
        if x != y:
            if nm == "constraints":
                k = next((i for i, (u, v) in enumerate(zip(x, y)) if u != v), min(len(x), len(y)))
                return nm, f"constraint #{k}: {x[k][:90] if k < len(x) else None} vs {y[k][:90] if k < len(y) else None}"
            return nm, f"{str(x)[:110]} vs {str(y)[:110]}"
    return None, ""


def gen_groups(rnd, n):
    from . import c17
    groups = []
    for _ in range(n):
        t = rnd.choice(TWIN_TEMPLATES)
        kinds = "if" if t in ("fx", "fxmix", "passthrough", "echo") and rnd.random() < 0.7 else "i"
        share = [0] if rnd.random() < 0.3 else None
        args = [c17.gen_arg(rnd, 0, kinds, share) for _ in range(rnd.randrange(1, 4))]
        if sum(nleaves(a) for a in args) == 0:
            args.append(["i", rnd.randrange(-9, 10)])
        if rnd.random() < 0.15 and hasattr(c17, "with_bools"):
            args = c17.with_bools(rnd, args)                  # Python bool arguments among the leaves (True and False are their values)
            if sum(nleaves(a) for a in args) == 0:
                args.append(["i", rnd.randrange(-9, 10)])
        base = {"res": rnd.choice([8, 8, 4]), "template": t, "args": args}
        if rnd.random() < 0.25:
            base["guards"] = c17.gen_guards(rnd)
        nl = sum(nleaves(a) for a in args)
        runs = [("generated", base)]
        for mode in ("all01", "one01", "none01", "big"):
            st = {"k": 0, "pick": rnd.randrange(1, nl + 1)}
            runs.append((mode, dict(base, args=[revalue(a, rnd, mode, st) for a in args])))
        groups.append(runs)
    return groups


def judge_group(runs, outs, ex, pid):
    recs = []
    for (mode, run), o in zip(runs, outs):
        d = json.loads(o.split("|", 1)[1])
        if "harness-error" in d:
            raise common.Infra("worker_snarktwin: " + str(d)[:400])
        recs.append(d)
    ex.evaluations += len(runs)
    base = runs[0][1]
    ex.count(f"value-twins:template:{base['template']}"); ex.count("value-twins:guarded:" + ("".join(str(g) for _, g in base.get("guards", [])) or "no"))
    ref_i = next((i for i, r in enumerate(recs) if r["status"] == "ok"), None)
    if ref_i is None:
        ex.count("value-twins:all-raise"); return
    ex.distinct.add(("value-twins", base["template"], json.dumps(base["args"]), json.dumps(base.get("guards"))))
    for i, r in enumerate(recs):
        if i == ref_i:
            continue
        what, detail = first_difference(recs[ref_i], r)
        if what is None:
            ex.traces_validated += 1
            continue
        va = leaf_values(["t", runs[ref_i][1]["args"]]); vb = leaf_values(["t", runs[i][1]["args"]])
        b01 = lambda v: isinstance(v, int) and not isinstance(v, bool) and v in (0, 1)
        cls = "int-argument-0-or-1-vs-other-value" if any(b01(x) != b01(y) for x, y in zip(va, vb)) else "other-values"
        kinds = "".join(sorted({"f" if isinstance(v, tuple) else "b" if isinstance(v, bool) else "i" for v in va}))
        ex.violations.append(Violation({"dev": "decorated-call-depends-on-argument-values", "what": what, "values": cls, "argkinds": kinds,
                                        "guarded": bool(base.get("guards"))},
                                       f"@snark call of template `{base['template']}` on the same argument structure: with argument values {va[:8]} and "
                                       f"{vb[:8]} the {what} differ ({detail})",
                                       {"twin_group": [runs[ref_i][1], runs[i][1]], "observed": [recs[ref_i], r]}))
        return


def twin_runs(ctx, ex, pid, n):
    """run `n` groups; violations are appended to `ex`"""
    groups = gen_groups(ctx.rnd, n)
    lines = []
    for gi, runs in enumerate(groups):
        for ri, (mode, run) in enumerate(runs):
            lines.append(f"NT|g{gi}_{ri}|{json.dumps(run)}")
    outs = common.run_workers(lines, script="worker_snarktwin.py", nproc=min(6, max(1, len(lines) // 100)))
    k = 0
    for runs in groups:
        judge_group(runs, outs[k:k + len(runs)], ex, pid)
        k += len(runs)
    if groups and len(ex.samples) < 10:
        ex.samples.append({"value_twins": [r for _, r in groups[0][:3]]})


def replay(payload):
    runs = payload["replay"]["twin_group"]
    outs = common.run_workers([f"NT|t{i}|{json.dumps(r)}" for i, r in enumerate(runs)], script="worker_snarktwin.py", nproc=1)
    recs = [json.loads(o.split("|", 1)[1]) for o in outs]
    for r, d in zip(runs, recs):
        print(json.dumps(r)); print("  ->", json.dumps({k: d.get(k) for k in ("status", "npub", "npriv", "ncons", "argclasses", "ret", "pubs")}))
    what, detail = first_difference(recs[0], recs[1])
    print("reproduced: " + what + ": " + detail if what else "not reproduced on this tree")
    return 0
