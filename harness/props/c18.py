"""C18 — proof artefacts are emitted at exit only for successful runs, and completely."""
import concurrent.futures as cf
import os, shutil, subprocess, tempfile
from .. import common, r1csread
from ..framework import Exploration, Violation

ASSUMPTIONS = ["one fresh interpreter per (termination mode, argument, position, autoprove, earlier caught exits, backend) in a scratch "
               "cwd: exit status, stderr classification, artefact presence and (snarkjs) decoded artefact = trace prefix",
               "CPython's shutdown rules (which exits reach sys.exit / sys.excepthook, atexit ordering, status of each SystemExit "
               "argument) are modelled in Model/AtExit.lean and validated only by this correspondence",
               "application environment: a third of the scripts first install what an application or an IDE would: their own "
               "sys.excepthook before pysnark is imported (chaining to the previous hook / replacing it / a bound method of an object), "
               "their own sys.exit wrapper before the import, both, or a chaining excepthook installed AFTER the import; every such "
               "environment meets an uncaught exception, KeyboardInterrupt, sys.exit(1), sys.exit() and a normal end at least once. The "
               "model has no notion of foreign hooks: the observed (status, artefact, messages) must equal the model's for the same "
               "script without them, i.e. the interposition must work whatever hook was there before",
               "foreign hooks that do not return (installed before pysnark is imported): the application's sys.excepthook raises itself, "
               "calls sys.exit(0) / sys.exit(3), raises SystemExit(0), or calls os._exit(0) after logging. A script that ends through an "
               "uncaught exception or KeyboardInterrupt has failed whatever status the application's hook then chooses: no artefact may "
               "be produced (`emitted-after-uncaught-exception`); for these combinations the exit status is the application's business "
               "and is not compared with the model, everything else (no artefact, the skipped message, no hook failure) is",
               "other modules in the process: a fifth of the scripts (and every well-behaved successful / failing termination at least "
               "once) import what scripts commonly import before or after pysnark: standard-library tooling (unittest, doctest, logging, "
               "argparse, pdb, timeit), installed third-party packages when /venv has them (pytest, hypothesis, coverage, setuptools), and "
               "EMPTY stand-in modules named like widespread packages (sphinx, IPython, numpy, nose, docutils, tox) on a scratch "
               "PYTHONPATH entry; the outcome must be that of the same script without them (the model knows nothing about sys.modules)",
               "exit arguments of non-int types (table NONINT): strings of digits ('0', '00', ' 0\\n', '+0', '0_0', a non-ASCII digit, '7'), "
               "bytes, floats (0.25, -0.5, 1.5, -0.0, inf, nan), IntEnum members with value 0 and 3, objects defining __int__ / __index__, "
               "tuples ((0,), (), (3,), (0, 1)), each handed to sys.exit at least once per run of the check. The oracle is unchanged: an "
               "artefact is written iff the PROCESS exit status observed by the parent is 0. For the model each is replaced by the modelled "
               "argument with the same (is None, == 0, CPython status) triple, which is all the model reads of an argument; the triple is "
               "CPython's rule as written down in the table, so the correspondence also checks that rule against the interpreter",
               "file-writing backends: snarkjs, zkinterface (flatbuffers stand-in), qaptools (failing stub binaries: the artefact "
               "observed is pysnark_schedule, written by prove() before the first external tool)"]
PARTIAL = ["C18_emit_iff_partial: termination events in the well-behaved set (fall off the end, sys.exit(...), uncaught exception, "
           "KeyboardInterrupt), no earlier caught sys.exit; closed counterexamples for raise SystemExit / builtin exit / caught exits / "
           "sys.exit(256) / sys.exit(0.0)"]
BACKENDS = ["snarkjs", "zkinterface", "qaptools"]
ARTEFACT = {"snarkjs": "witness.wtns", "zkinterface": "computation.zkif", "qaptools": "pysnark_schedule"}

ARGS = {"none": "None", "i:0": "0", "i:1": "1", "i:3": "3", "i:256": "256", "i:-1": "-1", "s:1": "'boom'", "s:0": "''",
        "b:1": "True", "b:0": "False", "o:0": "[]", "o:1": "[1]", "f:0": "0.0", "f:1": "2.5"}

# exit arguments of NON-INT types.  key -> (expression, argument CLASS named in violation signatures, the modelled argument that has
# the same (is None, == 0, CPython exit status) triple - the only three things Model/AtExit.lean reads of an argument).  The status
# column is CPython's rule, not pysnark's: only None and real `int` objects (bool and IntEnum members are) are a status, every
# other object is printed and the status is 1 - whatever int() would make of it; a TUPLE handed to sys.exit is unpacked into the
# SystemExit constructor ((0,) and () leave with 0, (3,) with 3, (0, 1) is printed).  -0.0 is the recorded float zero (class f:0).
_ENUM = "__import__('enum').IntEnum('Code', {'OK': 0, 'FAILED': 3})"
NONINT = {
    "sd:0": ("'0'", "s:digits", "s:1"), "sd:00": ("'00'", "s:digits", "s:1"), "sd:ws": ("' 0\\n'", "s:digits", "s:1"),
    "sd:+0": ("'+0'", "s:digits", "s:1"), "sd:_": ("'0_0'", "s:digits", "s:1"), "sd:u": ("'\\u0660'", "s:digits", "s:1"),
    "sd:7": ("'7'", "s:digits", "s:1"),
    "y:0": ("b'0'", "bytes", "o:1"), "y:e": ("b''", "bytes", "o:0"),
    "f:q": ("0.25", "f:frac", "f:1"), "f:-q": ("-0.5", "f:frac", "f:1"), "f:1.5": ("1.5", "f:1", "f:1"), "f:-0": ("-0.0", "f:0", "f:0"),
    "f:inf": ("float('inf')", "f:nonfinite", "f:1"), "f:nan": ("float('nan')", "f:nonfinite", "f:1"),
    "ie:0": (_ENUM + ".OK", "intenum:0", "i:0"), "ie:3": (_ENUM + ".FAILED", "intenum:n", "i:3"),
    "oi:0": ("type('Status', (), {'__int__': lambda self: 0})()", "obj:__int__", "o:1"),
    "oi:3": ("type('Status', (), {'__int__': lambda self: 3})()", "obj:__int__", "o:1"),
    "ox:0": ("type('Status', (), {'__index__': lambda self: 0})()", "obj:__index__", "o:1"),
    "t:0": ("(0,)", "t:0", "i:256"), "t:e": ("()", "t:0", "i:256"), "t:3": ("(3,)", "t:n", "i:3"), "t:2": ("(0, 1)", "t:many", "o:1"),
}
ARGS.update({k: v[0] for k, v in NONINT.items()})


def arg_class(a):
    return NONINT[a][1] if a in NONINT else a


def model_term(t):
    """the termination event as the model's line protocol knows it"""
    kind, _, a = t.partition("=")
    return f"{kind}={NONINT[a][2]}" if a in NONINT else t


def term_src(term):
    if term == "fall": return None
    if term == "sysexit": return "sys.exit()"
    if term == "uncaught": return "raise ValueError('boom')"
    if term == "kbd": return "raise KeyboardInterrupt"
    kind, arg = term.split("=", 1)
    if kind == "sysexit": return f"sys.exit({ARGS[arg]})"
    if kind == "raise": return f"raise SystemExit({ARGS[arg]})"
    if kind == "builtin": return f"exit({ARGS[arg]})"
    if kind == "osexit": return f"os._exit({arg})"
    raise ValueError(term)


ENVS = ["hook-chain", "hook-replace", "hook-method", "exit-wrap", "hook-chain+exit-wrap", "hook-after-import"]
ENV_SRC = {
    "hook-chain": ["_prev_hook = sys.excepthook", "def _app_hook(tp, ex, tb):", "    sys.stderr.write('app: uncaught %s\\n' % tp.__name__)",
                   "    _prev_hook(tp, ex, tb)", "sys.excepthook = _app_hook"],
    "hook-replace": ["def _app_hook(tp, ex, tb):", "    sys.stderr.write('app: fatal %s: %s\\n' % (tp.__name__, ex))", "sys.excepthook = _app_hook"],
    "hook-method": ["class _Reporter:", "    def __init__(self): self.prev = sys.excepthook", "    def report(self, tp, ex, tb):",
                    "        sys.stderr.write('reporter: %s\\n' % tp.__name__); self.prev(tp, ex, tb)", "sys.excepthook = _Reporter().report"],
    "exit-wrap": ["_prev_exit = sys.exit", "def _app_exit(*a):", "    sys.stderr.write('app: leaving\\n'); _prev_exit(*a)", "sys.exit = _app_exit"],
}
ENV_SRC["hook-chain+exit-wrap"] = ENV_SRC["hook-chain"] + ENV_SRC["exit-wrap"]
# application hooks that do NOT return: the crash reporter fails itself / decides the exit status / ends the process
NONRETURNING = {"hook-raises": "raise RuntimeError('crash reporter failed')", "hook-exits-0": "sys.exit(0)", "hook-exits-3": "sys.exit(3)",
                "hook-raises-SystemExit": "raise SystemExit(0)", "hook-hard-exit": "sys.stderr.flush(); os._exit(0)"}
for _e, _stmt in NONRETURNING.items():
    ENV_SRC[_e] = ["def _app_hook(tp, ex, tb):", "    sys.stderr.write('app: fatal %s, shutting down\\n' % tp.__name__)", "    " + _stmt,
                   "sys.excepthook = _app_hook"]
ENVS += list(NONRETURNING)
EXC_TERMS = ("uncaught", "kbd")

# modules a script (or the tool that launches it) commonly has imported; class -> names
STDLIB_MODS = ["unittest", "doctest", "logging", "argparse", "pdb", "timeit"]
THIRD_PARTY = ["pytest", "hypothesis", "coverage", "setuptools"]
STANDIN_MODS = ["sphinx", "IPython", "numpy", "nose", "docutils", "tox"]
STANDIN_SRC = "# empty stand-in for an installed third-party package (harness/props/c18.py)\n__version__ = '0'\n"
_installed = {}


def installed(mod):
    if mod not in _installed:
        _installed[mod] = subprocess.run([common.PY, "-c", f"import importlib.util, sys; sys.exit(0 if importlib.util.find_spec('{mod}') else 1)"],
                                         capture_output=True).returncode == 0
    return _installed[mod]


def gen_imports(rnd, force=None):
    """1-3 imports: (position, class, module); position 'before'/'after' the import of pysnark"""
    out = []
    for _ in range(rnd.choice([1, 1, 2, 3])):
        cls = force or rnd.choice(["stdlib", "third-party", "stand-in", "stand-in"])
        have = [m for m in THIRD_PARTY if installed(m)] if cls == "third-party" else []
        if cls == "third-party" and not have:
            cls = "stand-in"
        mod = rnd.choice(STDLIB_MODS if cls == "stdlib" else have if cls == "third-party" else STANDIN_MODS)
        if not any(m == mod for _, _, m in out):
            out.append((rnd.choice(["before", "after"]), cls, mod))
    return out


def import_class(imports):
    return "+".join(sorted({c for _, c, _ in imports})) or "none"


def script_src(autoprove, n, k, caught, term, env="", imports=()):
    """env: what the application installed around the import of pysnark (see ENVS); imports: other modules the script imports"""
    L = ["import sys, os"] + [f"import {m}" for w, _, m in imports if w == "before"] + (ENV_SRC[env] if env in ENV_SRC else []) + \
        ["import pysnark.runtime as R", "from pysnark.runtime import PrivVal"] + [f"import {m}" for w, _, m in imports if w == "after"] + \
        (ENV_SRC["hook-chain"] if env == "hook-after-import" else []) + [f"R.autoprove = {bool(autoprove)}"]
    for c in caught:
        L += ["try:", f"    sys.exit({ARGS[c]})", "except SystemExit:", "    pass"]
    for i in range(n):
        if i == k and term != "fall":
            L.append(term_src(term))
        L.append(f"x{i} = PrivVal({i + 2}) * PrivVal(3)")
    if k == n and term != "fall":
        L.append(term_src(term))
    return "\n".join(L) + "\n"


def run_one(job):
    backend, src = job[0], job[1]
    standins = job[2] if len(job) > 2 else []
    d = tempfile.mkdtemp(prefix="verif-c18-")
    lib = tempfile.mkdtemp(prefix="verif-c18-lib-") if standins else None
    try:
        open(os.path.join(d, "s.py"), "w").write(src)
        env = common.backend_env(backend)
        env["PYTHONPATH"] = os.pathsep.join([p for p in [env.get("PYTHONPATH", ""), common.REPO, lib] if p])
        for m in standins:              # empty modules named like widespread packages, outside the script's directory
            open(os.path.join(lib, m + ".py"), "w").write(STANDIN_SRC)
        pr = subprocess.run([common.PY, "s.py"], cwd=d, env=env, capture_output=True, text=True, timeout=120)
        files = sorted(os.listdir(d))
        out = {"status": pr.returncode, "files": files, "stderr": pr.stderr[-2000:], "stdout": pr.stdout[-500:]}
        if backend == "snarkjs" and "witness.wtns" in files:
            try:
                out["nwit"] = len(r1csread.read_wtns(open(os.path.join(d, "witness.wtns"), "rb").read())["values"])
                out["ncons"] = r1csread.read_r1cs(open(os.path.join(d, "circuit.r1cs"), "rb").read())["ncons"]
            except Exception as e:
                out["decode_error"] = str(e)
        return out
    finally:
        shutil.rmtree(d, ignore_errors=True)
        if lib: shutil.rmtree(lib, ignore_errors=True)


def gen(rnd, nq):
    terms = ["fall", "sysexit", "uncaught", "kbd", "osexit=0", "osexit=5"] + \
            [f"sysexit={a}" for a in ARGS if a not in NONINT] + [f"raise={a}" for a in ("none", "i:0", "i:3", "s:1", "b:1")] + \
            [f"builtin={a}" for a in ("none", "i:0", "i:1", "i:3")] + [f"sysexit={a}" for a in NONINT]
    out = []
    for t in terms:                                   # every termination mode at least once
        n = rnd.randrange(1, 4); k = n if t == "fall" else rnd.randrange(0, n + 1)
        out.append((1, n, k, [], t, "", []))
    for cls in ("stdlib", "third-party", "stand-in", "stand-in", None):   # other modules imported: successful and failing ends
        for t in ("fall", "sysexit", "sysexit=i:0", "uncaught", "sysexit=i:1"):
            n = rnd.randrange(1, 4); k = n if t == "fall" else rnd.randrange(0, n + 1)
            out.append((1, n, k, [], t, "", gen_imports(rnd, cls)))
    for env in NONRETURNING:                          # a hook that does not return meets both kinds of uncaught exception twice
        for t in ("uncaught", "kbd", "uncaught"):
            n = rnd.randrange(1, 4); k = rnd.randrange(0, n + 1)
            out.append((1, n, k, [], t, env, []))
    for env in ENVS:                                  # every application environment meets every well-behaved termination
        for t in ("uncaught", "kbd", "sysexit=i:1", "sysexit", "fall"):
            n = rnd.randrange(1, 4); k = n if t == "fall" else rnd.randrange(0, n + 1)
            out.append((1, n, k, [], t, env, []))
    while len(out) < nq:
        t = rnd.choice(terms)
        n = rnd.randrange(0, 5); k = n if t == "fall" else rnd.randrange(0, n + 1)
        caught = [rnd.choice(["i:3", "i:0", "none", "s:1"]) for _ in range(rnd.choice([0, 0, 0, 1, 2]))]
        out.append((rnd.choice([1, 1, 1, 0]), n, k, caught, t, rnd.choice(ENVS) if rnd.random() < 0.35 else "",
                    gen_imports(rnd) if rnd.random() < 0.2 else []))
    return out


def explore(ctx, extended=False, focus=None):
    ex = Exploration()
    ex.rule = ("scripts = k traced operations, a termination event, n-k unreachable operations, optional earlier caught sys.exit calls; "
               "every termination mode (fall off the end; sys.exit with no argument/None/0/non-zero/256/-1/str/''/True/False/[]/[1]/0.0/2.5; "
               "sys.exit with digit strings/bytes/fractional, negative-zero and non-finite floats/IntEnum members/objects with __int__ or __index__/tuples; "
               "raise SystemExit; builtin exit; uncaught exception; KeyboardInterrupt; os._exit) at least once, then random combinations "
               "with position, autoprove on/off and caught exits, on each file-writing backend; distinct = (autoprove, n, k, caught, "
               "termination, backend)")
    scripts = gen(ctx.rnd, ctx.n(120, 1400) * (2 if extended else 1))
    jobs = []; meta = []
    for i, (ap, n, k, caught, t, env, imps) in enumerate(scripts):
        bes = BACKENDS if (i < 30 or ctx.thorough()) else [ctx.rnd.choice(BACKENDS)]
        for be in bes:
            jobs.append((be, script_src(ap, n, k, caught, t, env, imps), [m for _, c, m in imps if c == "stand-in"]))
            meta.append((ap, n, k, caught, t, be, env, imps))
    with cf.ThreadPoolExecutor(14) as pool:
        outs = list(pool.map(run_one, jobs))
    lines = [f"X|x{i}|{ap}|0|{n}|{k}|{','.join(caught)}|{model_term(t)}" for i, (ap, n, k, caught, t, be, env, imps) in enumerate(meta)]
    ml = common.lean_driver(lines)
    for (ap, n, k, caught, t, be, env, imps), o, m in zip(meta, outs, ml):
        ex.evaluations += 1
        ex.distinct.add((ap, n, k, tuple(caught), t, be, env, tuple(imps)))
        ex.count(f"imports:{import_class(imps)}")
        for _, _, mod in imps: ex.count(f"imported:{mod}")
        ex.count(f"term:{t.split('=')[0]}"); ex.count(f"backend:{be}"); ex.count(f"autoprove:{ap}"); ex.count(f"env:{env or 'none'}")
        mf = dict(x.split("=") for x in m.split("|")[1:])
        emitted = ARTEFACT[be] in o["files"]
        status = o["status"] if o["status"] >= 0 else 128 - o["status"]        # death by signal n -> 128+n as a shell reports it
        hookfail = "AttributeError" in o["stderr"] and "process_snark" in o["stderr"]
        skipped = "skipping proof generation" in o["stderr"]
        impl = {"status": status, "prove": int(emitted), "hookfail": int(hookfail), "skipped": int(skipped)}
        model = {"status": int(mf["status"]), "prove": int(mf["prove"]), "hookfail": int(mf["hookfail"]), "skipped": int(mf["skipped"])}
        # a foreign hook that does not return decides the status of a run that died of an exception: not the model's business
        hook_decides = env in NONRETURNING and t in EXC_TERMS
        if hook_decides:
            ex.count(f"nonreturning-hook-met:{t}")
            model["status"] = impl["status"]
            if env == "hook-hard-exit": model["skipped"] = 0         # os._exit in the hook: no exit hooks run at all
        if impl != model:
            ex.disagreements.append({"script": (ap, n, k, caught, t, be, env, imps), "impl": impl, "model": model, "stderr": o["stderr"][-300:]})
        else:
            ex.traces_validated += 1
        sig = {"term": t.split("=")[0], "arg": arg_class(t.split("=")[1]) if "=" in t else "", "caught": bool(caught), "autoprove": ap,
               "env": env or "none"}
        if imps:
            sig["imports"] = import_class(imps)
        rep = {"autoprove": ap, "n": n, "k": k, "caught": caught, "term": t, "backend": be, "env": env, "observed": impl,
               "script": script_src(ap, n, k, caught, t, env, imps), "imports": imps, "standins": [m for _, c, m in imps if c == "stand-in"]}
        if "=" in t and t.split("=")[1] in NONINT:
            ex.count(f"exit-argument-class:{arg_class(t.split('=')[1])}")
            t = f"{t} [{term_src(t)}]"
        if ap:
            if emitted and status != 0:
                ex.violations.append(Violation(dict(sig, dev="emitted-with-failing-status"),
                                               f"{t} after {k} operations{' (application environment: ' + env + ')' if env else ''}: exit status {status} but "
                                               f"{ARTEFACT[be]} was written ({be})", rep))
            if emitted and status == 0 and t in EXC_TERMS:
                ex.violations.append(Violation(dict(sig, dev="emitted-after-uncaught-exception"),
                                               f"{t} after {k} operations (application environment: {env or 'none'}): the script ended through an "
                                               f"uncaught exception, the process left with status 0 and {ARTEFACT[be]} was written ({be})", rep))
            if not emitted and status == 0 and not t.startswith("osexit") and not hook_decides:
                ex.violations.append(Violation(dict(sig, dev="not-emitted-with-status-0"),
                                               f"{t} after {k} operations (caught exits {caught}{', imports ' + ', '.join(m for _, _, m in imps) if imps else ''}): "
                                               f"exit status 0 but no artefact ({be})", rep))
            if emitted and be == "snarkjs" and "nwit" in o and (o["nwit"], o["ncons"]) != (1 + 3 * k, k):
                ex.violations.append(Violation(dict(sig, dev="incomplete-trace"),
                                               f"{t}: artefact holds {o['nwit']} wires/{o['ncons']} constraints, the trace before the event has "
                                               f"{1 + 3 * k}/{k}", rep))
            if o["stderr"].count("snarkjs witness.wtns and circuit.r1cs written") > 1:
                ex.violations.append(Violation(dict(sig, dev="proved-twice"), f"{t}: prove() ran more than once", rep))
        else:
            if emitted:
                ex.violations.append(Violation(dict(sig, dev="emitted-with-autoprove-off"), f"{t}: artefact written with autoprove off ({be})", rep))
            if hookfail:
                ex.violations.append(Violation(dict(sig, dev="hook-fails"),
                                               f"{t}: with autoprove off the exit hook raises AttributeError (backend.process_snark)", rep))
        if len(ex.samples) < 5:
            ex.samples.append({"script": rep["script"], "backend": be, "observed": impl})
    return ex


def replay(ctx, payload):
    r = payload["replay"]
    print(run_one((r["backend"], r["script"], r.get("standins", []))))
    return 0
