"""C18 — proof artefacts are emitted at exit only for successful runs, and completely."""
import concurrent.futures as cf
import os, shutil, subprocess, tempfile
from .. import common, r1csread
from ..framework import Exploration, Violation

ASSUMPTIONS = ["one fresh interpreter per (termination mode, argument, position, autoprove, earlier caught exits, backend) in a scratch "
               "cwd: exit status, stderr classification, artefact presence and (snarkjs) decoded artefact = trace prefix",
               "CPython's shutdown rules (which exits reach sys.exit / sys.excepthook, atexit ordering, status of each SystemExit "
               "argument) are modelled in Model/AtExit.lean and validated only by this correspondence",
               "application environment: a third of the scripts first install what an application or an IDE would: their own "
               "sys.excepthook before pysnark is imported (chaining to the previous hook / replacing it / a bound method of an object), "
               "their own sys.exit wrapper before the import, both, or a chaining excepthook installed AFTER the import; every such "
               "environment meets an uncaught exception, KeyboardInterrupt, sys.exit(1), sys.exit() and a normal end at least once. The "
               "model has no notion of foreign hooks: the observed (status, artefact, messages) must equal the model's for the same "
               "script without them, i.e. the interposition must work whatever hook was there before",
               "file-writing backends: snarkjs, zkinterface (flatbuffers stand-in), qaptools (failing stub binaries: the artefact "
               "observed is pysnark_schedule, written by prove() before the first external tool)"]
PARTIAL = ["C18_emit_iff_partial: termination events in the well-behaved set (fall off the end, sys.exit(...), uncaught exception, "
           "KeyboardInterrupt), no earlier caught sys.exit; closed counterexamples for raise SystemExit / builtin exit / caught exits / "
           "sys.exit(256) / sys.exit(0.0)"]
BACKENDS = ["snarkjs", "zkinterface", "qaptools"]
ARTEFACT = {"snarkjs": "witness.wtns", "zkinterface": "computation.zkif", "qaptools": "pysnark_schedule"}

ARGS = {"none": "None", "i:0": "0", "i:1": "1", "i:3": "3", "i:256": "256", "i:-1": "-1", "s:1": "'boom'", "s:0": "''",
        "b:1": "True", "b:0": "False", "o:0": "[]", "o:1": "[1]", "f:0": "0.0", "f:1": "2.5"}


def term_src(term):
    if term == "fall": return None
    if term == "sysexit": return "sys.exit()"
    if term == "uncaught": return "raise ValueError('boom')"
    if term == "kbd": return "raise KeyboardInterrupt"
    kind, arg = term.split("=", 1)
    if kind == "sysexit": return f"sys.exit({ARGS[arg]})"
    if kind == "raise": return f"raise SystemExit({ARGS[arg]})"
    if kind == "builtin": return f"exit({ARGS[arg]})"
    if kind == "osexit": return f"os._exit({arg})"
    raise ValueError(term)


ENVS = ["hook-chain", "hook-replace", "hook-method", "exit-wrap", "hook-chain+exit-wrap", "hook-after-import"]
ENV_SRC = {
    "hook-chain": ["_prev_hook = sys.excepthook", "def _app_hook(tp, ex, tb):", "    sys.stderr.write('app: uncaught %s\\n' % tp.__name__)",
                   "    _prev_hook(tp, ex, tb)", "sys.excepthook = _app_hook"],
    "hook-replace": ["def _app_hook(tp, ex, tb):", "    sys.stderr.write('app: fatal %s: %s\\n' % (tp.__name__, ex))", "sys.excepthook = _app_hook"],
    "hook-method": ["class _Reporter:", "    def __init__(self): self.prev = sys.excepthook", "    def report(self, tp, ex, tb):",
                    "        sys.stderr.write('reporter: %s\\n' % tp.__name__); self.prev(tp, ex, tb)", "sys.excepthook = _Reporter().report"],
    "exit-wrap": ["_prev_exit = sys.exit", "def _app_exit(*a):", "    sys.stderr.write('app: leaving\\n'); _prev_exit(*a)", "sys.exit = _app_exit"],
}
ENV_SRC["hook-chain+exit-wrap"] = ENV_SRC["hook-chain"] + ENV_SRC["exit-wrap"]


def script_src(autoprove, n, k, caught, term, env=""):
    """env: what the application installed around the import of pysnark (see ENVS)"""
    L = ["import sys, os"] + (ENV_SRC[env] if env in ENV_SRC else []) + \
        ["import pysnark.runtime as R", "from pysnark.runtime import PrivVal"] + \
        (ENV_SRC["hook-chain"] if env == "hook-after-import" else []) + [f"R.autoprove = {bool(autoprove)}"]
    for c in caught:
        L += ["try:", f"    sys.exit({ARGS[c]})", "except SystemExit:", "    pass"]
    for i in range(n):
        if i == k and term != "fall":
            L.append(term_src(term))
        L.append(f"x{i} = PrivVal({i + 2}) * PrivVal(3)")
    if k == n and term != "fall":
        L.append(term_src(term))
    return "\n".join(L) + "\n"


def run_one(job):
    backend, src = job
    d = tempfile.mkdtemp(prefix="verif-c18-")
    try:
        open(os.path.join(d, "s.py"), "w").write(src)
        env = common.backend_env(backend)
        env["PYTHONPATH"] = os.pathsep.join([p for p in [env.get("PYTHONPATH", ""), common.REPO] if p])
        pr = subprocess.run([common.PY, "s.py"], cwd=d, env=env, capture_output=True, text=True, timeout=120)
        files = sorted(os.listdir(d))
        out = {"status": pr.returncode, "files": files, "stderr": pr.stderr[-2000:], "stdout": pr.stdout[-500:]}
        if backend == "snarkjs" and "witness.wtns" in files:
            try:
                out["nwit"] = len(r1csread.read_wtns(open(os.path.join(d, "witness.wtns"), "rb").read())["values"])
                out["ncons"] = r1csread.read_r1cs(open(os.path.join(d, "circuit.r1cs"), "rb").read())["ncons"]
            except Exception as e:
                out["decode_error"] = str(e)
        return out
    finally:
        shutil.rmtree(d, ignore_errors=True)


def gen(rnd, nq):
    terms = ["fall", "sysexit", "uncaught", "kbd", "osexit=0", "osexit=5"] + \
            [f"sysexit={a}" for a in ARGS] + [f"raise={a}" for a in ("none", "i:0", "i:3", "s:1", "b:1")] + \
            [f"builtin={a}" for a in ("none", "i:0", "i:1", "i:3")]
    out = []
    for t in terms:                                   # every termination mode at least once
        n = rnd.randrange(1, 4); k = n if t == "fall" else rnd.randrange(0, n + 1)
        out.append((1, n, k, [], t, ""))
    for env in ENVS:                                  # every application environment meets every well-behaved termination
        for t in ("uncaught", "kbd", "sysexit=i:1", "sysexit", "fall"):
            n = rnd.randrange(1, 4); k = n if t == "fall" else rnd.randrange(0, n + 1)
            out.append((1, n, k, [], t, env))
    while len(out) < nq:
        t = rnd.choice(terms)
        n = rnd.randrange(0, 5); k = n if t == "fall" else rnd.randrange(0, n + 1)
        caught = [rnd.choice(["i:3", "i:0", "none", "s:1"]) for _ in range(rnd.choice([0, 0, 0, 1, 2]))]
        out.append((rnd.choice([1, 1, 1, 0]), n, k, caught, t, rnd.choice(ENVS) if rnd.random() < 0.35 else ""))
    return out


def explore(ctx, extended=False, focus=None):
    ex = Exploration()
    ex.rule = ("scripts = k traced operations, a termination event, n-k unreachable operations, optional earlier caught sys.exit calls; "
               "every termination mode (fall off the end; sys.exit with no argument/None/0/non-zero/256/-1/str/''/True/False/[]/[1]/0.0/2.5; "
               "raise SystemExit; builtin exit; uncaught exception; KeyboardInterrupt; os._exit) at least once, then random combinations "
               "with position, autoprove on/off and caught exits, on each file-writing backend; distinct = (autoprove, n, k, caught, "
               "termination, backend)")
    scripts = gen(ctx.rnd, ctx.n(120, 1400) * (2 if extended else 1))
    jobs = []; meta = []
    for i, (ap, n, k, caught, t, env) in enumerate(scripts):
        bes = BACKENDS if (i < 30 or ctx.thorough()) else [ctx.rnd.choice(BACKENDS)]
        for be in bes:
            jobs.append((be, script_src(ap, n, k, caught, t, env))); meta.append((ap, n, k, caught, t, be, env))
    with cf.ThreadPoolExecutor(14) as pool:
        outs = list(pool.map(run_one, jobs))
    lines = [f"X|x{i}|{ap}|0|{n}|{k}|{','.join(caught)}|{t}" for i, (ap, n, k, caught, t, be, env) in enumerate(meta)]
    ml = common.lean_driver(lines)
    for (ap, n, k, caught, t, be, env), o, m in zip(meta, outs, ml):
        ex.evaluations += 1
        ex.distinct.add((ap, n, k, tuple(caught), t, be, env))
        ex.count(f"term:{t.split('=')[0]}"); ex.count(f"backend:{be}"); ex.count(f"autoprove:{ap}"); ex.count(f"env:{env or 'none'}")
        mf = dict(x.split("=") for x in m.split("|")[1:])
        emitted = ARTEFACT[be] in o["files"]
        status = o["status"] if o["status"] >= 0 else 128 - o["status"]        # death by signal n -> 128+n as a shell reports it
        hookfail = "AttributeError" in o["stderr"] and "process_snark" in o["stderr"]
        skipped = "skipping proof generation" in o["stderr"]
        impl = {"status": status, "prove": int(emitted), "hookfail": int(hookfail), "skipped": int(skipped)}
        model = {"status": int(mf["status"]), "prove": int(mf["prove"]), "hookfail": int(mf["hookfail"]), "skipped": int(mf["skipped"])}
        if impl != model:
            ex.disagreements.append({"script": (ap, n, k, caught, t, be, env), "impl": impl, "model": model, "stderr": o["stderr"][-300:]})
        else:
            ex.traces_validated += 1
        sig = {"term": t.split("=")[0], "arg": t.split("=")[1] if "=" in t else "", "caught": bool(caught), "autoprove": ap,
               "env": env or "none"}
        rep = {"autoprove": ap, "n": n, "k": k, "caught": caught, "term": t, "backend": be, "env": env, "observed": impl,
               "script": script_src(ap, n, k, caught, t, env)}
        if ap:
            if emitted and status != 0:
                ex.violations.append(Violation(dict(sig, dev="emitted-with-failing-status"),
                                               f"{t} after {k} operations{' (application environment: ' + env + ')' if env else ''}: exit status {status} but "
                                               f"{ARTEFACT[be]} was written ({be})", rep))
            if not emitted and status == 0 and not t.startswith("osexit"):
                ex.violations.append(Violation(dict(sig, dev="not-emitted-with-status-0"),
                                               f"{t} after {k} operations (caught exits {caught}): exit status 0 but no artefact ({be})", rep))
            if emitted and be == "snarkjs" and "nwit" in o and (o["nwit"], o["ncons"]) != (1 + 3 * k, k):
                ex.violations.append(Violation(dict(sig, dev="incomplete-trace"),
                                               f"{t}: artefact holds {o['nwit']} wires/{o['ncons']} constraints, the trace before the event has "
                                               f"{1 + 3 * k}/{k}", rep))
            if o["stderr"].count("snarkjs witness.wtns and circuit.r1cs written") > 1:
                ex.violations.append(Violation(dict(sig, dev="proved-twice"), f"{t}: prove() ran more than once", rep))
        else:
            if emitted:
                ex.violations.append(Violation(dict(sig, dev="emitted-with-autoprove-off"), f"{t}: artefact written with autoprove off ({be})", rep))
            if hookfail:
                ex.violations.append(Violation(dict(sig, dev="hook-fails"),
                                               f"{t}: with autoprove off the exit hook raises AttributeError (backend.process_snark)", rep))
        if len(ex.samples) < 5:
            ex.samples.append({"script": script_src(ap, n, k, caught, t, env), "backend": be, "observed": impl})
    return ex


def replay(ctx, payload):
    r = payload["replay"]
    print(run_one((r["backend"], r["script"])))
    return 0
