"""C19 — the backend in use is the one the configuration names."""
import concurrent.futures as cf
import json, os, shutil, subprocess, tempfile
from .. import common
from ..framework import Exploration, Violation

ASSUMPTIONS = ["one fresh interpreter per configuration (PYSNARK_BACKEND value, set of pre-imported backend modules, set of modules made "
               "unloadable by an import-blocking finder, IPython flag through a get_ipython stub); it imports pysnark.runtime and reports "
               "backend_name, the module receiving the constraints, get_modulus(), the interface attributes and the messages printed",
               "the real libsnark extension is not installed. Two classes of configuration: (i) the sandbox as it is: the libsnark modules "
               "are in the unloadable set; (ii) `libsnark_stub`: harness/stubs (a recording STAND-IN package `libsnark`, pure Python, "
               "which is NOT libsnark: it keeps the protoboard as data and logs which proof-system entry points are called, zk_* = "
               "Pinocchio family, zkgg_* = Groth16 family, and tags the keys/proofs it hands out) is put on PYTHONPATH of the child only; "
               "pysnark/libsnark/backend.py and backendgg.py are then imported and selected by pysnark's own code, a small circuit is "
               "traced and the proving step is driven the way runtime.final() drives it (autoprove, then the keygen / prove / verify "
               "operations of process_snark); oracle: the family of entry points driven and the tags in pysnark_vk / pysnark_log are "
               "those of the proof system the reported backend name stands for (libsnark: Pinocchio, libsnarkgg: Groth16), never both. "
               "What real libsnark does with the calls is outside this check",
               "entry points (stand-in importable): besides the sequence above, every entry point of pysnark/libsnark/backend.py is driven "
               "in an interpreter that has done nothing else (exit hook with autoprove on / operation keygen, prove, verify; "
               "runtime.final(); prove() and its flags; process_snark; keygen_only, prove_only, verify_only), for libsnark and "
               "libsnarkgg selected by PYSNARK_BACKEND, by pre-import and by auto-detection; multi-step flows share a directory; "
               "per step: family of zk_*/zkgg_* calls, tags of keys/proofs handed in and of the files = family of the name reported",
               "the documented auto-detection order is the literal DOCUMENTED_ORDER (not the registry extracted from the source): "
               "README.md 'If the libsnark backend is available, it will be imported and used by default.', 'By default, if available, "
               "the libsnark backend will be used.', Groth16 only 'by using the libsnarkgg backend: PYSNARK_BACKEND=libsnarkgg ...', "
               "'(on Windows, simply run `python3 cube.py 33` since `qaptools` is the only available backend)'; the order of the "
               "remaining entries is the registry of the pinned baseline 42fe8ea. Loadability is varied by what is installed: the "
               "libsnark stand-in on the path or not, QAPTOOLS_BIN = the stub directory or an empty one, the flatbuffers stand-in on "
               "the path or not, and the import-blocking finder",
               "flatbuffers is the stand-in; the qaptools binaries are failing stubs: CPython's import machinery is modelled in "
               "Model/Select.lean and validated only here"]
PARTIAL = ["C19_name_identifies_partial excludes configurations with a pre-imported derived backend module (finding C19-derived-preimport)"]
INTERFACE = ["privval", "pubval", "zero", "one", "fieldinverse", "get_modulus", "add_constraint", "prove"]
NEVER = ["pysnark.libsnark.backend", "pysnark.libsnark.backendgg"]
PROOF_SYSTEM = {"libsnark": "pinocchio", "libsnarkgg": "groth16"}       # what each registry name stands for (README)
STUB_LOG = "libsnark_stub_calls.jsonl"
# The DOCUMENTED auto-detection order, pinned here as a literal: the registry in Gen/Constants.lean is regenerated from
# pysnark/runtime.py on every run, so it follows a change of the source and cannot be the yardstick for "first loadable
# backend in the documented order".  Sources (README.md of the pinned tree, = docs/README.md):
#   * "If the libsnark backend is available, it will be imported and used by default." / "By default, if available, the
#     libsnark backend will be used."  -> libsnark is the head of the order, before every other backend;
#   * "PySNARK with libsnark can use the more recent Groth16 proof system instead of traditional Pinocchio proofs by using the
#     libsnarkgg backend: ... PYSNARK_BACKEND=libsnarkgg python3 cube.py 3"  -> Groth16 only on request: libsnarkgg after libsnark;
#   * Installation section lists the optional backends as libsnark, qaptools, snarkjs; "(on Windows, simply run `python3
#     cube.py 33` since `qaptools` is the only available backend)" -> qaptools is found by auto-detection when libsnark is not;
#   * every zkinterface variant appears in the README only with an explicit PYSNARK_BACKEND=...; nobackend is the last resort
#     ("nobackend" branch of the Binder notebook).  The relative order of these tail entries is the registry of the pinned
#     baseline (pysnark/runtime.py l.10-19 at 42fe8ea), recorded here by hand.
DOCUMENTED_ORDER = ["libsnark", "libsnarkgg", "qaptools", "snarkjs", "zkinterface", "zkifbellman", "zkifbulletproofs", "nobackend"]
ZKIF_MODS = ["pysnark.zkinterface.backend", "pysnark.zkinterface.backendbellman", "pysnark.zkinterface.backendbulletproofs"]
QAP_MOD = "pysnark.qaptools.backend"
# Entry points of pysnark/libsnark/backend.py (and whatever backendgg exposes under the same names), each driven in a FRESH
# interpreter: action -> proof-system specific stand-in functions (without the zk_/zkgg_ prefix) it has to reach
ACTIONS = {"exit:autoprove": ["prover"], "exit:keygen": ["generator"], "exit:prove": ["prover"], "exit:verify": ["verifier_strong_IC"],
           "final:autoprove": ["prover"], "final:keygen": ["generator"], "final:prove": ["prover"], "final:verify": ["verifier_strong_IC"],
           "call:prove": ["prover"], "call:prove-nokeygen": ["prover"], "call:prove-quiet": ["prover"],
           "call:process_snark:keygen": ["generator"], "call:process_snark:prove": ["prover"], "call:process_snark:verify": ["verifier_strong_IC"],
           "call:keygen_only": ["generator"], "call:prove_only": ["prover"], "call:verify_only": ["verifier_strong_IC"]}
KNOWN_PUBLIC = {"privval", "pubval", "zero", "one", "fieldinverse", "get_modulus", "add_constraint", "prove", "process_snark", "keygen_only",
                "prove_only", "verify_only", "make_pubvals_file", "create_pubvals_from_file"}
# flows: steps run one after the other in ONE directory, each step in a fresh interpreter; `a+b` = two actions in one interpreter
FLOWS = [["exit:autoprove", "exit:autoprove"], ["final:autoprove"], ["call:prove", "call:prove-nokeygen"], ["call:prove-quiet"],
         ["exit:keygen", "exit:prove", "exit:verify"], ["final:keygen", "final:prove", "final:verify"],
         ["call:process_snark:keygen", "call:process_snark:prove", "call:process_snark:verify"],
         ["call:keygen_only", "call:prove_only", "call:verify_only"],
         ["exit:keygen", "call:prove_only", "final:verify"], ["call:keygen_only", "exit:prove", "call:process_snark:verify"],
         ["call:process_snark:keygen+call:prove"], ["call:keygen_only+exit:autoprove"], ["exit:keygen", "call:prove_only+call:prove"]]
EDGES = {"pysnark.zkinterface.backendbellman": ["pysnark.zkinterface.backend"],
         "pysnark.zkinterface.backendbulletproofs": ["pysnark.zkinterface.backend"],
         "pysnark.libsnark.backendgg": ["pysnark.libsnark.backend"]}

CHILD = r'''
import sys, os, json, importlib, importlib.abc, io, contextlib
cfg = json.loads(sys.argv[1])
class Block(importlib.abc.MetaPathFinder):
    def find_spec(self, name, path, target=None):
        if name in cfg["unloadable"]:
            raise ImportError("blocked by the harness: " + name)
        return None
sys.meta_path.insert(0, Block())
if cfg["ipython"]:
    import builtins
    builtins.get_ipython = lambda: None
out = {}
buf = io.StringIO()
try:
    with contextlib.redirect_stdout(buf):
        for m in cfg["pre"]:
            importlib.import_module(m)
        import pysnark.runtime as R
    R.autoprove = False
    out["name"] = R.backend_name
    out["module"] = None if R.backend is None else R.backend.__name__
    if R.backend is not None:
        out["modulus"] = R.backend.get_modulus() if hasattr(R.backend, "get_modulus") else None
        out["missing"] = [a for a in %r if not callable(getattr(R.backend, a, None))]
    if cfg.get("step") and R.backend is not None and R.backend.__name__.startswith("pysnark.libsnark."):
        # ONE step of a flow: this interpreter has done nothing but select the backend and trace the circuit
        B = R.backend
        out["public"] = sorted(n for n, f in vars(B).items() if callable(f) and not n.startswith("_")
                               and str(getattr(f, "__module__", "")).startswith("pysnark.libsnark"))
        with contextlib.redirect_stdout(buf), contextlib.redirect_stderr(buf):
            from pysnark.runtime import PubVal, PrivVal
            if cfg.get("circuit") != "empty":
                x = PubVal(3); y = PrivVal(4); z = x * y; z.assert_eq(12)
        files3 = {"keygen": ("pysnark_pk", "pysnark_vk"), "prove": ("pysnark_pk", "pysnark_proof", "pysnark_pubvals"),
                  "verify": ("pysnark_vk", "pysnark_pubvals", "pysnark_proof")}
        res = {}
        at_exit = False
        for act in cfg["step"].split("+"):
            kind, _, arg = act.partition(":")
            try:
                with contextlib.redirect_stdout(buf), contextlib.redirect_stderr(buf):
                    if kind in ("exit", "final"):
                        R.autoprove = (arg == "autoprove"); R.operation = None if arg == "autoprove" else arg; R.namevals = {}
                        if kind == "final":
                            R.final(); R.autoprove = False; R.operation = None
                        else:
                            at_exit = True
                    elif arg == "prove": B.prove()
                    elif arg == "prove-nokeygen": B.prove(do_keygen=False)
                    elif arg == "prove-quiet": B.prove(True, False, False)
                    elif arg.startswith("process_snark:"): B.process_snark(arg.split(":")[1], {})
                    elif arg == "keygen_only": B.keygen_only(*files3["keygen"])
                    elif arg == "prove_only": B.prove_only(*files3["prove"])
                    elif arg == "verify_only": res["verified"] = B.verify_only(*files3["verify"])
                    else: raise KeyError("harness: unknown action " + act)
                res[act] = "left-to-the-exit-hook" if at_exit else "ok"
            except BaseException as e:
                res[act] = type(e).__name__ + ": " + str(e)[:100]
        out["step_result"] = res
        out["stdout"] = buf.getvalue()[-1500:]
        print("@@" + json.dumps(out)); sys.stdout.flush()
        if not at_exit:
            os._exit(0)
        out = None               # the interpreter ends the ordinary way: pysnark's own exit hook drives the backend
    elif cfg.get("libsnark_stub") and R.backend is not None and R.backend.__name__.startswith("pysnark.libsnark."):
        # drive the proving step as runtime.final() does: the exit hook with autoprove, then the three process_snark operations
        drive = {}
        with contextlib.redirect_stdout(buf), contextlib.redirect_stderr(buf):
            from pysnark.runtime import PubVal, PrivVal
            x = PubVal(3); y = PrivVal(4); z = x * y; z.assert_eq(12)
            for step, (auto, op) in enumerate([(True, None), (False, "keygen"), (False, "prove"), (False, "verify")]):
                R.autoprove = auto; R.operation = op; R.namevals = {}
                try:
                    R.final(); drive[op or "autoprove"] = "ok"
                except BaseException as e:
                    drive[op or "autoprove"] = type(e).__name__ + ": " + str(e)[:100]
        R.autoprove = False
        out["drive"] = drive
        try:
            out["calls"] = [json.loads(l) for l in open(%r)]
        except OSError:
            out["calls"] = []
        tags = {}
        for fn, path in (("pysnark_vk", ["system"]), ("pysnark_ek", ["system"]), ("pysnark_log", ["proof", "system"]), ("pysnark_pk", ["system"]),
                         ("pysnark_proof", ["system"])):
            try:
                v = json.load(open(fn))
                for k in path: v = v[k]
                tags[fn] = v
            except Exception as e:
                tags[fn] = None
        out["tags"] = tags
except BaseException as e:
    out["error"] = type(e).__name__
    out["errmsg"] = str(e)[:200]
if out is not None:
    out["stdout"] = buf.getvalue()[-1500:]
    print("@@" + json.dumps(out))
    os._exit(0)
''' % (INTERFACE, STUB_LOG)


def closure_unloadable(unl):
    s = set(unl)
    changed = True
    while changed:
        changed = False
        for d, bases in EDGES.items():
            if d not in s and any(b in s for b in bases):
                s.add(d); changed = True
    return sorted(s)


def closure_pre(pre):
    out = []
    for m in pre:
        for b in EDGES.get(m, []):
            if b not in out: out.append(b)
        if m not in out: out.append(m)
    return out


def eff_unloadable(cfg):
    """modules whose import fails in this configuration: blocked by the finder, or naturally (package / executables absent)"""
    unl = set(cfg["unloadable"])
    if not cfg.get("libsnark_stub"): unl |= set(NEVER)                 # no `libsnark` package: ModuleNotFoundError
    if cfg.get("no_fbshim"): unl |= set(ZKIF_MODS)                     # no `flatbuffers` package
    if cfg.get("no_qaptools"): unl.add(QAP_MOD)                        # QAPTOOLS_BIN names a directory without qapgen
    return closure_unloadable(unl)


TAG_FILES = (("pysnark_vk", ["system"]), ("pysnark_ek", ["system"]), ("pysnark_log", ["proof", "system"]), ("pysnark_pk", ["system"]),
             ("pysnark_proof", ["system"]))


def run_child(cfg, d, log=None):
    env = dict(os.environ)
    env["PYTHONDONTWRITEBYTECODE"] = "1"
    env.pop("PYSNARK_BACKEND", None)
    if cfg["env"] is not None:
        env["PYSNARK_BACKEND"] = cfg["env"]
    env["QAPTOOLS_BIN"] = common.stub_dir("qaptools")
    if cfg.get("no_qaptools"):
        env["QAPTOOLS_BIN"] = os.path.join(d, "no-qaptools-here"); os.makedirs(env["QAPTOOLS_BIN"], exist_ok=True)
    env["PYTHONPATH"] = os.pathsep.join(([] if cfg.get("no_fbshim") else [os.path.join(common.HARNESS, "fbshim")]) + [common.REPO] +
                                        ([common.stub_dir("")] if cfg.get("libsnark_stub") else []))     # stand-in `libsnark`: child only
    env.pop("LIBSNARK_STUB_LOG", None)
    if log: env["LIBSNARK_STUB_LOG"] = log
    pr = subprocess.run([common.PY, "-c", CHILD, json.dumps(cfg)], cwd=d, env=env, capture_output=True, text=True, timeout=120)
    for l in pr.stdout.splitlines():
        if l.startswith("@@"):
            return json.loads(l[2:]), pr
    return {"error": "no-report", "errmsg": (pr.stdout + pr.stderr)[-400:]}, pr


def run_one(cfg):
    d = tempfile.mkdtemp(prefix="verif-c19-")
    try:
        if not cfg.get("flow"):
            return run_child(cfg, d)[0]
        # a flow: every step in a fresh interpreter, all in this directory; what each step drove is read from its own log
        first = None
        steps = []
        for i, step in enumerate(cfg["flow"]):
            log = os.path.join(d, f"calls-{i}.jsonl")
            o, pr = run_child(dict(cfg, step=step), d, log)
            if first is None: first = o
            try:
                calls = [json.loads(l) for l in open(log)]
            except OSError:
                calls = []
            tags = {}
            for fn, path in TAG_FILES:
                try:
                    v = json.load(open(os.path.join(d, fn)))
                    for k in path: v = v[k]
                    tags[fn] = v
                except Exception:
                    tags[fn] = None
            res = dict(o.get("step_result") or {})
            tail = [l for l in pr.stderr.splitlines() if l.strip()]
            if "Traceback (most recent call last)" in pr.stderr:
                for a in res:
                    if res[a] == "left-to-the-exit-hook": res[a] = "raised at exit: " + (tail[-1] if tail else "")[:120]
            verdicts = [l.split("Verified ?")[1].strip() for l in ("\n".join(x for x in pr.stdout.splitlines() if not x.startswith("@@")) + "\n" + o.get("stdout", "")).splitlines()
                        if "Verified ?" in l]
            steps.append({"step": step, "name": o.get("name"), "module": o.get("module"), "error": o.get("error"), "result": res, "calls": calls,
                          "tags": tags, "verified": verdicts, "public": o.get("public"), "driven_at_all": "step_result" in o, "rc": pr.returncode})
            if "error" in o: break
        first = dict(first); first.pop("step_result", None)
        first["steps"] = steps
        return first
    finally:
        shutil.rmtree(d, ignore_errors=True)


def gen(rnd, registry, n, exhaustive):
    names = [b[0] for b in registry]; mods = [b[1] for b in registry]
    loadable_mods = [m for m in mods if m not in NEVER]
    cfgs = []
    envs = [None] + names + ["bogus", "", "SnarkJS"]
    # every env value, nothing pre-imported, nothing else blocked
    for e in envs:
        cfgs.append({"env": e, "pre": [], "unloadable": NEVER, "ipython": False})
    for m in loadable_mods:
        cfgs.append({"env": None, "pre": [m], "unloadable": NEVER, "ipython": False})
        cfgs.append({"env": rnd.choice(names), "pre": [m], "unloadable": NEVER, "ipython": False})
    cfgs.append({"env": None, "pre": [], "unloadable": NEVER, "ipython": True})
    cfgs.append({"env": "bogus", "pre": [], "unloadable": NEVER, "ipython": True})
    # the libsnark stand-in importable: every environment value alone; the libsnark modules pre-imported (base, derived, both
    # orders) with and without an environment value; other backends pre-imported while the environment names a libsnark one
    for e in envs:
        cfgs.append({"env": e, "pre": [], "unloadable": [], "ipython": False, "libsnark_stub": True})
    for pre in ([NEVER[0]], [NEVER[1]], NEVER, NEVER[::-1]):
        for e in (None, "libsnark", "libsnarkgg", rnd.choice(names)):
            cfgs.append({"env": e, "pre": list(pre), "unloadable": [], "ipython": False, "libsnark_stub": True})
    for e in ("libsnark", "libsnarkgg"):
        cfgs.append({"env": e, "pre": [rnd.choice(loadable_mods)], "unloadable": [], "ipython": False, "libsnark_stub": True})
        cfgs.append({"env": e, "pre": [], "unloadable": [rnd.choice(loadable_mods)], "ipython": rnd.random() < 0.5, "libsnark_stub": True})
    # CLASS entry points: the stand-in importable, a libsnark backend selected by the environment / by pre-import / by
    # auto-detection, and EVERY entry point of the backend driven in an interpreter that has done nothing else before
    # (the exit hook with autoprove on and with each operation, runtime.final(), prove() with its flags, process_snark,
    # keygen_only / prove_only / verify_only); multi-step flows share one directory (setup, prover, verifier)
    selections = [("libsnark", []), ("libsnarkgg", []), (None, [NEVER[0]]), (None, [NEVER[1]]), (None, NEVER), (None, NEVER[::-1]),
                  (None, []), ("bogus", []), ("libsnark", [NEVER[1]]), ("libsnarkgg", [NEVER[0]])]
    for e, pre in selections:
        for fl in FLOWS:
            cfgs.append({"env": e, "pre": list(pre), "unloadable": [], "ipython": False, "libsnark_stub": True, "flow": list(fl),
                         "circuit": "empty" if rnd.random() < 0.2 else "mul"})
    for _ in range(6):          # random mixes of steps
        e, pre = rnd.choice(selections)
        k1 = rnd.choice(["exit:keygen", "final:keygen", "call:process_snark:keygen", "call:keygen_only"])
        k2 = rnd.choice(["exit:prove", "final:prove", "call:process_snark:prove", "call:prove_only"])
        k3 = rnd.choice(["exit:verify", "final:verify", "call:process_snark:verify", "call:verify_only"])
        cfgs.append({"env": e, "pre": list(pre), "unloadable": [], "ipython": False, "libsnark_stub": True, "flow": [k1, k2, k3][:rnd.choice([1, 2, 3, 3])],
                     "circuit": rnd.choice(["mul", "mul", "empty"])})
    # CLASS loadability: nothing named (unset / unknown name), nothing pre-imported, and the set of loadable backends varied by
    # what is installed: libsnark stand-in on the path or not (absent naturally, not blocked), qaptools executables or an empty
    # directory, flatbuffers stand-in or not, optionally one more module blocked
    for e in (None, "nosuchbackend"):
        for stub in (True, False):
            for nofb in (False, True):
                for noqap in (False, True):
                    c = {"env": e, "pre": [], "unloadable": [], "ipython": False, "no_fbshim": nofb, "no_qaptools": noqap}
                    if stub: c["libsnark_stub"] = True
                    cfgs.append(c)
    for _ in range(8):
        c = {"env": rnd.choice([None, "nosuchbackend", "LibSnark", "libsnark "]), "pre": [], "ipython": rnd.random() < 0.15,
             "unloadable": rnd.sample(mods, rnd.choice([0, 1, 1, 2])), "no_fbshim": rnd.random() < 0.5, "no_qaptools": rnd.random() < 0.5}
        if rnd.random() < 0.6: c["libsnark_stub"] = True
        cfgs.append(c)
    n += 30 + 10 * len(FLOWS) + 6 + 16 + 8
    while len(cfgs) < n:
        if rnd.random() < 0.3:
            pre = rnd.sample(mods, rnd.choice([0, 0, 1, 1, 2]))
            unl = set(rnd.sample(mods, rnd.choice([0, 0, 1, 2, 3]))) - set(closure_pre(pre))
            cfgs.append({"env": rnd.choice(envs + ["libsnark", "libsnarkgg"]), "pre": pre, "unloadable": sorted(unl),
                         "ipython": rnd.random() < 0.1, "libsnark_stub": True})
            continue
        k = rnd.choice([0, 0, 1, 1, 2])
        pre = rnd.sample(loadable_mods, k)
        unl = set(NEVER) | set(rnd.sample(loadable_mods, rnd.choice([0, 0, 1, 2, 3])))
        unl -= set(closure_pre(pre))
        cfgs.append({"env": rnd.choice(envs), "pre": pre, "unloadable": sorted(unl), "ipython": rnd.random() < 0.1})
    for c in cfgs:
        c["pre"] = closure_pre(c["pre"])[-len(c["pre"]):] if False else c["pre"]
        c["unloadable"] = closure_unloadable(c["unloadable"])
    return cfgs


def explore(ctx, extended=False, focus=None):
    ex = Exploration()
    reg = ctx.consts["backends"] if ctx.consts else []
    expected_mod = {}
    if ctx.consts:
        c = ctx.consts
        expected_mod = {"qaptools": c["qaptools_p"], "snarkjs": c["snarkjs_p"], "zkinterface": c["zkif_p"], "zkifbellman": c["bellman_p"],
                        "zkifbulletproofs": c["bulletproofs_p"], "nobackend": c["nobackend_p"]}
    ex.rule = ("configurations over the registry extracted from the source: every PYSNARK_BACKEND value (each known name, unknown, empty, "
               "wrong case, unset) alone; every loadable backend module pre-imported, with and without an environment value; IPython; "
               "then random combinations of pre-imports (several, any order), environment and unloadable modules; libsnark stand-in: "
               "every entry point of the libsnark backend in a fresh interpreter (13 flows x 10 ways of selecting libsnark / libsnarkgg, "
               "plus random mixes); nothing named x {stand-in, flatbuffers, qaptools} installed or not, judged against the documented "
               "order; distinct = distinct configurations")
    cfgs = gen(ctx.rnd, reg, ctx.n(80, 1200) * (2 if extended else 1), ctx.thorough())
    with cf.ThreadPoolExecutor(14) as pool:
        outs = list(pool.map(run_one, cfgs))
    lines = []
    for i, c in enumerate(cfgs):
        pre_closed = closure_pre(c["pre"])
        lines.append(f"S|s{i}|{'-' if c['env'] is None else c['env']}|{','.join(pre_closed)}|{','.join(eff_unloadable(c))}|{int(c['ipython'])}")
    ml = common.lean_driver(lines)
    name_to_mod = dict((b[0], b[1]) for b in reg)
    doc_rank = {nm: i for i, nm in enumerate(DOCUMENTED_ORDER)}
    undriven = set()
    for c, o, m in zip(cfgs, outs, ml):
        unl = eff_unloadable(c)
        ex.evaluations += 1
        ex.distinct.add(json.dumps(c, sort_keys=True))
        ex.count("env:" + ("unset" if c["env"] is None else "known" if c["env"] in name_to_mod else "unknown"))
        ex.count(f"npre:{len(c['pre'])}")
        ex.count("libsnark:" + ("stand-in-importable" if c.get("libsnark_stub") else "not-installed"))
        ex.count("installed:" + ",".join(x for x, on in (("libsnark-stand-in", c.get("libsnark_stub")), ("flatbuffers", not c.get("no_fbshim")),
                                                          ("qaptools", not c.get("no_qaptools"))) if on))
        mf = m.split("|")
        unknown_msg = "unknown backend in environment variables" in o.get("stdout", "")
        loaderr = sorted(l.split("Error loading backend ")[1].split(":")[0] for l in o.get("stdout", "").splitlines() if "Error loading backend" in l)
        if mf[1] == "ok":
            model = ("ok", mf[2], mf[3], mf[4] == "unknown=1", sorted(x for x in mf[5][8:].split(",") if x))
            impl = ("ok", o.get("name"), o.get("module"), unknown_msg, loaderr) if "error" not in o else ("error", o.get("error"))
        elif mf[1] == "importerror":
            model = ("importerror",)
            impl = ("importerror",) if o.get("error") in ("ImportError", "ModuleNotFoundError", "RuntimeError") else ("other", o)
        else:
            model = ("nobackend",)
            impl = ("nobackend",) if o.get("error") == "AttributeError" or o.get("module") is None else ("other", o.get("name"))
        if impl != model:
            ex.disagreements.append({"config": c, "impl": str(impl)[:300], "model": str(model)[:300]})
        else:
            ex.traces_validated += 1
        rep = {"config": c, "observed": {k: o.get(k) for k in ("name", "module", "modulus", "error", "missing")}}
        if "error" in o:
            # failing loudly is right only for a known, unloadable name in the environment
            known_unloadable = c["env"] in name_to_mod and name_to_mod[c["env"]] in unl and not \
                any(mod in closure_pre(c["pre"]) for mod in name_to_mod.values())
            if not known_unloadable and o.get("error") not in (None,) and not (all(x in unl for x in name_to_mod.values())):
                if mf[1] == "ok":
                    ex.violations.append(Violation({"dev": "raises"}, f"selection raised {o.get('error')}: {o.get('errmsg', '')[:80]}", rep))
            continue
        name, module = o.get("name"), o.get("module")
        pre_closed = closure_pre(c["pre"])
        pre_reg = [mod for mod in pre_closed if mod in name_to_mod.values()]
        # (a) a pre-imported backend is used
        if c["pre"]:
            wanted = c["pre"]         # what the user imported (their base modules come along)
            if module not in pre_closed:
                ex.violations.append(Violation({"dev": "preimport-ignored"}, f"pre-imported {wanted} but module in use is {module}", rep))
        elif c["env"] in name_to_mod:
            if module != name_to_mod[c["env"]]:
                ex.violations.append(Violation({"dev": "env-not-honoured"}, f"PYSNARK_BACKEND={c['env']} but module in use is {module}", rep))
        else:
            # the yardstick is the DOCUMENTED order (literal above), not the registry read from the source; a registry entry the
            # documentation does not know ranks after the documented ones, in registry order
            ranked = sorted(((doc_rank.get(nm, len(doc_rank) + i), nm, mod) for i, (nm, mod) in enumerate(reg)))
            first = next(((nm, mod) for (_, nm, mod) in ranked if mod not in unl), (None, None))
            exp_name, exp = ("nobackend", "pysnark.nobackend") if c["ipython"] and "pysnark.nobackend" not in unl else first
            ex.count("auto-detect-expected:" + str(exp_name))
            if module != exp or name != exp_name:
                ex.violations.append(Violation({"dev": "auto-detect-order", "chosen": name, "documented_first_loadable": exp_name,
                                                "env": "unset" if c["env"] is None else "unknown-name"},
                                               f"nothing named (PYSNARK_BACKEND={c['env']!r}), nothing pre-imported, loadable in documented order: "
                                               f"{[nm for (_, nm, mod) in ranked if mod not in unl]}: auto-detection chose {name} ({module}), the first "
                                               f"loadable backend in the documented order is {exp_name} ({exp})", rep))
            if c["env"] is not None and not unknown_msg:
                ex.violations.append(Violation({"dev": "unknown-not-reported"}, f"unknown backend name {c['env']!r} was not reported", rep))
        # (b) the reported name identifies module and field
        if name in name_to_mod:
            derived = [d for d in pre_closed if d in EDGES]
            if name_to_mod[name] != module:
                ex.violations.append(Violation({"dev": "name-module-mismatch"}, f"reported name {name} but constraints go to {module}", rep))
            if name in expected_mod and o.get("modulus") != expected_mod[name]:
                ex.violations.append(Violation({"dev": "name-field-mismatch", "derived_preimported": bool(derived)},
                                               f"reported name {name} but the field in effect has modulus {str(o.get('modulus'))[:20]}… "
                                               f"(pre-imported: {c['pre']})", rep))
        else:
            ex.violations.append(Violation({"dev": "unregistered-name"}, f"reported name {name!r} is not in the registry", rep))
        # (d) the proof system driven is the one the reported name stands for (libsnark stand-in only)
        if "calls" in o:
            fams = sorted({x.get("system") for x in o["calls"]})
            fns = sorted({x.get("fn") for x in o["calls"]})
            want = PROOF_SYSTEM.get(name)
            tagged = sorted({v for v in (o.get("tags") or {}).values() if v})
            derived = bool([d for d in pre_closed if d in EDGES])
            ex.count("proof-system-driven:" + ("+".join(fams) or "none"))
            if not o["calls"]:
                ex.violations.append(Violation({"dev": "proving-step-drives-nothing", "name": name},
                                               f"backend {name} ({module}): the proving step called no proof-system entry point "
                                               f"(steps: {o.get('drive')})", rep))
            elif want is not None and (fams != [want] or tagged != [want]):
                ex.violations.append(Violation({"dev": "name-proof-system-mismatch", "name": name, "derived_preimported": derived, "driven": "+".join(fams),
                                                "selected_by": "pre-import" if c["pre"] else "environment" if c["env"] in name_to_mod else "auto-detection"},
                                               f"reported name {name} ({want}) but the proving step drove the {'+'.join(fams)} entry points "
                                               f"({', '.join(fns[:4])}, ...) and wrote {o.get('tags')} (PYSNARK_BACKEND={c['env']}, pre-imported: {c['pre']})",
                                               dict(rep, calls=fns, tags=o.get("tags"), drive=o.get("drive"))))
            bad_steps = {k: v for k, v in (o.get("drive") or {}).items() if v != "ok"}
            if bad_steps:
                ex.violations.append(Violation({"dev": "proving-step-raises", "name": name, "step": sorted(bad_steps)[0]},
                                               f"backend {name}: driving the proving step raised {bad_steps}", rep))
        # (e) every entry point, each in a fresh interpreter: the family driven is the one the name reported THERE stands for
        for st in o.get("steps") or []:
            sname = st.get("name")
            want = PROOF_SYSTEM.get(sname)
            acts = st["step"].split("+")
            ex.count("entry:" + st["step"])
            if st.get("public"):
                undriven |= set(st["public"]) - KNOWN_PUBLIC
            if want is None or not st.get("driven_at_all"):
                continue                                        # another backend was selected: nothing of libsnark to drive
            derived = bool([d for d in pre_closed if d in EDGES])
            sel = "pre-import" if c["pre"] else "environment" if c["env"] in name_to_mod else "auto-detection"
            fcalls = [x for x in st["calls"] if str(x.get("fn", "")).startswith(("zk_", "zkgg_"))]
            fams = sorted({x.get("system") for x in fcalls})
            fns = [x.get("fn") for x in fcalls]
            handed = sorted({x.get(k) for x in fcalls for k in ("key_system", "proof_system") if x.get(k)})
            tagged = sorted({v for v in (st.get("tags") or {}).values() if v})
            srep = dict(rep, step=st["step"], flow=c["flow"], calls=fns, tags=st.get("tags"), result=st.get("result"), reported_in_step=sname)
            ex.count("entry-drove:" + ("+".join(fams) or "none"))
            bad = {k: v for k, v in st["result"].items() if k != "verified" and v not in ("ok", "left-to-the-exit-hook")}
            if bad:
                ex.violations.append(Violation({"dev": "entry-point-raises", "name": sname, "entry": st["step"], "selected_by": sel,
                                                "derived_preimported": derived},
                                               f"backend {sname}, entry point {st['step']} (flow {c['flow']}, fresh interpreter): {bad}", srep))
                break
            prefix = {"pinocchio": "zk_", "groth16": "zkgg_"}[want]
            missing = [prefix + f for a in acts for f in ACTIONS[a] if not any(fn in ("zk_" + f, "zkgg_" + f) for fn in fns)]
            if missing:
                ex.violations.append(Violation({"dev": "entry-point-drives-nothing", "name": sname, "entry": st["step"], "selected_by": sel},
                                               f"backend {sname}, entry point {st['step']}: no call of {missing} (calls: {fns})", srep))
            elif fams != [want] or (handed and handed != [want]) or (tagged and tagged != [want]):
                ex.violations.append(Violation({"dev": "name-proof-system-mismatch", "name": sname, "derived_preimported": derived,
                                                "driven": "+".join(fams), "selected_by": sel, "entry": st["step"]},
                                               f"reported name {sname} ({want}), selected by {sel} (PYSNARK_BACKEND={c['env']}, pre-imported: {c['pre']}); "
                                               f"entry point {st['step']} in a fresh interpreter (flow {c['flow']}) drove the {'+'.join(fams)} "
                                               f"family: {fns}; keys/proofs handed in: {handed}; files: {st.get('tags')}", srep))
            elif any(v != "True" for v in st.get("verified", [])) or st["result"].get("verified") is False:
                ex.violations.append(Violation({"dev": "own-proof-rejected", "name": sname, "entry": st["step"], "selected_by": sel},
                                               f"backend {sname}, entry point {st['step']}: the proof made two steps earlier in the same flow is rejected", srep))
        # (c) complete interface
        if o.get("missing"):
            ex.violations.append(Violation({"dev": "incomplete-interface"}, f"backend {name} ({module}) lacks {o['missing']}", rep))
        if len(ex.samples) < 5:
            ex.samples.append({"config": c, "observed": rep["observed"]})
    if undriven:
        ex.notes.append(f"public functions of the selected libsnark backend module that no flow drives: {sorted(undriven)}")
    return ex


def replay(ctx, payload):
    print(run_one(payload["replay"]["config"]))
    return 0
