"""C19 — the backend in use is the one the configuration names."""
import concurrent.futures as cf
import json, os, shutil, subprocess, tempfile
from .. import common
from ..framework import Exploration, Violation

ASSUMPTIONS = ["one fresh interpreter per configuration (PYSNARK_BACKEND value, set of pre-imported backend modules, set of modules made "
               "unloadable by an import-blocking finder, IPython flag through a get_ipython stub); it imports pysnark.runtime and reports "
               "backend_name, the module receiving the constraints, get_modulus(), the interface attributes and the messages printed",
               "the real libsnark extension is not installed. Two classes of configuration: (i) the sandbox as it is: the libsnark modules "
               "are in the unloadable set; (ii) `libsnark_stub`: harness/stubs (a recording STAND-IN package `libsnark`, pure Python, "
               "which is NOT libsnark: it keeps the protoboard as data and logs which proof-system entry points are called, zk_* = "
               "Pinocchio family, zkgg_* = Groth16 family, and tags the keys/proofs it hands out) is put on PYTHONPATH of the child only; "
               "pysnark/libsnark/backend.py and backendgg.py are then imported and selected by pysnark's own code, a small circuit is "
               "traced and the proving step is driven the way runtime.final() drives it (autoprove, then the keygen / prove / verify "
               "operations of process_snark); oracle: the family of entry points driven and the tags in pysnark_vk / pysnark_log are "
               "those of the proof system the reported backend name stands for (libsnark: Pinocchio, libsnarkgg: Groth16), never both. "
               "What real libsnark does with the calls is outside this check",
               "flatbuffers is the stand-in; the qaptools binaries are failing stubs: CPython's import machinery is modelled in "
               "Model/Select.lean and validated only here"]
PARTIAL = ["C19_name_identifies_partial excludes configurations with a pre-imported derived backend module (finding C19-derived-preimport)"]
INTERFACE = ["privval", "pubval", "zero", "one", "fieldinverse", "get_modulus", "add_constraint", "prove"]
NEVER = ["pysnark.libsnark.backend", "pysnark.libsnark.backendgg"]
PROOF_SYSTEM = {"libsnark": "pinocchio", "libsnarkgg": "groth16"}       # what each registry name stands for (README)
STUB_LOG = "libsnark_stub_calls.jsonl"
EDGES = {"pysnark.zkinterface.backendbellman": ["pysnark.zkinterface.backend"],
         "pysnark.zkinterface.backendbulletproofs": ["pysnark.zkinterface.backend"],
         "pysnark.libsnark.backendgg": ["pysnark.libsnark.backend"]}

CHILD = r'''
import sys, os, json, importlib, importlib.abc, io, contextlib
cfg = json.loads(sys.argv[1])
class Block(importlib.abc.MetaPathFinder):
    def find_spec(self, name, path, target=None):
        if name in cfg["unloadable"]:
            raise ImportError("blocked by the harness: " + name)
        return None
sys.meta_path.insert(0, Block())
if cfg["ipython"]:
    import builtins
    builtins.get_ipython = lambda: None
out = {}
buf = io.StringIO()
try:
    with contextlib.redirect_stdout(buf):
        for m in cfg["pre"]:
            importlib.import_module(m)
        import pysnark.runtime as R
    R.autoprove = False
    out["name"] = R.backend_name
    out["module"] = None if R.backend is None else R.backend.__name__
    if R.backend is not None:
        out["modulus"] = R.backend.get_modulus() if hasattr(R.backend, "get_modulus") else None
        out["missing"] = [a for a in %r if not callable(getattr(R.backend, a, None))]
    if cfg.get("libsnark_stub") and R.backend is not None and R.backend.__name__.startswith("pysnark.libsnark."):
        # drive the proving step as runtime.final() does: the exit hook with autoprove, then the three process_snark operations
        drive = {}
        with contextlib.redirect_stdout(buf), contextlib.redirect_stderr(buf):
            from pysnark.runtime import PubVal, PrivVal
            x = PubVal(3); y = PrivVal(4); z = x * y; z.assert_eq(12)
            for step, (auto, op) in enumerate([(True, None), (False, "keygen"), (False, "prove"), (False, "verify")]):
                R.autoprove = auto; R.operation = op; R.namevals = {}
                try:
                    R.final(); drive[op or "autoprove"] = "ok"
                except BaseException as e:
                    drive[op or "autoprove"] = type(e).__name__ + ": " + str(e)[:100]
        R.autoprove = False
        out["drive"] = drive
        try:
            out["calls"] = [json.loads(l) for l in open(%r)]
        except OSError:
            out["calls"] = []
        tags = {}
        for fn, path in (("pysnark_vk", ["system"]), ("pysnark_ek", ["system"]), ("pysnark_log", ["proof", "system"]), ("pysnark_pk", ["system"]),
                         ("pysnark_proof", ["system"])):
            try:
                v = json.load(open(fn))
                for k in path: v = v[k]
                tags[fn] = v
            except Exception as e:
                tags[fn] = None
        out["tags"] = tags
except BaseException as e:
    out["error"] = type(e).__name__
    out["errmsg"] = str(e)[:200]
out["stdout"] = buf.getvalue()[-1500:]
print("@@" + json.dumps(out))
os._exit(0)
''' % (INTERFACE, STUB_LOG)


def closure_unloadable(unl):
    s = set(unl)
    changed = True
    while changed:
        changed = False
        for d, bases in EDGES.items():
            if d not in s and any(b in s for b in bases):
                s.add(d); changed = True
    return sorted(s)


def closure_pre(pre):
    out = []
    for m in pre:
        for b in EDGES.get(m, []):
            if b not in out: out.append(b)
        if m not in out: out.append(m)
    return out


def run_one(cfg):
    d = tempfile.mkdtemp(prefix="verif-c19-")
    try:
        env = dict(os.environ)
        env["PYTHONDONTWRITEBYTECODE"] = "1"
        env.pop("PYSNARK_BACKEND", None)
        if cfg["env"] is not None:
            env["PYSNARK_BACKEND"] = cfg["env"]
        env["QAPTOOLS_BIN"] = common.stub_dir("qaptools")
        env["PYTHONPATH"] = os.pathsep.join([os.path.join(common.HARNESS, "fbshim"), common.REPO] +
                                            ([common.stub_dir("")] if cfg.get("libsnark_stub") else []))     # stand-in `libsnark`: child only
        env.pop("LIBSNARK_STUB_LOG", None)
        pr = subprocess.run([common.PY, "-c", CHILD, json.dumps(cfg)], cwd=d, env=env, capture_output=True, text=True, timeout=120)
        for l in pr.stdout.splitlines():
            if l.startswith("@@"):
                return json.loads(l[2:])
        return {"error": "no-report", "errmsg": (pr.stdout + pr.stderr)[-400:]}
    finally:
        shutil.rmtree(d, ignore_errors=True)


def gen(rnd, registry, n, exhaustive):
    names = [b[0] for b in registry]; mods = [b[1] for b in registry]
    loadable_mods = [m for m in mods if m not in NEVER]
    cfgs = []
    envs = [None] + names + ["bogus", "", "SnarkJS"]
    # every env value, nothing pre-imported, nothing else blocked
    for e in envs:
        cfgs.append({"env": e, "pre": [], "unloadable": NEVER, "ipython": False})
    for m in loadable_mods:
        cfgs.append({"env": None, "pre": [m], "unloadable": NEVER, "ipython": False})
        cfgs.append({"env": rnd.choice(names), "pre": [m], "unloadable": NEVER, "ipython": False})
    cfgs.append({"env": None, "pre": [], "unloadable": NEVER, "ipython": True})
    cfgs.append({"env": "bogus", "pre": [], "unloadable": NEVER, "ipython": True})
    # the libsnark stand-in importable: every environment value alone; the libsnark modules pre-imported (base, derived, both
    # orders) with and without an environment value; other backends pre-imported while the environment names a libsnark one
    for e in envs:
        cfgs.append({"env": e, "pre": [], "unloadable": [], "ipython": False, "libsnark_stub": True})
    for pre in ([NEVER[0]], [NEVER[1]], NEVER, NEVER[::-1]):
        for e in (None, "libsnark", "libsnarkgg", rnd.choice(names)):
            cfgs.append({"env": e, "pre": list(pre), "unloadable": [], "ipython": False, "libsnark_stub": True})
    for e in ("libsnark", "libsnarkgg"):
        cfgs.append({"env": e, "pre": [rnd.choice(loadable_mods)], "unloadable": [], "ipython": False, "libsnark_stub": True})
        cfgs.append({"env": e, "pre": [], "unloadable": [rnd.choice(loadable_mods)], "ipython": rnd.random() < 0.5, "libsnark_stub": True})
    n += 30
    while len(cfgs) < n:
        if rnd.random() < 0.3:
            pre = rnd.sample(mods, rnd.choice([0, 0, 1, 1, 2]))
            unl = set(rnd.sample(mods, rnd.choice([0, 0, 1, 2, 3]))) - set(closure_pre(pre))
            cfgs.append({"env": rnd.choice(envs + ["libsnark", "libsnarkgg"]), "pre": pre, "unloadable": sorted(unl),
                         "ipython": rnd.random() < 0.1, "libsnark_stub": True})
            continue
        k = rnd.choice([0, 0, 1, 1, 2])
        pre = rnd.sample(loadable_mods, k)
        unl = set(NEVER) | set(rnd.sample(loadable_mods, rnd.choice([0, 0, 1, 2, 3])))
        unl -= set(closure_pre(pre))
        cfgs.append({"env": rnd.choice(envs), "pre": pre, "unloadable": sorted(unl), "ipython": rnd.random() < 0.1})
    for c in cfgs:
        c["pre"] = closure_pre(c["pre"])[-len(c["pre"]):] if False else c["pre"]
        c["unloadable"] = closure_unloadable(c["unloadable"])
    return cfgs


def explore(ctx, extended=False, focus=None):
    ex = Exploration()
    reg = ctx.consts["backends"] if ctx.consts else []
    expected_mod = {}
    if ctx.consts:
        c = ctx.consts
        expected_mod = {"qaptools": c["qaptools_p"], "snarkjs": c["snarkjs_p"], "zkinterface": c["zkif_p"], "zkifbellman": c["bellman_p"],
                        "zkifbulletproofs": c["bulletproofs_p"], "nobackend": c["nobackend_p"]}
    ex.rule = ("configurations over the registry extracted from the source: every PYSNARK_BACKEND value (each known name, unknown, empty, "
               "wrong case, unset) alone; every loadable backend module pre-imported, with and without an environment value; IPython; "
               "then random combinations of pre-imports (several, any order), environment and unloadable modules; distinct = distinct "
               "configurations")
    cfgs = gen(ctx.rnd, reg, ctx.n(80, 1200) * (2 if extended else 1), ctx.thorough())
    with cf.ThreadPoolExecutor(14) as pool:
        outs = list(pool.map(run_one, cfgs))
    lines = []
    for i, c in enumerate(cfgs):
        pre_closed = closure_pre(c["pre"])
        lines.append(f"S|s{i}|{'-' if c['env'] is None else c['env']}|{','.join(pre_closed)}|{','.join(c['unloadable'])}|{int(c['ipython'])}")
    ml = common.lean_driver(lines)
    name_to_mod = dict((b[0], b[1]) for b in reg)
    for c, o, m in zip(cfgs, outs, ml):
        ex.evaluations += 1
        ex.distinct.add(json.dumps(c, sort_keys=True))
        ex.count("env:" + ("unset" if c["env"] is None else "known" if c["env"] in name_to_mod else "unknown"))
        ex.count(f"npre:{len(c['pre'])}")
        ex.count("libsnark:" + ("stand-in-importable" if c.get("libsnark_stub") else "not-installed"))
        mf = m.split("|")
        unknown_msg = "unknown backend in environment variables" in o.get("stdout", "")
        loaderr = sorted(l.split("Error loading backend ")[1].split(":")[0] for l in o.get("stdout", "").splitlines() if "Error loading backend" in l)
        if mf[1] == "ok":
            model = ("ok", mf[2], mf[3], mf[4] == "unknown=1", sorted(x for x in mf[5][8:].split(",") if x))
            impl = ("ok", o.get("name"), o.get("module"), unknown_msg, loaderr) if "error" not in o else ("error", o.get("error"))
        elif mf[1] == "importerror":
            model = ("importerror",)
            impl = ("importerror",) if o.get("error") in ("ImportError", "ModuleNotFoundError", "RuntimeError") else ("other", o)
        else:
            model = ("nobackend",)
            impl = ("nobackend",) if o.get("error") == "AttributeError" or o.get("module") is None else ("other", o.get("name"))
        if impl != model:
            ex.disagreements.append({"config": c, "impl": str(impl)[:300], "model": str(model)[:300]})
        else:
            ex.traces_validated += 1
        rep = {"config": c, "observed": {k: o.get(k) for k in ("name", "module", "modulus", "error", "missing")}}
        if "error" in o:
            # failing loudly is right only for a known, unloadable name in the environment
            known_unloadable = c["env"] in name_to_mod and name_to_mod[c["env"]] in c["unloadable"] and not \
                any(mod in closure_pre(c["pre"]) for mod in name_to_mod.values())
            if not known_unloadable and o.get("error") not in (None,) and not (all(x in c["unloadable"] for x in name_to_mod.values())):
                if mf[1] == "ok":
                    ex.violations.append(Violation({"dev": "raises"}, f"selection raised {o.get('error')}: {o.get('errmsg', '')[:80]}", rep))
            continue
        name, module = o.get("name"), o.get("module")
        pre_closed = closure_pre(c["pre"])
        pre_reg = [mod for mod in pre_closed if mod in name_to_mod.values()]
        # (a) a pre-imported backend is used
        if c["pre"]:
            wanted = c["pre"]         # what the user imported (their base modules come along)
            if module not in pre_closed:
                ex.violations.append(Violation({"dev": "preimport-ignored"}, f"pre-imported {wanted} but module in use is {module}", rep))
        elif c["env"] in name_to_mod:
            if module != name_to_mod[c["env"]]:
                ex.violations.append(Violation({"dev": "env-not-honoured"}, f"PYSNARK_BACKEND={c['env']} but module in use is {module}", rep))
        else:
            first = next((mod for (nm, mod) in reg if mod not in c["unloadable"]), None)
            exp = "pysnark.nobackend" if c["ipython"] and "pysnark.nobackend" not in c["unloadable"] else first
            if module != exp:
                ex.violations.append(Violation({"dev": "auto-detect-order"}, f"auto-detection chose {module}, first loadable in documented order is {exp}", rep))
            if c["env"] is not None and not unknown_msg:
                ex.violations.append(Violation({"dev": "unknown-not-reported"}, f"unknown backend name {c['env']!r} was not reported", rep))
        # (b) the reported name identifies module and field
        if name in name_to_mod:
            derived = [d for d in pre_closed if d in EDGES]
            if name_to_mod[name] != module:
                ex.violations.append(Violation({"dev": "name-module-mismatch"}, f"reported name {name} but constraints go to {module}", rep))
            if name in expected_mod and o.get("modulus") != expected_mod[name]:
                ex.violations.append(Violation({"dev": "name-field-mismatch", "derived_preimported": bool(derived)},
                                               f"reported name {name} but the field in effect has modulus {str(o.get('modulus'))[:20]}… "
                                               f"(pre-imported: {c['pre']})", rep))
        else:
            ex.violations.append(Violation({"dev": "unregistered-name"}, f"reported name {name!r} is not in the registry", rep))
        # (d) the proof system driven is the one the reported name stands for (libsnark stand-in only)
        if "calls" in o:
            fams = sorted({x.get("system") for x in o["calls"]})
            fns = sorted({x.get("fn") for x in o["calls"]})
            want = PROOF_SYSTEM.get(name)
            tagged = sorted({v for v in (o.get("tags") or {}).values() if v})
            derived = bool([d for d in pre_closed if d in EDGES])
            ex.count("proof-system-driven:" + ("+".join(fams) or "none"))
            if not o["calls"]:
                ex.violations.append(Violation({"dev": "proving-step-drives-nothing", "name": name},
                                               f"backend {name} ({module}): the proving step called no proof-system entry point "
                                               f"(steps: {o.get('drive')})", rep))
            elif want is not None and (fams != [want] or tagged != [want]):
                ex.violations.append(Violation({"dev": "name-proof-system-mismatch", "name": name, "derived_preimported": derived, "driven": "+".join(fams),
                                                "selected_by": "pre-import" if c["pre"] else "environment" if c["env"] in name_to_mod else "auto-detection"},
                                               f"reported name {name} ({want}) but the proving step drove the {'+'.join(fams)} entry points "
                                               f"({', '.join(fns[:4])}, ...) and wrote {o.get('tags')} (PYSNARK_BACKEND={c['env']}, pre-imported: {c['pre']})",
                                               dict(rep, calls=fns, tags=o.get("tags"), drive=o.get("drive"))))
            bad_steps = {k: v for k, v in (o.get("drive") or {}).items() if v != "ok"}
            if bad_steps:
                ex.violations.append(Violation({"dev": "proving-step-raises", "name": name, "step": sorted(bad_steps)[0]},
                                               f"backend {name}: driving the proving step raised {bad_steps}", rep))
        # (c) complete interface
        if o.get("missing"):
            ex.violations.append(Violation({"dev": "incomplete-interface"}, f"backend {name} ({module}) lacks {o['missing']}", rep))
        if len(ex.samples) < 5:
            ex.samples.append({"config": c, "observed": rep["observed"]})
    return ex


def replay(ctx, payload):
    print(run_one(payload["replay"]["config"]))
    return 0
